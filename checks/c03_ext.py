"""C03 extension - history independence of further objects with hidden state.
Spec: GPCacheExt.tla (slots + version tags per family).  Families: IndependentModelList (mlist), exact GP with a
HeteroskedasticNoise likelihood (hetero), NNVariationalStrategy (nnvs), LMC / independent multitask strategies over a
batched VariationalStrategy (lmc, imt), a two-layer DeepGP (deepgp), GridInterpolationKernel with a data-driven grid
(gridi), GridKernel + update_grid (gridk), RFFKernel (rff), SpectralMixtureKernel.initialize_from_data (sm).

run_ext(ck) is called at the end of c03.run; replay_ext(rep) by c03.replay for cases carrying "ext": true."""
import os
import random

from harness import core, tlc

PID = "C03"
FAMILIES = ("mlist", "hetero", "nnvs", "lmc", "imt", "deepgp", "gridi", "gridk", "rff", "sm")
MEMO = {"mlist": {"ps1", "ps2"}, "hetero": {"ps", "nps"}, "nnvs": set(), "lmc": {"prior", "vardist", "chol"}, "imt": {"prior", "vardist", "chol"},
        "deepgp": {"prior1", "vardist1", "chol1", "prior2", "vardist2", "chol2"}, "gridi": {"ps", "kern"}, "gridk": {"ps", "kern"},
        "rff": {"ps"}, "sm": {"ps"}}
CUR_INV = ["TypeOK", "NoStaleServe", "NoStrategyWhileTraining", "NoiseModeRestored", "NoStaleShape", "NoStaleGridK"]
# what the model of the CURRENT code is expected to violate (predictions, confirmed or refuted by the replay), and the
# repaired variant that must satisfy the same invariant.  When the library is repaired: move the repaired constants into
# current() and delete the entry here (until then the replay reports MODEL-DRIFT: the model predicts a stale read that the
# repaired object no longer shows).
PREDICTED = {
    "gridi": ("NoStaleGrid", dict(GridMoveClears={"kern", "ps"})),
    "nnvs": ("NoStaleKnn", dict(KnnOnLoad=True)),
}
# deliberately broken models: TLC must reject each (the invariants are not vacuous)
BROKEN = {
    "mlist-member-set_train_data-keeps-strategy": ("mlist", dict(SetDataClears={"ps1"}), "NoStaleServe"),
    "mlist-train-skips-second-member": ("mlist", dict(TrainClears={"ps1"}), "NoStrategyWhileTraining"),
    "hetero-load-keeps-noise-model-strategy": ("hetero", dict(LoadClears={"ps"}), "NoStaleServe"),
    "hetero-no-finally": ("hetero", dict(NoiseFinally=False), "NoiseModeRestored"),
    "lmc-train-does-not-clear-base-memo": ("lmc", dict(TrainClears=set()), "NoStaleServe"),
    "deepgp-load-skips-second-layer": ("deepgp", dict(LoadClears={"prior1", "vardist1", "chol1"}), "NoStaleServe"),
    "deepgp-no-shape-pop": ("deepgp", dict(ShapePop=False), "NoStaleShape"),
    "gridk-update_grid-keeps-kernel-matrix": ("gridk", dict(GridMoveClears=set()), "NoStaleGrid"),
    "gridi-load-keeps-kernel-matrix": ("gridi", dict(LoadClears={"ps"}), "NoStaleServe"),
    "rff-set_train_data-keeps-strategy": ("rff", dict(SetDataClears=set()), "NoStaleServe"),
}
KNOWN_CELL = {"gridi": "C03/ext/gridi/strategy-kept-across-update_grid",
              "nnvs": "C03/ext/nnvs/knn-structures-not-rebuilt-by-load_state_dict"}


ALL_MEMO = set().union(*MEMO.values())
# actions every family must exhibit in the generated histories (vacuity guard, per family)
EXPECT_ACTIONS = {f: {"Train", "Eval", "OptStep", "Predict", "LoadStateDict"} for f in FAMILIES}
for _f in ("mlist", "hetero", "gridi", "gridk", "rff", "sm"):
    EXPECT_ACTIONS[_f] |= {"SetTrainData", "PriorPredict", "Backward"}
EXPECT_ACTIONS["mlist"] |= {"GetFantasy"}
EXPECT_ACTIONS["hetero"] |= {"FailNoise"}
EXPECT_ACTIONS["nnvs"] |= {"TrainCall"}
EXPECT_ACTIONS["gridk"] |= {"Regrid"}
EXPECT_ACTIONS["sm"] |= {"InitFromData"}


def current():
    """invalidation sites of the current code"""
    return dict(TrainClears=set(ALL_MEMO), LoadClears=set(ALL_MEMO), SetDataClears={"ps", "ps1", "ps2"}, GridMoveClears={"kern"},
                NoiseFinally=True, KnnOnLoad=False, ShapePop=True)


def write_mc(workdir, name, families, consts, maxv, maxlen, record, invariants):
    os.makedirs(workdir, exist_ok=True)
    mod = "MC_GPCacheExt_" + name.replace("-", "_")
    c = current()
    c.update(consts)

    def setlit(s):
        return "{" + ", ".join('"%s"' % x for x in sorted(s)) + "}"
    with open(os.path.join(workdir, mod + ".tla"), "w") as f:
        f.write("---- MODULE %s ----\nEXTENDS GPCacheExt\nFS == %s\nTC == %s\nLC == %s\nSC == %s\nGC == %s\n====\n" % (
            mod, setlit(families), setlit(c["TrainClears"]), setlit(c["LoadClears"]), setlit(c["SetDataClears"]), setlit(c["GridMoveClears"])))
    cfg = os.path.join(workdir, mod + ".cfg")
    tlc.write_cfg(cfg, spec="Spec", constants={"Families": "<- FS", "MaxV": maxv, "MaxLen": maxlen, "RecordHist": record, "TrainClears": "<- TC",
                                               "LoadClears": "<- LC", "SetDataClears": "<- SC", "GridMoveClears": "<- GC",
                                               "NoiseFinally": c["NoiseFinally"], "KnnOnLoad": c["KnnOnLoad"], "ShapePop": c["ShapePop"]},
                  invariants=invariants)
    return os.path.join(workdir, mod + ".tla"), cfg


# ---------------------------------------------------------------------------------------------
# replay of one history on a real object
# ---------------------------------------------------------------------------------------------
GRID_NEAR = [-1.3, 0.1, 1.25]
GRID_FAR = [-2.9, 0.1, 3.1]


def _narrow(x, k):
    """training inputs number k of the gridi family: range exactly +-(0.80 + 0.03 k), strictly inside the near test points and
    strictly wider than every earlier narrow set (at most MaxV = 4 data changes per history)"""
    lo, hi = x.min(), x.max()
    r = 0.80 + 0.03 * min(k, 5)
    return ((x - lo) / (hi - lo) * 2 - 1) * r


def _wide(x, k):
    r = 1.9 + 0.03 * min(k, 5)
    lo, hi = x.min(), x.max()
    return ((x - lo) / (hi - lo) * 2 - 1) * r


def _tensors(out):
    """observation of one output distribution (or list of distributions)"""
    if isinstance(out, (list, tuple)):
        res = []
        for o in out:
            res += _tensors(o)
        return res
    return [("mean", out.mean.detach().clone()), ("covariance", out.covariance_matrix.detach().clone())]


def run_history(family, ops, seed):
    """Returns (failures, predictions compared, index of the last step executed).  A failure of a cell the model predicts
    (stale slot read) does not end the replay."""
    import torch
    from contextlib import ExitStack
    from gpytorch import settings
    from checks import gpmodels as G
    from checks import gpmodels_ext as X
    torch.manual_seed(seed)
    live = X.make(family, seed)
    if family == "gridi":
        x0 = _narrow(live.model.train_inputs[0], 0)
        live.model.set_train_data(x0, torch.sin(3 * x0.sum(-1)) + 0.05 * live.model.train_targets, strict=False)
    live.train(False)
    lr = 0.002 if family in ("nnvs", "deepgp") else 0.02
    opt = torch.optim.SGD(live.params(), lr=lr)
    pending, failures = [], []
    compared = 0
    n_load = n_data = 0
    D = torch.float64

    def test_points(op):
        if family == "gridi":
            return torch.tensor(GRID_FAR if op.get("far") else GRID_NEAR, dtype=D).unsqueeze(-1)
        if op.get("alt"):
            return live.xs.flip(0) * 0.8 + 0.1
        return live.xs

    def observe(obj, op, prior=False):
        """one evaluation-mode call of `obj` under the settings of `op`; returns (outputs kept for backward, tensors)"""
        xs = test_points(op)
        with ExitStack() as st:
            st.enter_context(settings.fast_pred_var(bool(op.get("fpv", False))))
            st.enter_context(settings.detach_test_caches(bool(op.get("detach", True))))
            if family == "deepgp":
                st.enter_context(settings.num_likelihood_samples(int(op.get("ns") or 3)))
                torch.manual_seed(seed * 31 + 7)            # the same base samples for the live and the fresh model
            if prior:
                st.enter_context(settings.prior_mode(True))
            if family == "mlist":
                which = op.get("which", "all")
                if which == "all":
                    out = obj.model(xs, xs)
                else:
                    out = obj.model.models[0 if which == "ps1" else 1](xs)
            elif family in ("lmc", "imt") and op.get("ti") and not prior:
                out = obj.model(xs, task_indices=torch.tensor([0, 1, 0]))
            elif family in X.VAR_LIKE and prior:
                out = obj.model(xs, prior=True)
            else:
                out = obj.model(xs)
            obs = _tensors(out)
            keep = out
            if family == "hetero" and op.get("lik") and not prior:
                pred = obj.lik(out, xs)
                obs += [("predictive-" + n, t) for n, t in _tensors(pred)]
                keep = pred
        return keep, obs

    def mode_flags():
        """hetero: the noise model's training flag must follow the outer model"""
        if family != "hetero":
            return None
        nm = live.lik.noise_covar.noise_model
        bad = [n for n, m in nm.named_modules() if m.training != live.model.training]
        return None if not bad else "outer model training=%s but noise model modules %s have training=%s" % (
            live.model.training, bad[:3], not live.model.training)

    for i, op in enumerate(ops):
        a = op["a"]
        try:
            if a in ("Train", "OptStep", "SetTrainData", "LoadStateDict", "Regrid", "TrainCall", "InitFromData"):
                del pending[:]
            if a == "Train":
                live.train(True)
            elif a == "Eval":
                live.train(False)
            elif a in ("OptStep", "TrainCall"):
                opt.zero_grad()
                loss = _loss(live, family, a == "TrainCall")
                if loss is not None:
                    # the graph of this loss was built by this very step: autograd can only fail here if the library kept
                    # tensors of an earlier graph alive (a cache that should have been dropped)
                    bok, bres = core.guarded(loss.backward)
                    if not bok:
                        failures.append(dict(step=i, what="raised", why="backward of the training objective: " + bres, predicted=[]))
                        return failures, compared, i
                    opt.step()
            elif a == "InitFromData":
                live.model.covar_module.initialize_from_data(live.model.train_inputs[0], live.model.train_targets)
            elif a in ("Predict", "PriorPredict"):
                prior = a == "PriorPredict"
                predicted = sorted(op.get("stale") or [])
                tw = X.fresh(live) if family == "deepgp" else None      # deep GP: both calls consume the same random draws
                lok, lres = core.guarded(lambda: observe(live, op, prior))
                if tw is None:
                    tw = X.fresh(live)
                fok, fres = core.guarded(lambda: observe(tw, op, prior))
                compared += 1
                fail = None
                if lok != fok:
                    fail = dict(step=i, what="raises" if not lok else "does-not-raise",
                                why="live model: %s; fresh model: %s" % ("ok" if lok else lres, "ok" if fok else fres))
                elif lok:
                    keep, lobs = lres
                    _, fobs = fres
                    if not op.get("detach", True) and a == "Predict":
                        pending.append(keep)
                    for (n1, t1), (n2, t2) in zip(lobs, fobs):
                        ok, why = core.close(t1, t2, 1e-8, 1e-10)
                        if not ok:
                            fail = dict(step=i, what=n1, why=why)
                            break
                if fail is not None:
                    fail["predicted"] = predicted
                    failures.append(fail)
                    if not predicted:
                        return failures, compared, i
            elif a == "SetTrainData":
                n_data += 1
                h = 1 if op.get("h") == "d2" else 0
                target = live.model.models[h] if family == "mlist" else live.model
                nx, ny = X.new_data(live, n_data, which=h)
                if family == "gridi":
                    nx = _wide(nx, n_data) if op.get("wide") else _narrow(nx, n_data)
                    ny = torch.sin(3 * nx.sum(-1)) + 0.05 * ny
                if family == "gridk":
                    nx, ny, _ = G.data(seed + 100 * n_data, n=7)
                if op.get("which") == "targets":
                    cur = target.train_targets
                    target.set_train_data(targets=(ny if ny.shape == cur.shape else cur + 0.1 * n_data), strict=False)
                else:
                    target.set_train_data(nx, ny, strict=False)
            elif a == "Regrid":
                n_data += 1
                nx, ny = X.new_data(live, n_data)
                live.model.covar_module.update_grid(nx.clone())
                live.model.set_train_data(nx, ny, strict=False)
            elif a == "LoadStateDict":
                n_load += 1
                live.load(X.perturbed_state(live, seed + 7 + n_load, new_z=bool(op.get("newz"))))
            elif a == "GetFantasy":
                g = torch.Generator().manual_seed(seed + i)
                xf = torch.rand(2, 1, generator=g, dtype=D) * 2 - 1
                core.guarded(lambda: live.model.get_fantasy_model([xf, xf], [torch.randn(2, generator=g, dtype=D), torch.randn(2, generator=g, dtype=D)]))
            elif a == "Backward":
                if pending:
                    out = pending[-1]
                    del pending[:]
                    tot = sum(o.mean.sum() + o.variance.sum() for o in (out if isinstance(out, (list, tuple)) else [out]))
                    if tot.requires_grad:
                        tot.backward(retain_graph=True)
                    live.model.zero_grad(set_to_none=True)
            elif a == "FailNoise":
                ok, res = core.guarded(lambda: live.lik.noise_covar(torch.zeros(3, 2, dtype=D)))
            else:
                raise core.Machinery("unknown action %r" % a)
            bad = mode_flags()
            if bad:
                failures.append(dict(step=i, what="noise-model-mode", why=bad, predicted=[]))
                return failures, compared, i
        except core.Machinery:
            raise
        except Exception as e:  # the implementation raised where the spec enables the operation
            import traceback
            tb = traceback.extract_tb(e.__traceback__)
            inner = [f for f in tb if "/gpytorch/" in f.filename or "linear_operator" in f.filename]
            if not inner:
                raise core.Machinery("driver error in %s at step %d (%s): %r\n%s" % (family, i, a, e, traceback.format_exc()[-1500:]))
            where = "%s:%d" % (os.path.basename(inner[-1].filename), inner[-1].lineno)
            failures.append(dict(step=i, what="raised", why="%s: %s at %s" % (type(e).__name__, str(e)[:200], where), predicted=[]))
            return failures, compared, i
    return failures, compared, len(ops) - 1


def _loss(live, family, call_only):
    """training-mode objective on the training data (one forward; None: forward only)"""
    import gpytorch
    from gpytorch import settings
    m, lik = live.model, live.lik
    if family == "mlist":
        mll = gpytorch.mlls.SumMarginalLogLikelihood(m.likelihood, m)
        return -mll(m(*m.train_inputs), m.train_targets)
    if family == "hetero":
        mll = gpytorch.mlls.ExactMarginalLogLikelihood(lik, m)
        return -mll(m(*m.train_inputs), m.train_targets, *m.train_inputs)
    if family in ("gridi", "gridk", "rff", "sm"):
        mll = gpytorch.mlls.ExactMarginalLogLikelihood(lik, m)
        return -mll(m(*m.train_inputs), m.train_targets)
    if family == "nnvs":
        out = m(None)
        if call_only:
            return None
        idx = m.variational_strategy.current_training_indices
        mll = gpytorch.mlls.VariationalELBO(lik, m, num_data=live.x.shape[0])
        return -mll(out, live.y[idx])
    if family in ("lmc", "imt"):
        mll = gpytorch.mlls.VariationalELBO(lik, m, num_data=live.x.shape[0])
        return -mll(m(live.x), live.y)
    if family == "deepgp":
        mll = gpytorch.mlls.DeepApproximateMLL(gpytorch.mlls.VariationalELBO(lik, m, num_data=live.x.shape[0]))
        with settings.num_likelihood_samples(3):
            return -mll(m(live.x), live.y)
    raise core.Machinery("no objective for %s" % family)


def signature(family, ops, fail):
    i = fail["step"]
    if fail["what"] == "noise-model-mode":
        return "C03/ext/hetero/noise-model-training-flag-not-restored"
    pred = set(fail.get("predicted") or [])
    if family == "gridi" and "ps" in pred and fail["what"] != "raised":
        return KNOWN_CELL["gridi"]
    if family == "nnvs" and "knn" in pred and fail["what"] != "raised":
        return KNOWN_CELL["nnvs"]
    since = []
    for op in ops[:i][::-1]:
        if op["a"] in ("Predict", "PriorPredict"):
            break
        since.append(op["a"])
    return "C03/ext/%s/after:%s/%s:%s" % (family, "+".join(since[::-1]) or "predict", ops[i]["a"], fail["what"].replace("predictive-", ""))


def _name(o, fam=None):
    s = o["a"]
    for k, lab in (("fpv", "fpv"), ("far", "far"), ("ti", "task_indices"), ("alt", "other-x"), ("wide", "wide"), ("newz", "new-inducing-points")):
        if o.get(k) is True:
            s += "(%s)" % lab
    if o.get("lik") is True and fam == "hetero":
        s += "(lik)"
    if o.get("detach") is False:
        s += "(attached)"
    if o.get("which") in ("ps1", "ps2", "targets"):
        s += "(%s)" % o["which"]
    if o.get("h") == "d2":
        s += "(member2)"
    if o.get("ns") and fam == "deepgp":
        s += "(ns=%s)" % o["ns"]
    return s


def _nontrivial(ops):
    preds = [k for k, o in enumerate(ops) if o["a"] in ("Predict", "PriorPredict")]
    return len(preds) >= 2 and any(o["a"] not in ("Predict", "PriorPredict", "Eval") for o in ops[preds[0]:preds[-1]])


def _worker(item):
    core.setup_torch()
    out = []
    fam = item["family"]
    for h in item["hists"]:
        ops = h["ops"]
        failures, compared, last = run_history(fam, ops, h["seed"])
        names = [_name(o, fam) for o in ops]
        preds = [k for k, o in enumerate(ops) if o["a"] in ("Predict", "PriorPredict")]
        nontrivial = _nontrivial(ops)
        base = dict(key=["ext", fam, names], nontrivial=nontrivial, n=max(compared, 1))
        # the model's prediction of a stale read that the real object does not show (a drift of the model, not a verdict)
        failed_steps = {f["step"] for f in failures}
        unconfirmed = [k for k in preds if ops[k].get("stale") and k not in failed_steps and k <= last]
        sigs = {}
        for f in failures:
            sigs.setdefault(signature(fam, ops, f), f)
        if not sigs:
            r = dict(base, ok=True)
            if unconfirmed:
                r["drift"] = "GPCacheExt (%s) predicts a stale read at step %d of %s but the live model equals the fresh one" % (
                    fam, unconfirmed[0], " ; ".join(names))
            if len(out) == 0:
                r["sample"] = dict(family="ext/" + fam, history=names)
            out.append(r)
            continue
        first = True
        for sig, f in sigs.items():
            r = dict(base if first else dict(base, n=0, nontrivial=False), ok=False, sig=sig,
                     detail="%s history %s: step %d (%s) %s: %s%s" % (
                         fam, " ; ".join(names), f["step"], ops[f["step"]]["a"],
                         ("%s differs from a freshly constructed model holding the same parameters and data" % f["what"]) if f["what"] not in ("raised", "noise-model-mode")
                         else ("the operation raised" if f["what"] == "raised" else "the noise model's training flag was not restored"), f["why"],
                         (" [stale slots read according to GPCacheExt: %s]" % ",".join(f["predicted"])) if f.get("predicted") else ""),
                     case=dict(ext=True, family=fam, ops=ops, seed=h["seed"]))
            first = False
            out.append(r)
    return out


def _jsonify(e):
    o = {}
    for k, v in e.items():
        if isinstance(v, (set, frozenset)):
            o[k] = sorted(str(x) for x in v)
        elif isinstance(v, (bool, int)):
            o[k] = v
        else:
            o[k] = str(v)
    return o


def finish_history(ops):
    """close every history with an observation: eval mode + a default prediction; what that prediction reads stale according
    to the model is the `post` field TLC recorded with the last generated step (used for naming the cell only)"""
    ops = [dict(o) for o in ops]
    mode = "eval"
    for o in ops:
        if o["a"] == "Train":
            mode = "train"
        elif o["a"] == "Eval":
            mode = "eval"
    post = list(ops[-1].get("post") or [])
    if mode == "train":
        ops.append(dict(a="Eval"))
    if ops[-1]["a"] != "Predict":
        ops.append(dict(a="Predict", fpv=False, detach=True, lik=True, which="all", far=False, ns=3, ti=False, alt=False, stale=post))
    return ops


def run_ext(ck):
    thorough = ck.tier == "thorough"
    core.setup_torch()
    ck.rule += ("; extension (GPCacheExt.tla): the same construction for IndependentModelList, HeteroskedasticNoise, NNVariationalStrategy, "
                "LMC / independent multitask strategies, a two-layer DeepGP, data-driven GridInterpolationKernel grids, GridKernel.update_grid, "
                "RFFKernel and SpectralMixtureKernel.initialize_from_data (cells C03/ext/<family>/...)")
    ck.assumptions += [
        "extension: the fresh twin is constructed from the live object's current data, inducing locations (NNVariationalStrategy) and grid "
        "(grid kernels: the grid is a registered buffer, i.e. part of the state) and then loads the live state_dict",
        "extension: deep GP outputs are compared under the same torch seed and num_likelihood_samples for the live and the fresh model; the twin is "
        "constructed before the live call so that both consume the same random draws (first-call initialisation of the variational parameters)",
        "extension: set_train_data on the noise model of a HeteroskedasticNoise likelihood (a sub-module edited behind the outer model) and the "
        "variational_cholesky_jitter setting (known finding of the base check) are not in the alphabet",
    ]
    wd = os.path.join(tlc.BUILD, PID, "ext")
    fams = list(FAMILIES)
    jobs, meta = [], []
    # (1) the cache machines of the current code, all families, exhaustively; predicted violations; repaired and broken variants
    mod, cfg = write_mc(os.path.join(wd, "mc"), "cur", fams, {}, 3 if thorough else 2, 0, False, CUR_INV)
    jobs.append(((mod, cfg), dict(name=PID + "/ext_mc_cur", workers=4, check=False)))
    meta.append(("cur", "all", None))
    for f, (inv, fix) in PREDICTED.items():
        if f not in fams:
            continue
        mod, cfg = write_mc(os.path.join(wd, "mc"), "pred_" + f, [f], {}, 2, 0, False, [inv])
        jobs.append(((mod, cfg), dict(name=PID + "/ext_pred_" + f, workers=1, check=False, coverage=False)))
        meta.append(("pred", f, inv))
        mod, cfg = write_mc(os.path.join(wd, "mc"), "fixed_" + f, [f], fix, 2, 0, False, [inv, "NoStaleServe"])
        jobs.append(((mod, cfg), dict(name=PID + "/ext_fixed_" + f, workers=1, check=False, coverage=False)))
        meta.append(("fixed", f, inv))
    for name, (f, consts, inv) in BROKEN.items():
        if f not in fams:
            continue
        mod, cfg = write_mc(os.path.join(wd, "mc"), "broken_" + name, [f], consts, 2, 0, False, [inv])
        jobs.append(((mod, cfg), dict(name=PID + "/ext_broken_" + name, workers=1, check=False, coverage=False)))
        meta.append(("broken", name, inv))
    # (2) generation: all histories up to the length bound (three runs, each below 2e4 states) + simulations
    Lof = {f: 3 for f in fams}
    if thorough:
        Lof.update({f: 4 for f in ("nnvs", "lmc", "imt", "deepgp") if f in fams})
    groups = {}
    for f in fams:
        g = "a" if f == "mlist" else "b" if f == "hetero" else "c" if f == "gridi" else "d" if Lof[f] == 4 else "e"
        groups.setdefault(g, []).append(f)
    for g, fs in groups.items():
        mod, cfg = write_mc(os.path.join(wd, "gen"), "gen_" + g, fs, {}, 3, Lof[fs[0]], True, [])
        jobs.append(((mod, cfg), dict(name=PID + "/ext_gen_" + g, workers=2, check=False, dump=True, coverage=False)))
        meta.append(("gen", g, Lof[fs[0]]))
    mod, cfg = write_mc(os.path.join(wd, "gen"), "sim", fams, {}, 4, 8, True, [])
    jobs.append(((mod, cfg), dict(name=PID + "/ext_sim", workers=1, check=False, simulate=dict(num=len(fams) * (150 if thorough else 25)), depth=9, seed=ck.seed + 3)))
    meta.append(("sim", "all", None))
    results = tlc.run_many(jobs, parallel=5)
    hists = {f: [] for f in fams}
    rejected, predictions = {}, {}
    for (kind, name, inv), res in zip(meta, results):
        ck.add_tlc(res, "ext %s %s" % (kind, name))
        if kind == "cur":
            if res.violation:
                tr = res.violation.get("trace") or []
                ck.model_drift("GPCacheExt.tla (model of the current code%s) violates %s" % (
                    (", family %s" % tr[-1][1].get("fam")) if tr else "", res.violation["name"]))
            elif res.rc != 0:
                raise tlc.TLCError("TLC failed on GPCacheExt:\n%s" % res.stdout[-1500:])
            need = {"Train", "Eval", "OptStep", "Next"} | ({"Backward"} if set(fams) & {"mlist", "hetero", "gridi", "gridk", "rff", "sm"} else set())
            need |= {a for f, a in (("mlist", "GetFantasy"), ("hetero", "FailNoise"), ("gridk", "Regrid"), ("nnvs", "TrainCall"), ("sm", "InitFromData")) if f in fams}
            ck.require_coverage(res, sorted(need))
        elif kind == "pred":
            predictions[name] = (res.violation or {}).get("name")
            if res.rc != 0 and not res.violation:
                raise tlc.TLCError("TLC failed on GPCacheExt pred %s:\n%s" % (name, res.stdout[-1500:]))
        elif kind == "fixed":
            if res.violation:
                ck.model_drift("GPCacheExt.tla: the repaired variant of family %s still violates %s" % (name, res.violation["name"]))
            elif res.rc != 0:
                raise tlc.TLCError("TLC failed on GPCacheExt fixed %s:\n%s" % (name, res.stdout[-1500:]))
        elif kind == "broken":
            rejected[name] = (res.violation or {}).get("name")
            if not res.violation:
                if res.rc != 0:
                    raise tlc.TLCError("TLC failed on GPCacheExt broken %s:\n%s" % (name, res.stdout[-1500:]))
                ck.vacuous("broken extension model %s is accepted by TLC (invariants vacuous)" % name)
        elif kind == "gen":
            if res.rc != 0 and not res.violation:
                raise tlc.TLCError("generation failed for ext group %s:\n%s" % (name, res.stdout[-1500:]))
            for st in res.states():
                if len(st["hist"]) == inv:
                    hists[str(st["fam"])].append([_jsonify(e) for e in st["hist"]])
        elif kind == "sim":
            for beh in res.behaviours():
                if beh and beh[-1][1]["hist"]:
                    hists[str(beh[-1][1]["fam"])].append([_jsonify(e) for e in beh[-1][1]["hist"]])
    for f in fams:
        seen = {o["a"] for h in hists[f] for o in h}
        missing = EXPECT_ACTIONS[f] - seen
        if missing:
            ck.vacuous("extension family %s: generated histories never take %s" % (f, sorted(missing)))
    ck.extra["ext_broken_models_rejected"] = rejected
    ck.extra["ext_model_predictions"] = predictions
    # replay
    rnd = random.Random(ck.seed + 11)
    cap = None if thorough else 300
    items = []
    for f in fams:
        hs = [finish_history(h) for h in hists[f]]
        ck.section("ext_gen_" + f, histories=len(hs))
        if not hs:
            ck.vacuous("no histories generated for extension family %s" % f)
        if cap is not None and len(hs) > cap:
            # quick tier: all long (simulated) histories, then a seeded sample that prefers predict -> change -> predict shapes
            long_ = [h for h in hs if len(h) > 6]
            rest = [h for h in hs if len(h) <= 6]
            nt = [h for h in rest if _nontrivial(h)]
            tr = [h for h in rest if not _nontrivial(h)]
            room = max(cap - len(long_), 0)
            pick = rnd.sample(nt, min(len(nt), int(room * 0.85)))
            pick += rnd.sample(tr, min(len(tr), room - len(pick)))
            hs = long_ + pick
        chunk = []
        for k, h in enumerate(hs):
            chunk.append(dict(ops=h, seed=ck.seed * 7919 + k))
            if len(chunk) == 10:
                items.append(dict(family=f, hists=chunk))
                chunk = []
        if chunk:
            items.append(dict(family=f, hists=chunk))
    rnd.shuffle(items)
    results = core.pmap(_worker, items, chunksize=1)
    ck.absorb(results)
    ck.section("ext_replay", histories=sum(len(it["hists"]) for it in items))


def replay_ext(rep):
    core.setup_torch()
    case = rep["case"]
    failures, compared, _ = run_history(case["family"], case["ops"], case["seed"])
    if failures:
        for f in failures:
            print("VIOLATION property=C03 replay=- :: %s :: %s" % (signature(case["family"], case["ops"], f), f))
        return 1
    print("replay passed (%d predictions compared)" % compared)
    return 0
