"""C14 - variational predictive q(f) and KL(q(u) || p(u)) equal their closed forms for every strategy.

Spec: VariationalQF.tla.  TLC (1) evaluates the denotation of the property and the code-shaped expressions exactly over
rationals on integer instances and checks that they agree, (2) checks the multitask mixing algebra and the KL reduction for every
position of the latent / task dimension in the batch shape (and rejects the reductions over "the last dimension"), (3) enumerates the
strategy x distribution x batch-shape (x batch layout of the multitask wrappers) lattice, (4) checks the training-mode call protocol
and enumerates its histories.
Replay: (a) the rational instances through the real strategies against TLC's exact values, (b) every lattice cell on seeded
RBF / Matern models against the closed form on the model's own prior, (c) training-mode histories with optimizer steps,
(d) whitened against unwhitened strategy on the same q(u), (e) the multitask wrappers on a stub base strategy (latent q(f), q(u), p(u)
with the instance's batch layout) against TLC's exact mixtures, KL sums and shapes, (f) every cell of strategy x distribution x base strategy
x CODE PATH (the settings that select another branch of forward or of the linear algebra below it: skip_posterior_variances, fast_pred_var,
max_cholesky_size(0) = conjugate gradients, trace_mode, fast_computations off, eager kernels) along histories of the evaluation-mode call
protocol enumerated by TLC (first prediction under the path; train() / training-mode calls through the whole forward or through the
inputs-are-the-inducing-points return / optimizer steps / eval(); load_state_dict(); further predictions under the path or the default
settings, on the same or on other inputs): every prediction is the closed form for the CURRENT parameters and the inputs of the call;
(g) jitter_val as a constructor argument (TLC's part "jit": not given / the dtype default given / 0.0 / small / large, for every strategy; the lattice cells rotate
over the same classes) and checkpoints of the version before whitening (state dict without `updated_strategy`, q(u) = N(m, S) stored in the coordinates of u):
exact on the rational instances (TLC's direct reading, jitter_val 0.0 / 1.0 / 2.0), on seeded models against the closed form of the loaded q(u) and against an
UnwhitenedVariationalStrategy holding the same (m, S), and as an action LoadLegacy of the evaluation-mode protocol machine on every path cell that contains a
VariationalStrategy (conversion at an evaluation-mode or training-mode call, through the whole forward or the early return, before / after optimizer steps and
ordinary loads);
(h) the STRUCTURE / CONDITIONING of q(u) (TLC's part "qu": near the prior, diagonal, dense, dense with spectrum 1..1e4) x the number of inducing points below / above
the iteration cap of the Lanczos estimate (16 / 24 against max_lanczos_quadrature_iterations = 20) for every strategy x distribution class, all solver tolerances tight:
the spec lists the iterative solves of a cell and the setting that caps each (no cap may cut a solve short of the tolerance; the natural-gradient CIQ solve capped by the
Lanczos setting is the rejected variant), the replay compares mean / covariance / KL with the dense closed form."""
import itertools
import math
import os
import random
from fractions import Fraction

from harness import core, tlc
from checks.c04 import tla
from checks import c14_exact as EX

LEVEL = "model_checking"
PID = "C14"
QF_INV = ["WellPosed", "DistOK", "UnwhitenedOK", "WhitenedOK", "SameQf", "KLCodeOK", "WhiteKLOK", "LegacyOK", "PriorOK"]
DIST_OF = dict(chol="Cholesky", mf="MeanField", delta="Delta", nat="Natural", tril="TrilNatural")
DIAGNOSED = ("C14/BatchDecoupledVariationalStrategy/kl/offset-half-k-log-2pi",
             "C14/BatchDecoupledVariationalStrategy/input-batch-equals-inducing-batch/collapsed",
             "C14/CiqVariationalStrategy/Natural/eval-cov/diagonal-only", "C14/CiqVariationalStrategy/Natural/kl/zero")
IMT = "IndependentMultitaskVariationalStrategy"
# deviations of the wrappers when the latent / task dimension is not the last batch dimension (reproduced stand-alone: findings/C14/repro_dims.py)
SIG_IMT_KL = "C14/IndependentMultitaskVariationalStrategy/kl/summed-over-last-dim-instead-of-task_dim"
SIG_IMT_SEL = "C14/IndependentMultitaskVariationalStrategy/task-indices/task_dim-not-last"
SIG_LAZY_PERMUTE = "C14/%s/all-tasks/batched-kernel/latent-dim-not-last"
DIAGNOSED += (SIG_IMT_KL, SIG_IMT_SEL, SIG_LAZY_PERMUTE % "LMCVariationalStrategy", SIG_LAZY_PERMUTE % IMT)
RT, AT = 1e-7, 1e-9
CIQ_RT, CIQ_AT = 2e-6, 1e-8          # contour integral quadrature is iterative; tightened settings, see ciq_settings()


# VariationalQF.tla Variant: every reduction over the NAMED dimension; evaluation-mode protocol: nothing a path retains is read back,
# load_state_dict() and train() / eval() drop what is memoised
# legacy checkpoints: the action is switched on per run; the conversion reads the strategy's own jitter_val; jarg: the constructor argument of the
# machine's strategy (an explicit value different from the dtype default: the only class on which the source of the jitter matters)
INTENDED = dict(preccap="cg", lmckl="named", imtkl="named", imtmask="to", reuse=False, reusex=False, loadclear=True, modeclear=True,
                legacy=False, convjit="self", jarg="large")
JARGS = ("none", "dflt", "zero", "small", "large")          # VariationalQF.tla JitArgs (compared with TLC's part "jit" on every run)
SIG_LEGACY = "C14/%s/legacy-checkpoint/%s"
QU_CAPS = dict(cg=1000, lanczos=20)                             # VariationalQF.tla QuCaps (compared with TLC's part "qu" on every run)


def legacy_load(model, donor=None):
    """load_state_dict() of a checkpoint written before the whitened parameterisation: no `updated_strategy` entry, the variational parameters
    are q(u) in the coordinates of u"""
    sd = {q: v.detach().clone() for q, v in (donor if donor is not None else model).state_dict().items() if not q.endswith("updated_strategy")}
    return model.load_state_dict(sd)


def write_mc(workdir, name, part, instances=(), invariants=(), maxhist=5, clear=True, variant=None):
    os.makedirs(workdir, exist_ok=True)
    mod = "MC_VariationalQF_" + name
    with open(os.path.join(workdir, mod + ".tla"), "w") as f:
        f.write("---- MODULE %s ----\nEXTENDS VariationalQF\nInstDef == {%s}\nVariantDef == %s\n====\n" % (
            mod, ",\n  ".join(tla(i) for i in instances), tla(dict(INTENDED, **(variant or {})))))
    cfg = os.path.join(workdir, mod + ".cfg")
    tlc.write_cfg(cfg, spec="Spec", constants={"Part": part, "Instances": "<- InstDef", "MaxHist": maxhist, "ClearOnTrainCall": clear,
                                               "Variant": "<- VariantDef"},
                  invariants=list(invariants))
    return os.path.join(workdir, mod + ".tla"), cfg


# ---------------------------------------------------------------------------------------------------------------------
# instance generation (integers only; every instance is pre-evaluated by the mirror to exclude 32-bit overflow in TLC)
def lower(rnd, k, lo, hi, dmax, unit=False):
    return [[((1 if unit else rnd.randint(1, dmax)) if q == p else (rnd.randint(lo, hi) if q < p else 0)) for q in range(k)] for p in range(k)]


def rows(rnd, n, k):
    while True:
        G = [[rnd.randint(-2, 2) for _ in range(k)] for _ in range(n)]
        if any(any(r) for r in G):
            return G


def key(z, p, x):
    return "%d%d%d" % (z, p, x)


def gen_pair(rnd, pid, kind, dist, j, special=None):
    """one base pair (A, B) and its 8 combinations [z p x]; kind 'std': z -> inducing features L, p -> (mu, Cs, ju), x -> data
    features; kind 'orth': the covariance strategy (L, mu, Cs) is fixed, z -> mean inducing features, p -> Delta parameters a,
    x -> data features, and the instance's data rows are [x rows; mean inducing rows]."""
    for _attempt in range(200):
        k = 2 if j > 0 else rnd.choice([2, 3])
        n = rnd.choice([2, 3]) if kind == "std" else 2
        w, b = [rnd.randint(-1, 1) for _ in range(k)], rnd.randint(-1, 1)
        unit = dist in ("nat", "tril")           # keeps the natural-parameter covariances integral (small denominators)
        Ls = [lower(rnd, k, -2, 2, 2) for _ in range(2)]
        Ps = [dict(mu=[rnd.randint(-2, 2) for _ in range(k)], Cs=lower(rnd, k, -1, 1, 2, unit), ju=rnd.choice([5, 7])) for _ in range(2)]
        Xs = [rows(rnd, n, k) for _ in range(2)]
        if special == "wprior":                  # q(e) = N(0, I): the whitened strategies must return the prior and KL = 0
            Ps[0] = dict(mu=[0] * k, Cs=[[1 if p == q else 0 for q in range(k)] for p in range(k)], ju=5)
        if special == "dprior":                  # q(u) = N(mz, L L^T) = p(u) for j = 0: the unwhitened strategies must return the prior
            Ps[0] = dict(mu=[sum(a * c for a, c in zip(Ls[0][r], w)) + b for r in range(k)], Cs=[list(r) for r in Ls[0]], ju=5)
        if kind == "orth":
            pm = rnd.choice([1, 2])
            Zm = [rows(rnd, pm, k) for _ in range(2)]
            As = [[rnd.randint(-2, 2) for _ in range(pm)] for _ in range(2)]
        if Ls[0] == Ls[1] or Xs[0] == Xs[1] or Ps[0] == Ps[1] or any(X == L for X in Xs for L in Ls):
            continue
        insts, ok = {}, True
        for z, p, x in itertools.product((0, 1), repeat=3):
            if kind == "std":
                if special == "dprior" and (z, p) == (1, 0):
                    P = dict(Ps[0])              # the prior parameters belong to Z_A; for Z_B they are just some parameters
                else:
                    P = Ps[p]
                i = dict(id=[pid, z, p, x], L=Ls[z], Gx=Xs[x], w=w, b=b, j=j, dist=dist, mu=P["mu"], Cs=P["Cs"], ju=P["ju"], a=[])
            else:
                i = dict(id=[pid, z, p, x], L=Ls[0], Gx=Xs[x] + Zm[z], w=w, b=b, j=j, dist=dist, mu=Ps[0]["mu"], Cs=Ps[0]["Cs"], ju=Ps[0]["ju"], a=As[p])
            try:
                o = EX.eval_instance(i)
            except EX.Overflow:
                ok = False
                break
            if not EX.invariants_hold(o):
                raise core.Machinery("mirror of VariationalQF.tla violates an invariant on %r" % (i,))
            insts[key(z, p, x)] = i
        if ok:
            return dict(pid=pid, kind=kind, dist=dist, j=j, special=special, insts=insts)
    raise core.Machinery("instance generation: no overflow-free pair found")


def gen_pairs(rnd, n_std, n_orth):
    pairs = []
    dists = ["chol", "mf", "delta", "nat", "tril"]
    for t in range(n_std):
        dist = dists[t % 5]
        j = [0, 0, 0, 1, 0, 0, 2][t % 7]
        special = None
        if t % 13 == 5:
            dist, j, special = "chol", 0, "wprior"
        if t % 13 == 9:
            dist, j, special = "chol", 0, "dprior"
        pairs.append(gen_pair(rnd, len(pairs), "std", dist, j, special))
    for t in range(n_orth):
        pairs.append(gen_pair(rnd, len(pairs), "orth", dists[t % 5], 0))
    return pairs


# batch layouts of the wrapped strategy (VariationalQF.tla part "mix"): (template, latent dimension); Q: the latent / task
# dimension, the other letters ordinary batch dimensions in front of / behind it
MIX_LAYOUTS = [(("Q",), -1), (("P", "Q"), -1), (("Q", "B"), -2), (("P", "Q", "B"), -2), (("Q", "B", "C"), -3), (("P", "R", "Q"), -1)]


def prod(xs):
    r = 1
    for x in xs:
        r *= x
    return r


def gen_mix(rnd, count):
    """integer instances for the multitask wrappers: every layout x {all sizes equal (a reduction over the wrong dimension keeps the
    shape), all other sizes different from Q (it changes the shape), mixed}"""
    out = []
    for t in range(count):
        tmpl, ld = MIX_LAYOUTS[t % len(MIX_LAYOUTS)]
        mode = ("eq", "ne", "mixed")[(t // len(MIX_LAYOUTS)) % 3]
        Q = rnd.choice([2, 3]) if len(tmpl) > 1 else rnd.choice([1, 2, 2, 3])
        other = 5 - Q if Q > 1 else 2
        shape = []
        for n, d in enumerate(tmpl):
            if d == "Q":
                shape.append(Q)
            elif mode == "eq" or (mode == "mixed" and n % 2 == 0 and len(tmpl) == 3):
                shape.append(Q)
            else:
                shape.append(other)
        B = prod(shape)
        N, T = rnd.choice([1, 2, 3] if B <= 9 else [1, 2]), rnd.choice([2, 3])
        covs = []
        for _ in range(B):
            G = [[rnd.randint(-2, 2) for _ in range(2)] for _ in range(N)]
            covs.append([[sum(a * b for a, b in zip(G[r], G[s])) + (1 if r == s else 0) for s in range(N)] for r in range(N)])
        ax = len(shape) + ld
        out.append(dict(id=[t], shape=shape, ld=ld, td=(ax if (t // 2) % 2 else ld),
                        mean=[[rnd.randint(-3, 3) for _ in range(N)] for _ in range(B)], cov=covs,
                        A=[[rnd.randint(-2, 2) for _ in range(T)] for _ in range(B)], um=[[rnd.randint(-3, 3) for _ in range(2)] for _ in range(B)],
                        ti=[rnd.randint(1, T) for _ in range(N)], tj=[rnd.randint(1, Q) for _ in range(N)]))
    return out


# ---------------------------------------------------------------------------------------------------------------------
# TLC values -> float64
def fq(q):
    return float(Fraction(int(q[0]), int(q[1])))


def fvec(torch, v):
    return torch.tensor([fq(q) for q in v], dtype=torch.float64)


def fmat(torch, M):
    return torch.tensor([[fq(q) for q in r] for r in M], dtype=torch.float64).reshape(len(M), len(M[0]) if M else 0)


def kl_from_pieces(kl, k, point=False):
    """the logarithm is applied here, outside TLC: trace, quadratic form and determinants are exact"""
    if point:
        return 0.5 * (k * math.log(2 * math.pi) + math.log(fq(kl["detK"])) + fq(kl["quad"]))
    return 0.5 * (fq(kl["tr"]) + fq(kl["quad"]) - k + math.log(fq(kl["detK"])) - math.log(fq(kl["detS"])))


def jsonable(v):
    if isinstance(v, dict):
        return {str(k): jsonable(x) for k, x in v.items()}
    if isinstance(v, (list, tuple)):
        return [jsonable(x) for x in v]
    return v


# ---------------------------------------------------------------------------------------------------------------------
# comparisons
class Cell:
    """collects the verdicts of one replayed configuration"""

    def __init__(self, sigbase, desc, case, keybase, nontrivial=True):
        self.sigbase, self.desc, self.case, self.keybase, self.nontrivial = sigbase, desc, case, keybase, nontrivial
        self.results = []

    def add(self, what, ok, detail="", sig=None):
        r = dict(key=self.keybase + [what], ok=bool(ok), nontrivial=self.nontrivial, sig=sig or (self.sigbase + "/" + what.split("@")[0]),
                 detail="%s: %s: %s" % (self.desc, what, detail), case=self.case)
        if not self.results:
            r["sample"] = dict(config=self.desc)
        self.results.append(r)
        return ok

    def close(self, what, got, want, rt=RT, at=AT, sig=None):
        torch = core.setup_torch()
        try:
            full = torch.broadcast_shapes(got.shape, want.shape)
        except RuntimeError:
            return self.add(what, False, "shape %s cannot stand for the closed form's %s" % (tuple(got.shape), tuple(want.shape)), sig)
        ok, why = core.close(got.detach().expand(full), want.expand(full), rt, at)
        return self.add(what, ok, why, sig)

    def same(self, what, got, want, rt=RT, at=AT, sig=None):
        """like close, but the shapes must be identical (the spec states the shape)"""
        ok, why = core.close(got.detach(), want, rt, at)
        return self.add(what, ok, why, sig)


def tolerance(strat, cfg=None):
    if cfg is not None and cfg.get("x_at_nodes") is not None:
        # the grid buffer is built in float32 and treated as evenly spaced: at its own nodes the interpolation matrix is a
        # selection only up to float32 rounding of the node positions (measured 4e-7 relative)
        return (2e-5, 1e-7)
    return (CIQ_RT, CIQ_AT) if strat == "CiqVariationalStrategy" else (RT, AT)


def ciq_settings(stack):
    import gpytorch
    import linear_operator
    S = linear_operator.settings
    for cm in (S.num_contour_quadrature(30), S.minres_tolerance(1e-12), S.cg_tolerance(1e-13), gpytorch.settings.eval_cg_tolerance(1e-13),
               S.max_cg_iterations(500), S.max_lanczos_quadrature_iterations(50)):
        stack.enter_context(cm)


def tight_settings(stack):
    """part "qu" of VariationalQF.tla: every TOLERANCE tight, the iteration cap of the solves (max_cg_iterations) far above the number of
    inducing points, the cap of the Lanczos eigenvalue estimate (max_lanczos_quadrature_iterations) left at its default 20 - the number of
    inducing points lies below / above it (QuCaps; compared with the library's defaults in run())"""
    import gpytorch
    import linear_operator
    S = linear_operator.settings
    for cm in (S.num_contour_quadrature(30), S.minres_tolerance(1e-12), S.cg_tolerance(1e-13), gpytorch.settings.eval_cg_tolerance(1e-13),
               S.max_cg_iterations(QU_CAPS["cg"])):
        stack.enter_context(cm)


def call_model(torch, model, X, mode, strat, want_kl=True, set_mode=True, qu=False, **kw):
    """one call of the real model: mean, full covariance (eval) / variance, kl_divergence()"""
    from contextlib import ExitStack
    if set_mode:                                  # Module.train() clears every cache: histories must not go through it
        model.train(mode == "train")
    with ExitStack() as st, torch.no_grad():
        if qu:
            tight_settings(st)
        elif strat == "CiqVariationalStrategy":
            ciq_settings(st)
        o = model(X, **kw)
        mean = o.mean.clone()
        var = o.variance.clone()
        cov = o.covariance_matrix.clone() if mode == "eval" else None
        kl = model.variational_strategy.kl_divergence().clone() if want_kl else None
    return dict(mean=mean, cov=cov, var=var, kl=kl)


def compare_output(torch, cell, tag, strat, dist, got, ref, mode, k_ind, multitask=False, kl=True, cfg=None, alts=None, sig_for=None):
    """compare a model output with the closed form.  alts: callable giving the closed form under the other admissible jitter
    placements (only consulted when a comparison fails; a match there is MODEL-DRIFT).  The deviations of the current code
    that were reproduced stand-alone get their own diagnosed signatures so that any other failure of the same cell stays visible."""
    rt, at = tolerance(strat, cfg)
    rk, ak = tolerance(strat)
    base = "C14/%s/%s" % (strat, dist)
    alt_refs = []

    def variance_of(r):
        dg = r["cov"].diagonal(dim1=-1, dim2=-2)
        return dg.reshape(*dg.shape[:-1], *got["var"].shape[-2:]) if multitask else dg

    def matches(g, w, r, a):
        try:
            full = torch.broadcast_shapes(g.shape, w.shape)
        except RuntimeError:
            return False
        return core.close(g.expand(full), w.expand(full), r, a)[0]

    def admissible(what, g, pick, r, a):
        """does the value hold under another placement of the jitter?"""
        if alts is None:
            return False
        if not alt_refs:
            alt_refs.extend(alts())
        for ar in alt_refs:
            if matches(g, pick(ar), r, a):
                cell.results.append(dict(key=cell.keybase + [what + "/drift"], ok=True, nontrivial=False, sig=base, case=None,
                                         drift="%s: %s holds only under another jitter placement than StratInfo (%s)" % (cell.desc, what, ar.get("ov"))))
                return True
        return False

    sig_for = sig_for or (lambda what: None)
    cell.close("%s-mean@%s" % (mode, tag), got["mean"], ref["mean"], rt, at, sig_for("mean"))
    ciq_ngd = strat == "CiqVariationalStrategy" and dist == "Natural"
    if mode == "eval":
        if not matches(got["cov"], ref["cov"], rt, at) and admissible("eval-cov", got["cov"], lambda r: r["cov"], rt, at):
            pass
        else:
            sig = sig_for("cov")
            if ciq_ngd and tuple(got["cov"].shape) == tuple(ref["cov"].shape):
                off = got["cov"] - torch.diag_embed(got["cov"].diagonal(dim1=-1, dim2=-2))
                okd = matches(got["cov"].diagonal(dim1=-1, dim2=-2), ref["cov"].diagonal(dim1=-1, dim2=-2), rt, at)
                if float(off.abs().max()) == 0.0 and okd and not matches(got["cov"], ref["cov"], rt, at):
                    sig = base + "/eval-cov/diagonal-only"
            cell.close("eval-cov@%s" % tag, got["cov"], ref["cov"], rt, at, sig)
    else:
        if not matches(got["var"], variance_of(ref), rt, at) and admissible("train-var", got["var"], variance_of, rt, at):
            pass
        else:
            cell.close("train-var@%s" % tag, got["var"], variance_of(ref), rt, at, sig_for("var"))
    if kl:
        want = ref["kl"]
        if not matches(got["kl"], want, rk, ak) and admissible(mode + "-kl", got["kl"], lambda r: r["kl"], rk, ak):
            return
        sig = None
        if not matches(got["kl"], want, rk, ak):
            sig = sig_for("kl")
            if strat == "BatchDecoupledVariationalStrategy" and matches(got["kl"], want + 0.5 * k_ind * math.log(2 * math.pi), rk, ak):
                sig = base.rsplit("/", 1)[0] + "/kl/offset-half-k-log-2pi"
            if ciq_ngd and float(got["kl"].abs().max()) == 0.0:
                sig = base + "/kl/zero"
        cell.close("%s-kl@%s" % (mode, tag), got["kl"], want, rk, ak, sig)


def alt_oracles(cfg, model, X, mode):
    from checks import c14_models as CM

    def f():
        out = []
        for ov in CM.alt_overrides(cfg):
            r = CM.oracle(dict(cfg, ov=ov), model, X, mode)
            r["ov"] = ov
            out.append(r)
        return out
    return f


def collapsed_input_batch(torch, cell, cfg, model, X, got, mode):
    """BatchDecoupledVariationalStrategy: inputs whose batch shape equals the batch shape of the stacked inducing points
    (e.g. a batch of exactly two input sets) are not given the mean/variance dimension: the first input set is used for
    the mean and the second for the variance.  Diagnosed (the output must be exactly that), reported once per cell."""
    from checks import c14_models as CM
    if cfg["strat"] != "BatchDecoupledVariationalStrategy":
        return False
    ip = model.variational_strategy.inducing_points
    if tuple(X.shape[:-2]) != tuple(ip.shape[:-2]):
        return False
    r0, r1 = CM.oracle(cfg, model, X.select(-3, 0), mode), CM.oracle(cfg, model, X.select(-3, 1), mode)
    try:
        okm = core.close(got["mean"], r0["mean"].expand(got["mean"].shape), RT, AT)[0]
        dg = r1["cov"].diagonal(dim1=-1, dim2=-2)
        okv = core.close(got["var"], dg.expand(got["var"].shape), RT, AT)[0]
    except RuntimeError:
        return False
    if not (okm and okv):
        return False
    cell.add("input-batch", False, "inputs with batch shape %s (equal to the batch shape of the stacked mean/variance inducing points): the output (mean shape %s) "
             "is the mean of the FIRST input set and the (co)variance of the SECOND, not a batch over the input sets" % (tuple(X.shape[:-2]), tuple(got["mean"].shape)),
             sig="C14/BatchDecoupledVariationalStrategy/input-batch-equals-inducing-batch/collapsed")
    return True


# ---------------------------------------------------------------------------------------------------------------------
# (a) rational instances through the real strategies
def raw_of_instance(torch, distcls, inst):
    D = torch.float64
    mu = torch.tensor(inst["mu"], dtype=D)
    Cs = torch.tensor(inst["Cs"], dtype=D)
    k = len(inst["mu"])
    if distcls == "Cholesky":
        return (mu, Cs + float(inst["ju"]) * torch.triu(torch.ones(k, k, dtype=D), 1))
    if distcls == "MeanField":
        return (mu, torch.tensor([(-inst["Cs"][q][q] if (q + 1) % 2 == 1 else inst["Cs"][q][q]) for q in range(k)], dtype=D))
    if distcls == "Delta":
        return (mu,)
    if distcls == "Natural":
        return (mu, -0.5 * Cs @ Cs.T)
    if distcls == "TrilNatural":
        return (mu, Cs)
    raise ValueError(distcls)


def stack(torch, ts):
    return ts[0] if len(ts) == 1 else torch.stack(ts)


def run_rational(case):
    """case: strat, distcls (class of the distribution module), pat [bz, bp, bx], pair (insts), outs (TLC's evaluation per instance)"""
    torch = core.setup_torch()
    from checks import c14_models as CM
    D = torch.float64
    strat, distcls, pat, pair, outs = case["strat"], case["distcls"], case["pat"], case["pair"], case["outs"]
    bz, bp, bx = pat
    insts = pair["insts"]
    j = pair["j"]
    nb = 2 if any(pat) else 1
    elems = [(e if bz else 0, e if bp else 0, e if bx else 0) for e in range(nb)]
    desc = "rational pair %d (%s, j=%d%s) %s x %s batch(z,p,x)=%s" % (pair["pid"], pair["dist"], j, ", " + pair["special"] if pair["special"] else "", strat, distcls, pat)
    q_is_p = bool(pair["special"]) and not bp and (pair["special"] == "wprior" or not bz)      # q(u) = p(u): the trivial case of the rule
    cell = Cell("C14/%s/%s" % (strat, distcls), desc, case, ["rat", strat, distcls, pat, pair["pid"]], nontrivial=not q_is_p)
    i0 = insts[key(0, 0, 0)]
    k = len(i0["L"])
    bshape = (2,) if nb == 2 else ()
    convert = strat == "CiqVariationalStrategy" or (j > 0 and strat in ("VariationalStrategy",))
    reading = "d" if (strat == "UnwhitenedVariationalStrategy" or convert) else "w"

    def bt(flag):
        return (2,) if flag else ()
    cfg = dict(strat=strat, dist=distcls, bp=bt(bp), kernel="linear", jitter=float(j))
    if pair["kind"] == "orth":
        n0 = len(i0["Gx"]) - len(i0["a"])
        Zc = torch.tensor(i0["L"], dtype=D)
        Zm = stack(torch, [torch.tensor(insts[key(e[0], 0, 0)]["Gx"][n0:], dtype=D) for e in (elems if bz else elems[:1])])
        X = stack(torch, [torch.tensor(insts[key(0, 0, e[2])]["Gx"][:n0], dtype=D) for e in (elems if bx else elems[:1])])
        cfg["bpc"] = ()
        ok, model = core.guarded(lambda: CM.build(cfg, Zm, (i0["w"], i0["b"]), Zc=Zc))
        if not ok:
            cell.add("build", False, str(model))
            return cell.results
        vs = model.variational_strategy
        CM.write_raw(distcls, vs.base_variational_strategy._variational_distribution, raw_of_instance(torch, distcls, i0))
        a = stack(torch, [torch.tensor(insts[key(0, e[1], 0)]["a"], dtype=D) for e in (elems if bp else elems[:1])])
        with torch.no_grad():
            vs._variational_distribution.variational_mean.copy_(a)
        want = dict(mean=[], cov=[], kl=[])
        for e in elems:
            o = outs[key(*e)]
            want["mean"].append(fvec(torch, o["ow"]["mean"]))
            want["cov"].append(fmat(torch, o["ow"]["cov"]))
            base_kl = (0.5 * (k * math.log(2 * math.pi) + fq(o["w"]["wquad"])) if distcls == "Delta" else kl_from_pieces(o["w"]["kl"], k))
            want["kl"].append(torch.tensor(base_kl + 0.5 * fq(o["ow"]["quad"]), dtype=D))
        ref = {q: stack(torch, v) for q, v in want.items()}
        ok, got = core.guarded(lambda: call_model(torch, model, X, "eval", strat))
        if not ok:
            cell.add("raises", False, str(got))
            return cell.results
        compare_output(torch, cell, "rational", strat, distcls, got, ref, "eval", k, alts=alt_oracles(cfg, model, X, "eval"))
        return cell.results

    Ls = [torch.tensor(insts[key(z, 0, 0)]["L"], dtype=D) for z in (0, 1)]
    if strat == "BatchDecoupledVariationalStrategy":
        Z = torch.stack(Ls)                                   # mean inducing points: Z_A, variance inducing points: Z_B
    else:
        Z = stack(torch, [Ls[e[0]] for e in (elems if bz else elems[:1])])
    X = stack(torch, [torch.tensor(insts[key(0, 0, e[2])]["Gx"], dtype=D) for e in (elems if bx else elems[:1])])
    ok, model = core.guarded(lambda: CM.build(cfg, Z, (i0["w"], i0["b"])))
    if not ok:
        cell.add("build", False, str(model))
        return cell.results
    vs = model.variational_strategy
    mod = vs._variational_distribution
    # the parameters
    if not convert:
        raws = [raw_of_instance(torch, distcls, insts[key(0, e[1], 0)]) for e in (elems if bp else elems[:1])]
        CM.write_raw(distcls, mod, tuple(stack(torch, [r[q] for r in raws]) for q in range(len(raws[0]))))
    else:
        # TLC states q(u) exactly; the strategy wants the parameters of e with u = mz + W e (W from the model's own Kzz + jitter)
        raws = []
        for e in elems:
            o = outs[key(*e)]
            Lz = Ls[e[0]]
            mzz, Kz = CM.prior_on(model, Lz)
            Kj = Kz + float(j) * CM.eye(k)
            W = CM.sym_sqrt(Kj) if strat == "CiqVariationalStrategy" else torch.linalg.cholesky(Kj)
            m_e, S_e = CM.whiten(W, mzz, fvec(torch, o["qm"]), None if distcls == "Delta" else fmat(torch, o["qS"]))
            raws.append(CM.raw_from_moments(distcls, m_e, S_e))
        if not (bz or bp):
            raws = raws[:1]
        pb = bt(bz or bp)
        if pb != bt(bp):                                      # the whitened parameters depend on Z: they need its batch shape
            cfg["bp"] = pb
            ok, model = core.guarded(lambda: CM.build(cfg, Z, (i0["w"], i0["b"])))
            if not ok:
                cell.add("build", False, str(model))
                return cell.results
            vs = model.variational_strategy
            mod = vs._variational_distribution
        CM.write_raw(distcls, mod, tuple(stack(torch, [r[q] for r in raws]) for q in range(len(raws[0]))))
    # TLC's expectation
    xj = (1 if (strat == "CiqVariationalStrategy" and distcls == "Natural") else CM.FACTS[strat]["xjit"]) * float(j)
    want = dict(mean=[], cov=[], kl=[])
    for e in elems:
        o = outs[key(*e)]
        if strat == "BatchDecoupledVariationalStrategy":
            om, oc = outs[key(0, e[1], e[2])], outs[key(1, e[1], e[2])]
            want["mean"].append(fvec(torch, om["w"]["mean"]))
            want["cov"].append(fmat(torch, oc["w"]["cov"]) + xj * CM.eye(X.shape[-2]))
            w = om["w"]
            want["kl"].append(torch.tensor(0.5 * (fq(w["wtr"]) + fq(w["wquad"]) - k - math.log(fq(w["wdetS"]))), dtype=D))
            continue
        r = o[reading]
        want["mean"].append(fvec(torch, r["mean"]))
        want["cov"].append(fmat(torch, r["cov"]) + xj * CM.eye(X.shape[-2]))
        if distcls == "Delta":
            if reading == "w" or convert:
                # point mass in whitened coordinates: -log N(m; 0, I)
                mm = fq(o["w"]["wquad"]) if reading == "w" else fq(o["d"]["kl"]["quad"])
                want["kl"].append(torch.tensor(0.5 * (k * math.log(2 * math.pi) + mm), dtype=D))
            else:
                want["kl"].append(torch.tensor(kl_from_pieces(r["kl"], k, point=True), dtype=D))
        else:
            want["kl"].append(torch.tensor(kl_from_pieces(r["kl"], k), dtype=D))
    ref = {q: stack(torch, v) for q, v in want.items()}
    ok, got = core.guarded(lambda: call_model(torch, model, X, "eval", strat, want_kl=(strat != "UnwhitenedVariationalStrategy")))
    if not ok:
        cell.add("raises", False, str(got))
        return cell.results
    if collapsed_input_batch(torch, cell, cfg, model, X, got, "eval"):
        return cell.results
    compare_output(torch, cell, "rational", strat, distcls, got, ref, "eval", k, kl=(strat != "UnwhitenedVariationalStrategy"), alts=alt_oracles(cfg, model, X, "eval"))
    if strat == "UnwhitenedVariationalStrategy":
        # kl_divergence() against p(u) = N(mz, Kzz + jitter_val I): the prior of the training-mode call
        ok, got = core.guarded(lambda: call_model(torch, model, X, "train", strat))
        if not ok:
            cell.add("raises", False, str(got))
            return cell.results
        compare_output(torch, cell, "rational", strat, distcls, got, ref, "train", k, alts=alt_oracles(cfg, model, X, "train"))
        # (d) the same q(u) through the whitened strategy: exact for the Cholesky distribution on j = 0 instances
    if strat == "VariationalStrategy" and distcls == "Cholesky" and not convert:
        cfg2 = dict(cfg, strat="UnwhitenedVariationalStrategy")
        ok, m2 = core.guarded(lambda: CM.build(cfg2, Z, (i0["w"], i0["b"])))
        if ok:
            ums, ucs = [], []
            for e in elems:
                o = outs[key(*e)]
                Lz = Ls[e[0]]
                ums.append(fvec(torch, o["um"]))
                ucs.append(Lz @ torch.tensor(insts[key(0, e[1], 0)]["Cs"], dtype=D))
            if not (bz or bp):
                ums, ucs = ums[:1], ucs[:1]
            pb = bt(bz or bp)
            if pb != bt(bp):
                cfg2["bp"] = pb
                ok, m2 = core.guarded(lambda: CM.build(cfg2, Z, (i0["w"], i0["b"])))
            if ok:
                CM.write_raw("Cholesky", m2.variational_strategy._variational_distribution, (stack(torch, ums), stack(torch, ucs)))
                ok, g2 = core.guarded(lambda: call_model(torch, m2, X, "eval", "UnwhitenedVariationalStrategy", want_kl=False))
        if not ok:
            cell.add("same-qu-raises", False, "unwhitened strategy on the same q(u) raised", sig="C14/whitened-vs-unwhitened/raises")
        else:
            cell.close("same-qu-mean@rational", g2["mean"], ref["mean"], sig="C14/whitened-vs-unwhitened/mean")
            cell.close("same-qu-cov@rational", g2["cov"], ref["cov"], sig="C14/whitened-vs-unwhitened/cov")
    if strat == "VariationalStrategy" and distcls in CM.LEGACY_DISTS:
        # legacy checkpoint: the instance's parameters ARE q(u) (direct reading, TLC's `d`), stored without the updated_strategy entry; jitter_val = j
        # is explicit (0.0, 1.0, 2.0).  The whitened parameters depend on Z: the parameter module has the batch shape of Z and the parameters.
        cfgl = dict(cfg, bp=bt(bz or bp))
        ok, ml = core.guarded(lambda: CM.build(cfgl, Z, (i0["w"], i0["b"])))
        if not ok:
            cell.add("legacy-build", False, str(ml), sig=SIG_LEGACY % (strat, "raises"))
            return cell.results
        raws = [raw_of_instance(torch, distcls, insts[key(0, e[1], 0)]) for e in (elems if (bz or bp) else elems[:1])]
        CM.write_raw(distcls, ml.variational_strategy._variational_distribution, tuple(stack(torch, [r[q] for r in raws]) for q in range(len(raws[0]))))
        want = dict(mean=[], cov=[], kl=[])
        for e in elems:
            r = outs[key(*e)]["d"]
            want["mean"].append(fvec(torch, r["mean"]))
            want["cov"].append(fmat(torch, r["cov"]) + CM.FACTS[strat]["xjit"] * float(j) * CM.eye(X.shape[-2]))
            want["kl"].append(torch.tensor(kl_from_pieces(r["kl"], k), dtype=D))
        refl = {q: stack(torch, v) for q, v in want.items()}

        def lcall():
            legacy_load(ml)
            first = call_model(torch, ml, X, "eval", strat)
            return first, call_model(torch, ml, X, "eval", strat)
        ok, gl = core.guarded(lcall)
        if not ok:
            cell.add("legacy-raises", False, str(gl), sig=SIG_LEGACY % (strat, "raises"))
            return cell.results
        for tag, g1 in zip(("legacy-first-call", "legacy-second-call"), gl):
            cell.close("eval-mean@" + tag, g1["mean"], refl["mean"], sig=SIG_LEGACY % (strat, "mean"))
            cell.close("eval-cov@" + tag, g1["cov"], refl["cov"], sig=SIG_LEGACY % (strat, "cov"))
            cell.close("eval-kl@" + tag, g1["kl"], refl["kl"], sig=SIG_LEGACY % (strat, "kl"))
    return cell.results


# ---------------------------------------------------------------------------------------------------------------------
# (b) (c) (d) seeded models
def gen_points(torch, g, bs, n, d, lo=-1.0, hi=1.0, mind=0.4):
    D = torch.float64
    out = torch.empty(*bs, n, d, dtype=D)
    flat = out.reshape(-1, n, d)
    for b in range(flat.shape[0]):
        for _ in range(10000):
            p = torch.rand(n, d, generator=g, dtype=D) * (hi - lo) + lo
            if float((torch.cdist(p, p) + 10 * torch.eye(n, dtype=D)).min()) > mind:
                break
        else:
            raise core.Machinery("point generation failed")
        flat[b] = p
    return flat.reshape(*bs, n, d)


def seeded_setup(torch, cfg):
    """model + inputs + seeded parameters of a lattice cell; None if the oracle side is not well conditioned"""
    from checks import c14_models as CM
    D = torch.float64
    g = torch.Generator().manual_seed(cfg["seed"])
    strat, dist = cfg["strat"], cfg["dist"]
    bz, bp, bx = tuple(cfg["bz"]), tuple(cfg["bp"]), tuple(cfg["bx"])
    M, N, d = cfg.get("M", 3), cfg.get("N", 4), cfg.get("d", 2)
    Zc = None
    if strat == "GridInterpolationVariationalStrategy":
        Z = None
        X = gen_points(torch, g, bx, N, 1, -0.9, 0.9, 0.1)
    else:
        if strat == "BatchDecoupledVariationalStrategy" and (cfg.get("mvd") or -1) != -1:
            # mean / variance dimension in front of the parameters' batch dimension(s): [2, *bp, M, d]
            Z = gen_points(torch, g, (2,) + (bp if bz else (1,) * len(bp)), M, d).expand(2, *bp, M, d).clone()
        else:
            Z = gen_points(torch, g, bz + ((2,) if strat == "BatchDecoupledVariationalStrategy" else ()), M, d, mind=cfg.get("mind", 0.4))
        X = gen_points(torch, g, bx, N, d)
        if strat == "OrthogonallyDecoupledVariationalStrategy":
            Zc = gen_points(torch, g, (), M, d, mind=cfg.get("mind", 0.4))
    model = CM.build(cfg, Z, prior_hyper=cfg.get("ls"), Zc=Zc)
    mod = CM.param_module(cfg, model)
    vs = model.variational_strategy
    if cfg.get("qu"):
        # part "qu": q(u) of a structure class, in the coordinates of the strategy (u itself: the prior there is p(u) on the inducing points)
        prior = None
        if CM.FACTS[strat]["white"] in ("none", "interp") and strat != "OrthogonallyDecoupledVariationalStrategy":
            mz, Kz = CM.prior_on(model, vs.inducing_points.detach())
            prior = (mz, Kz + (CM.GRID_PRIOR_JITTER if strat == "GridInterpolationVariationalStrategy" else CM.jit(cfg)) * CM.eye(Kz.shape[-1]))
        CM.write_raw(dist, mod, CM.qu_raw(dist, cfg["qu"], mod.num_inducing_points, tuple(mod.batch_shape), g, prior))
    else:
        CM.write_raw(dist, mod, CM.seeded_raw(dist, mod.num_inducing_points, tuple(mod.batch_shape), g))
    with torch.no_grad():
        if strat == "OrthogonallyDecoupledVariationalStrategy":
            vs._variational_distribution.variational_mean.copy_(torch.randn(*bp, M, generator=g, dtype=D) * 0.5)
        if strat == "LMCVariationalStrategy":
            vs.lmc_coefficients.copy_(torch.randn(vs.lmc_coefficients.shape, generator=g, dtype=D))
    if cfg.get("x_is_z"):
        X = vs.inducing_points.detach().clone()
    if cfg.get("x_at_nodes") is not None:                 # the strategy's own grid nodes (built in float32, then cast)
        if len(cfg["grid_bounds"]) == 1:
            X = vs.grid[torch.tensor(cfg["x_at_nodes"]), 0].detach().clone().unsqueeze(-1)
        else:                                             # d >= 2: rows of the strategy's own inducing points (the j-th value belongs to the j-th point)
            X = vs.inducing_points.detach()[torch.tensor(cfg["x_at_nodes"])].clone()
        X = X.expand(*bx, *X.shape).clone()
    # conditioning of the oracle side
    pts = [p for p in (Z, Zc) if p is not None] or [vs.inducing_points.detach()]
    for p in pts:
        _, K = CM.prior_on(model, p)
        K = K + (CM.GRID_PRIOR_JITTER if strat == "GridInterpolationVariationalStrategy" else CM.jit(cfg)) * CM.eye(K.shape[-1])
        if float(torch.linalg.cond(K).max()) > 1e4:
            return None
    return model, X


def cell_desc(cfg):
    extra = "".join(" %s=%s" % (q, cfg[q]) for q in ("qu", "M", "path", "variant", "mvd", "kb", "base", "Q", "T", "ld", "given", "task_indices", "x_is_z", "x_at_nodes", "jitter") if cfg.get(q) is not None)
    return "%s x %s inducing%s params%s inputs%s kernel=%s%s seed=%d" % (cfg["strat"], cfg["dist"], list(cfg["bz"]), list(cfg["bp"]), list(cfg["bx"]),
                                                                         cfg["kernel"], extra, cfg["seed"])


def setup_retry(torch, cfg):
    for t in range(20):
        c = dict(cfg, seed=cfg["seed"] + 7919 * t)
        r = seeded_setup(torch, c)
        if r is not None:
            return c, r
    raise core.Machinery("no well conditioned instance for %r" % (cfg,))


def kl_only(torch, cell, tag, cfg, model, X, mode, kl, k_ind, sig_for=None, cur=None):
    """compare a kl_divergence() value alone (the q(f) part of the comparison is fed with the closed form itself)"""
    from checks import c14_models as CM
    strat, dist = cfg["strat"], cfg["dist"]
    ref = CM.oracle(cfg, model, X, mode)
    got = dict(mean=ref["mean"], cov=ref["cov"], var=ref["cov"].diagonal(dim1=-1, dim2=-2), kl=kl)
    if cur is not None:
        cur.update(got=got, ref=ref)
    sub = Cell(cell.sigbase, cell.desc, cell.case, cell.keybase)
    compare_output(torch, sub, tag, strat, dist, got, ref, mode, k_ind, False, cfg=cfg, alts=alt_oracles(cfg, model, X, mode), sig_for=sig_for)
    out = [r for r in sub.results if "-kl" in r["key"][-1]]
    for r in out:
        r.pop("sample", None)
    return out


def drop_dim(shape, d):
    shape = list(shape)
    if shape:
        del shape[d]
    return shape


def wrapper_signatures(torch, cfg, got_ref):
    """stable signatures for the reproduced deviations of the multitask wrappers; anything else keeps the cell's own signature.
    got_ref: callable -> (got, ref) of the comparison under way"""
    strat = cfg["strat"]
    notlast = strat in WRAPPERS and cfg.get("ld", -1) != -1
    ti = cfg.get("task_indices") is not None

    def sig_for(what):
        if not notlast:
            return None
        if what == "kl":
            got, ref = got_ref()
            if strat == IMT and ref.get("latent_kl") is not None:
                wrong = ref["latent_kl"].sum(-1)
                try:
                    full = torch.broadcast_shapes(got["kl"].shape, wrong.shape)
                except RuntimeError:
                    return None
                if core.close(got["kl"].expand(full), wrong.expand(full), RT, AT)[0]:
                    return SIG_IMT_KL
            return None
        if ti:
            return SIG_IMT_SEL if strat == IMT else None
        if cfg.get("variant") == "batchkernel" and what in ("cov", "var", "raises"):
            return SIG_LAZY_PERMUTE % strat
        return None
    return sig_for


SIG_CG_FLOOR = "C14/CiqVariationalStrategy/Natural/precision-solve/cg-eps-floor"


def cg_floor_signatures(torch, cfg, model, X, cur, inner, kw):
    """part "qu", CiqVariationalStrategy on its natural-gradient path: a mean / variance that misses the closed form at the tolerance settings gets the
    diagnosed signature SIG_CG_FLOOR iff the SAME call (same settings, same iteration caps as the code passes them) meets the closed form once
    linear_cg's division guard `eps` (default 1e-10, not reachable through any setting) is lowered - the reproduced accuracy floor of the precision
    solve.  Any other failure (a solve that is cut short, a wrong operand) keeps the cell's own signature.  Diagnosis only: the cell fails either way."""
    if not (cfg.get("qu") and cfg["strat"] == "CiqVariationalStrategy" and cfg["dist"] == "Natural"):
        return inner
    memo = {}

    def lowered(mode):
        if mode not in memo:
            import gpytorch.variational.ciq_variational_strategy as ciqmod
            orig = ciqmod.linear_cg
            ciqmod.linear_cg = lambda *a, **k: orig(*a, **dict(k, eps=1e-30))
            try:
                ok, got = core.guarded(lambda: call_model(torch, model, X, mode, cfg["strat"], want_kl=False, qu=True, **kw))
            finally:
                ciqmod.linear_cg = orig
            memo[mode] = got if ok else None
        return memo[mode]

    def sig_for(what):
        s0 = inner(what)
        if s0 is not None or what not in ("mean", "cov", "var"):
            return s0
        mode, ref = cur["mode"], cur["ref"]
        rt, at = tolerance(cfg["strat"], cfg)
        w = ref["mean"] if what == "mean" else ref["cov"].diagonal(dim1=-1, dim2=-2)
        g0 = cur["got"]["mean"] if what == "mean" else cur["got"]["var"]
        if tuple(g0.shape) != tuple(w.shape) or core.close(g0, w, rt, at)[0]:
            return None                                                 # nothing to diagnose
        got = lowered(mode)
        if got is None:
            return None
        g = got["mean"] if what == "mean" else got["var"]
        if tuple(g.shape) == tuple(w.shape) and core.close(g, w, rt, at)[0]:
            return SIG_CG_FLOOR
        return None
    return sig_for


def run_seeded(cfg):
    torch = core.setup_torch()
    from checks import c14_models as CM
    strat, dist = cfg["strat"], cfg["dist"]
    cell = Cell("C14/%s/%s" % (strat, dist), cell_desc(cfg), dict(kind="seed", cfg=cfg),
                ["seed", strat, dist, list(cfg["bz"]), list(cfg["bp"]), list(cfg["bx"]), cfg["kernel"], cfg.get("variant"), cfg.get("base"),
                 cfg.get("task_indices") is not None, cfg.get("x_is_z"), cfg.get("x_at_nodes") is not None, cfg.get("jitter"), cfg.get("ld"), cfg.get("given"),
                 cfg.get("Q"), cfg.get("T"), cfg.get("kb") if cfg.get("variant") == "batchkernel" else None, cfg.get("mvd")]
                + ([cfg["qu"], cfg["msize"]] if cfg.get("qu") else []))
    ok, r = core.guarded(lambda: setup_retry(torch, cfg))
    if not ok:
        if "Machinery" in str(r):
            raise core.Machinery(str(r))
        cell.add("build", False, str(r))
        return cell.results
    cfg2, (model, X) = r
    kw = {}
    if cfg.get("task_indices") is not None:
        kw["task_indices"] = torch.tensor(cfg["task_indices"])
    wrapper = strat in WRAPPERS
    multitask = wrapper and cfg.get("task_indices") is None
    k_ind = CM.param_module(cfg2, model).num_inducing_points
    cur = {}
    sig_for = wrapper_signatures(torch, cfg2, lambda: (cur["got"], cur["ref"]))
    sig_for = cg_floor_signatures(torch, cfg2, model, X, cur, sig_for, kw)
    for mode in ("eval", "train"):
        cur["mode"] = mode
        ok, got = core.guarded(lambda: call_model(torch, model, X, mode, strat, qu=bool(cfg.get("qu")), **kw))
        if not ok:
            msg = str(got)
            sig = None
            if "not broadcastable with kernel of batch_shape" in msg or "Attempting to broadcast a dimension" in msg or cfg.get("task_indices") is not None:
                sig = sig_for("raises")
            cell.add(mode + "-raises", False, msg, sig)
            if wrapper:
                # kl_divergence() does not depend on the call that failed: it is still compared
                ok, kl = core.guarded(lambda: model.variational_strategy.kl_divergence().detach().clone())
                if not ok:
                    cell.add(mode + "-kl-raises", False, str(kl))
                    continue
                cell.results.extend(kl_only(torch, cell, "seeded", cfg2, model, X, mode, kl, k_ind, sig_for=sig_for, cur=cur))
                kl_shape(torch, cell, cfg2, mode, kl, sig=(sig_for("kl") if cfg2.get("ld", -1) != -1 else None))
            continue
        ref = CM.oracle(cfg2, model, X, mode)
        cur.update(got=got, ref=ref)
        if collapsed_input_batch(torch, cell, cfg2, model, X, got, mode):
            break
        compare_output(torch, cell, "seeded", strat, dist, got, ref, mode, k_ind, multitask, cfg=cfg2, alts=alt_oracles(cfg2, model, X, mode), sig_for=sig_for)
        if wrapper:
            kl_shape(torch, cell, cfg2, mode, got["kl"], sig=(sig_for("kl") if cfg2.get("ld", -1) != -1 else None))
    return cell.results


def kl_shape(torch, cell, cfg, mode, kl, sig=None):
    """the batch shape of kl_divergence() of a wrapper: one value per entry of the batch dimensions other than the latent / task dimension
    (VariationalQF.tla LayoutInfo.kl).  A whitened base strategy has p(e) = N(0, I) with the parameters' batch shape; an unwhitened one
    has p(u) on the inducing points (batch dimensions of the inducing points and the kernel; in training mode after a call the
    memoised joint prior also carries those of the inputs)"""
    if cfg.get("klshape") is None:
        return
    ld = cfg.get("ld", -1)
    shapes = [tuple(cfg["klshape"])]
    want = [shapes[0]]
    if cfg.get("base") == "UnwhitenedVariationalStrategy":
        if cfg["bz"]:
            shapes.append(tuple(drop_dim(cfg["bz"], ld)))
        if cfg.get("variant") == "batchkernel":
            shapes.append(tuple(drop_dim(cfg["kb"], ld)))
        want = [tuple(torch.broadcast_shapes(*shapes))]
        if mode == "train" and cfg["bx"]:
            # which of the two priors is memoised at this point is a matter of call-site bookkeeping (assumption 1): both shapes stand for the same values
            want.append(tuple(torch.broadcast_shapes(*shapes, tuple(drop_dim(cfg["bx"], ld)))))
    cell.add("%s-kl-shape" % mode, tuple(kl.shape) in want, "kl_divergence() has shape %s, the parameters' batch shape %s without its dimension %d is %s" % (
        tuple(kl.shape), list(cfg["bp"]), ld, " or ".join(map(str, want))), sig)


def opt_step(torch, model, g, dist):
    """optimizer.step() of plain SGD with seeded pseudo-gradients on every parameter (the natural matrix stays symmetric)"""
    opt = torch.optim.SGD(model.parameters(), lr=0.05)
    before = [p.detach().clone() for p in model.parameters()]
    for name, p in model.named_parameters():
        gr = torch.randn(p.shape, generator=g, dtype=p.dtype) * 0.3
        if name.endswith("natural_mat"):
            gr = 0.5 * (gr + gr.transpose(-1, -2))
        p.grad = gr
    opt.step()
    opt.zero_grad()
    return any(not torch.equal(a, b) for a, b in zip(before, model.parameters()))


def run_history(case):
    """training mode: after every optimizer step the next output / KL must be the closed form for the NEW parameters"""
    torch = core.setup_torch()
    from checks import c14_models as CM
    cfg, hist = case["cfg"], case["hist"]
    strat, dist = cfg["strat"], cfg["dist"]
    cell = Cell("C14/%s/%s" % (strat, dist), cell_desc(cfg) + " history=" + ">".join(hist), case, ["hist", strat, dist, hist, cfg.get("variant"), cfg.get("base")])
    cfg2, (model, X) = setup_retry(torch, cfg)
    g = torch.Generator().manual_seed(cfg2["seed"] + 1)
    k_ind = CM.param_module(cfg2, model).num_inducing_points
    multitask = strat in ("LMCVariationalStrategy", "IndependentMultitaskVariationalStrategy")
    model.train()
    rt, at = tolerance(strat)
    steps = 0
    for n, a in enumerate(hist):
        tag = "step%d-after-%d-updates" % (n, steps)
        if a == "OptStep":
            if not opt_step(torch, model, g, dist):
                raise core.Machinery("optimizer step changed nothing")
            steps += 1
            continue
        if a == "Forward":
            ok, got = core.guarded(lambda: call_model(torch, model, X, "train", strat, want_kl=False, set_mode=False))
            if not ok:
                cell.add("hist-raises", False, "%s: %s" % (tag, got))
                break
            ref = CM.oracle(cfg2, model, X, "train")
            if collapsed_input_batch(torch, cell, cfg2, model, X, got, "train"):
                break
            dg = ref["cov"].diagonal(dim1=-1, dim2=-2)
            if multitask:
                dg = dg.reshape(*dg.shape[:-1], *got["var"].shape[-2:])
            cell.close("hist-mean@" + tag, got["mean"], ref["mean"], rt, at, sig="C14/%s/%s/hist-mean" % (strat, dist))
            if not core.close(got["var"], dg.expand(got["var"].shape), rt, at)[0]:
                # another admissible placement of the jitter on diag(Kxx)?
                hit = None
                for ar in alt_oracles(cfg2, model, X, "train")():
                    d2 = ar["cov"].diagonal(dim1=-1, dim2=-2)
                    d2 = d2.reshape(*d2.shape[:-1], *got["var"].shape[-2:]) if multitask else d2
                    if core.close(got["var"], d2.expand(got["var"].shape), rt, at)[0]:
                        hit = ar["ov"]
                        break
                if hit is not None:
                    cell.results.append(dict(key=cell.keybase + ["hist-var/drift", tag], ok=True, nontrivial=False, sig=cell.sigbase, case=None,
                                             drift="%s: hist-var holds only under another jitter placement than StratInfo (%s)" % (cell.desc, hit)))
                    continue
            cell.close("hist-var@" + tag, got["var"], dg, rt, at, sig="C14/%s/%s/hist-var" % (strat, dist))
        if a == "KL":
            ok, kl = core.guarded(lambda: model.variational_strategy.kl_divergence().detach().clone())
            if not ok:
                cell.add("hist-raises", False, "%s: %s" % (tag, kl))
                break
            ref = CM.oracle(cfg2, model, X, "train")
            got = dict(mean=ref["mean"], var=ref["cov"].diagonal(dim1=-1, dim2=-2), kl=kl)
            sub = Cell(cell.sigbase, cell.desc, cell.case, cell.keybase)
            compare_output(torch, sub, tag, strat, dist, got, ref, "train", k_ind, False, alts=alt_oracles(cfg2, model, X, "train"))
            for r in sub.results:
                if "-kl@" in r["key"][-1]:
                    r["key"][-1] = "hist-kl@" + tag
                    if r["sig"].endswith("/train-kl"):
                        r["sig"] = "C14/%s/%s/hist-kl" % (strat, dist)
                    r.pop("sample", None)
                    cell.results.append(r)
    return cell.results


def run_same_qu(cfg):
    """(d) a whitened and an unwhitened strategy that describe the same q(u) give the same q(f)"""
    torch = core.setup_torch()
    from checks import c14_models as CM
    cell = Cell("C14/whitened-vs-unwhitened", "same q(u): " + cell_desc(cfg), dict(kind="same", cfg=cfg),
                ["same", cfg["dist"], list(cfg["bz"]), list(cfg["bp"]), list(cfg["bx"]), cfg["kernel"], cfg.get("jitter")])
    cfg2, (mw, X) = setup_retry(torch, dict(cfg, strat="VariationalStrategy"))
    j = CM.jit(cfg2)
    vs = mw.variational_strategy
    Z = vs.inducing_points.detach()
    m, S = CM.dist_moments(cfg["dist"], CM.read_raw(cfg["dist"], vs._variational_distribution))
    mz, Kzz = CM.prior_on(mw, Z)
    W = torch.linalg.cholesky(Kzz + j * CM.eye(Z.shape[-2]))
    mu, Su = CM.unwhiten(W, mz, m, S)
    bpu = tuple(torch.broadcast_shapes(mu.shape[:-1], () if Su is None else Su.shape[:-2]))
    full = lambda t, nd: t.expand(*bpu, *t.shape[-nd:])
    udist = cfg["dist"] if cfg["dist"] != "MeanField" else "Cholesky"       # the unwhitened covariance of a whitened mean-field q is not diagonal
    cfgu = dict(cfg2, strat="UnwhitenedVariationalStrategy", bp=bpu, dist=udist)
    mu_model = CM.build(cfgu, Z)
    mu_model.load_state_dict({q: v for q, v in mw.state_dict().items() if "variational_distribution" not in q and "updated_strategy" not in q}, strict=False)
    CM.write_raw(udist, mu_model.variational_strategy._variational_distribution, CM.raw_from_moments(udist, full(mu, 1), None if Su is None else full(Su, 2)))
    ok, gw = core.guarded(lambda: call_model(torch, mw, X, "eval", "VariationalStrategy", want_kl=False))
    ok2, gu = core.guarded(lambda: call_model(torch, mu_model, X, "eval", "UnwhitenedVariationalStrategy", want_kl=False))
    if not (ok and ok2):
        cell.add("raises", False, "%s / %s" % (gw, gu))
        return cell.results
    cell.close("mean", gw["mean"], gu["mean"].expand(torch.broadcast_shapes(gw["mean"].shape, gu["mean"].shape)))
    # the whitened strategy adds jitter_val to the diagonal of Kxx, the unwhitened one does not (StratInfo.xjit)
    cu = gu["cov"] + j * CM.eye(X.shape[-2])
    full = torch.broadcast_shapes(gw["cov"].shape, cu.shape)
    if not core.close(gw["cov"].expand(full), cu.expand(full), RT, AT)[0] and core.close(gw["cov"].expand(full), gu["cov"].expand(full), RT, AT)[0]:
        cell.results.append(dict(key=cell.keybase + ["cov/drift"], ok=True, nontrivial=False, sig=cell.sigbase, case=None,
                                 drift="%s: the two strategies agree without the jitter StratInfo puts on diag(Kxx) of the whitened strategy" % cell.desc))
        return cell.results
    cell.close("cov", gw["cov"], cu.expand(full))
    return cell.results


def run_legacy(cfg):
    """(g) a whitened strategy that loaded q(u) = N(m, S) from a checkpoint of the version before whitening (no updated_strategy entry) gives the q(f) /
    KL of that q(u): against the closed form (direct reading of the checkpoint's parameters, the strategy's jitter_val everywhere) and against an
    UnwhitenedVariationalStrategy holding the same (m, S); cfg["first"]: the mode of the call that triggers the conversion"""
    torch = core.setup_torch()
    from checks import c14_models as CM
    strat, dist = "VariationalStrategy", cfg["dist"]
    cell = Cell("C14/%s/legacy-checkpoint" % strat, "legacy checkpoint (first call in %s mode): %s" % (cfg["first"], cell_desc(cfg)), dict(kind="legacy", cfg=cfg),
                ["legacy", dist, list(cfg["bz"]), list(cfg["bp"]), list(cfg["bx"]), cfg["kernel"], cfg.get("jarg"), cfg["first"]])
    cfg2, (mw, X) = setup_retry(torch, dict(cfg, strat=strat))
    j = CM.jit(cfg2)
    vs = mw.variational_strategy
    Z = vs.inducing_points.detach().clone()
    raw = CM.read_raw(dist, vs._variational_distribution)
    qu = CM.dist_moments(dist, raw)                              # what the checkpoint describes
    ocfg = dict(cfg2, qu_direct=qu)
    k_ind = Z.shape[-2]
    sig_for = lambda what: SIG_LEGACY % (strat, what)
    ok, r = core.guarded(lambda: legacy_load(mw))
    if not ok:
        cell.add("load-raises", False, str(r), sig_for("raises"))
        return cell.results
    modes = ("train", "eval", "eval") if cfg["first"] == "train" else ("eval", "eval", "train")
    for n, mode in enumerate(modes):
        ok, got = core.guarded(lambda: call_model(torch, mw, X, mode, strat))
        if not ok:
            cell.add("raises", False, "call %d (%s mode): %s" % (n, mode, got), sig_for("raises"))
            return cell.results
        ref = CM.oracle(ocfg, mw, X, mode)
        compare_output(torch, cell, "legacy-call%d" % n, strat, dist, got, ref, mode, k_ind, cfg=cfg2, alts=alt_oracles(ocfg, mw, X, mode), sig_for=sig_for)
        if mode == "eval":
            geval = got
    # the unwhitened strategy holding the same parameters
    cfgu = dict(cfg2, strat="UnwhitenedVariationalStrategy")
    mu_model = CM.build(cfgu, Z, prior_hyper=cfg2.get("ls"))
    mu_model.load_state_dict({q: v for q, v in mw.state_dict().items() if "variational_distribution" not in q and "updated_strategy" not in q}, strict=False)
    CM.write_raw(dist, mu_model.variational_strategy._variational_distribution, raw)
    ok, gu = core.guarded(lambda: call_model(torch, mu_model, X, "eval", "UnwhitenedVariationalStrategy", want_kl=False))
    if not ok:
        cell.add("unwhitened-raises", False, str(gu), "C14/whitened-vs-unwhitened/raises")
        return cell.results
    cell.close("same-qu-mean", geval["mean"], gu["mean"].expand(torch.broadcast_shapes(geval["mean"].shape, gu["mean"].shape)), sig=sig_for("vs-unwhitened-mean"))
    cu = gu["cov"] + j * CM.eye(X.shape[-2])                      # StratInfo.xjit: the whitened strategy adds jitter_val to diag(Kxx), the unwhitened one does not
    full = torch.broadcast_shapes(geval["cov"].shape, cu.shape)
    if not core.close(geval["cov"].expand(full), cu.expand(full), RT, AT)[0] and core.close(geval["cov"].expand(full), gu["cov"].expand(full), RT, AT)[0]:
        cell.results.append(dict(key=cell.keybase + ["cov/drift"], ok=True, nontrivial=False, sig=cell.sigbase, case=None,
                                 drift="%s: the two strategies agree without the jitter StratInfo puts on diag(Kxx) of the whitened strategy" % cell.desc))
        return cell.results
    cell.close("same-qu-cov", geval["cov"], cu.expand(full), sig=sig_for("vs-unwhitened-cov"))
    return cell.results


# ---------------------------------------------------------------------------------------------------------------------
# (f) code paths of forward x evaluation-mode histories (VariationalQF.tla parts "paths" and "ehist")
PATHS = ("default", "skipvar", "fastpredvar", "cg", "trace", "nofast", "eager")
ITER_RT, ITER_AT = 2e-5, 2e-7          # solves run by conjugate gradients (tolerance 1e-12, full rank)
SHORT_STRATS = ("VariationalStrategy", "UnwhitenedVariationalStrategy", "CiqVariationalStrategy")     # inputs == inducing points is expressible


def path_settings(stack, path):
    """the real settings of a path of VariationalQF.tla Paths"""
    import gpytorch
    S = gpytorch.settings
    if path == "default":
        cms = []
    elif path == "skipvar":
        cms = [S.skip_posterior_variances(True)]
    elif path == "fastpredvar":
        cms = [S.fast_pred_var(True)]
    elif path == "cg":
        cms = [S.max_cholesky_size(0), S.cg_tolerance(1e-12), S.eval_cg_tolerance(1e-12), S.max_cg_iterations(2000), S.max_preconditioner_size(0)]
    elif path == "trace":
        cms = [S.trace_mode(True)]
    elif path == "nofast":
        cms = [S.fast_computations(covar_root_decomposition=False, log_prob=False, solves=False)]
    elif path == "eager":
        cms = [S.lazily_evaluate_kernels(False)]
    else:
        raise core.Machinery("unknown path %r" % (path,))
    for cm in cms:
        stack.enter_context(cm)


def path_tolerance(strat, path, own):
    rt, at = tolerance(strat)
    if own and path == "cg":
        rt, at = max(rt, ITER_RT), max(at, ITER_AT)
    return rt, at


def well_conditioned(torch, cfg, model):
    """the oracle side after a parameter change: cond(Kzz + jitter) <= 1e4 on every inducing set, q(u) covariance positive definite"""
    from checks import c14_models as CM
    strat = cfg["strat"]
    vs = model.variational_strategy
    sets = [v.inducing_points.detach() for v in (vs, getattr(vs, "base_variational_strategy", None)) if v is not None and hasattr(v, "inducing_points")]
    for p in sets:
        _, K = CM.prior_on(model, p)
        K = K + (CM.GRID_PRIOR_JITTER if strat == "GridInterpolationVariationalStrategy" else CM.jit(cfg)) * CM.eye(K.shape[-1])
        if not bool(torch.isfinite(K).all()) or float(torch.linalg.cond(K).max()) > 1e4:
            return False
    _, S = CM.dist_moments(cfg["dist"], CM.read_raw(cfg["dist"], CM.param_module(cfg, model)))
    if S is not None:
        ev = torch.linalg.eigvalsh(0.5 * (S + S.transpose(-1, -2)))
        if not bool(torch.isfinite(ev).all()) or float(ev.min()) <= 0 or float((ev.max(-1)[0] / ev.min(-1)[0]).max()) > 1e4:
            return False
    return True


def guarded_step(torch, cfg, model, g, dist):
    """optimizer step that keeps the instance well conditioned (retried with the next seeded pseudo-gradients otherwise)"""
    for _ in range(8):
        before = [p.detach().clone() for p in model.parameters()]
        if not opt_step(torch, model, g, dist):
            raise core.Machinery("optimizer step changed nothing")
        if well_conditioned(torch, cfg, model):
            return
        with torch.no_grad():
            for p, b in zip(model.parameters(), before):
                p.copy_(b)
    raise core.Machinery("no well conditioned optimizer step for %r" % (cfg,))


def train_var_of(ref, got, multitask):
    dg = ref["cov"].diagonal(dim1=-1, dim2=-2)
    return dg.reshape(*dg.shape[:-1], *got["var"].shape[-2:]) if multitask else dg


def run_ehist(case):
    """one cell of strategy x distribution x base x code path along one history of the evaluation-mode protocol: every prediction
    (under the path or under the default settings) and every training-mode output is the closed form for the CURRENT parameters"""
    torch = core.setup_torch()
    from contextlib import ExitStack
    from checks import c14_models as CM
    cfg, hist, pinfo = case["cfg"], case["hist"], case["pinfo"]
    strat, dist, path = cfg["strat"], cfg["dist"], cfg["path"]
    base = cfg.get("base") if strat in WRAPPERS else None
    name = ">".join(a + ("" if a not in ("Predict", "TrainCall") else ("+" if f else "-")) + (str(xs) if a == "Predict" else "") for a, f, xs in hist)
    sigbase = "C14/%s/%s/path-%s" % (strat, dist, path)
    cell = Cell(sigbase, cell_desc(cfg) + " history=%s" % name, case, ["ehist", strat, dist, base, path, name])
    ok, r = core.guarded(lambda: setup_retry(torch, cfg))
    if not ok:
        if "Machinery" in str(r):
            raise core.Machinery(str(r))
        cell.add("build", False, str(r))
        return cell.results
    cfg2, (model, X) = r
    g = torch.Generator().manual_seed(cfg2["seed"] + 1)
    wrapper = strat in WRAPPERS
    multitask = wrapper
    model.eval()
    # a call whose inputs ARE the inducing points (the unwhitened strategy refuses it for a point mass with an explicit RuntimeError)
    can_short = (strat in SHORT_STRATS and model.variational_strategy.inducing_points.dim() == X.dim()
                 and not (strat == "UnwhitenedVariationalStrategy" and dist == "Delta"))
    # the second input set: same shape, other points
    g2 = torch.Generator().manual_seed(cfg2["seed"] + 2)
    if strat == "GridInterpolationVariationalStrategy":
        X2 = gen_points(torch, g2, tuple(X.shape[:-2]), X.shape[-2], 1, -0.9, 0.9, 0.1)
    else:
        X2 = gen_points(torch, g2, tuple(X.shape[:-2]), X.shape[-2], X.shape[-1])
    inputs = {1: X, 2: X2}
    ver, loads = 1, 0
    # legacy checkpoints (VariationalQF.tla LoadLegacy): pending = loaded and not called since; snap = the q(u) the checkpoint's parameters encoded (in the
    # coordinates of u) when the conversion ran - the q(u) every output describes until the parameters change again
    pending, snap = False, None

    def ocfg_of(c):
        return dict(c, qu_direct=snap) if snap is not None else c
    for n, (a, flag, xs) in enumerate(hist):
        tag = "step%d-version%d" % (n, ver)
        if a in ("Predict", "TrainCall") and pending:
            snap = CM.dist_moments(dist, CM.read_raw(dist, CM.param_module(cfg2, model)))
            pending = False
        if a == "ToTrain":
            model.train()
        elif a == "ToEval":
            model.eval()
        elif a == "OptStep":
            guarded_step(torch, cfg2, model, g, dist)
            ver += 1
            snap = None
        elif a == "LoadLegacy":
            loads += 1
            _, (donor, _x) = setup_retry(torch, dict(cfg, seed=cfg["seed"] + 104729 * loads))
            ok, r = core.guarded(lambda: legacy_load(model, donor))
            if not ok:
                cell.add("load-raises", False, "%s: %s" % (tag, r), SIG_LEGACY % (strat, "raises"))
                break
            if not well_conditioned(torch, cfg2, model):
                raise core.Machinery("loaded state is not well conditioned: %r" % (cfg,))
            ver += 1
            pending, snap = True, None
        elif a == "LoadState":
            loads += 1
            pending, snap = False, None
            _, (donor, _x) = setup_retry(torch, dict(cfg, seed=cfg["seed"] + 104729 * loads))
            ok, r = core.guarded(lambda: model.load_state_dict(donor.state_dict()))
            if not ok:
                cell.add("load-raises", False, "%s: %s" % (tag, r))
                break
            if not well_conditioned(torch, cfg2, model):
                raise core.Machinery("loaded state is not well conditioned: %r" % (cfg,))
            ver += 1
        elif a == "Predict":
            own = bool(flag)
            Xp = inputs[xs]
            rt, at = path_tolerance(strat, path, own)

            def call():
                with ExitStack() as st, torch.no_grad():
                    if own:
                        path_settings(st, path)
                    if strat == "CiqVariationalStrategy":
                        ciq_settings(st)
                    o = model(Xp)
                    mean = o.mean.clone()
                    cov = None
                    if not (own and pinfo["cov"] == "optional"):
                        cov = o.covariance_matrix.clone()
                    else:
                        # only the mean is requested: a covariance that is omitted comes back as zeros
                        okc, c = core.guarded(lambda: o.covariance_matrix.clone())
                        if okc and float(c.abs().max()) > 0.0:
                            cov = c
                return dict(mean=mean, cov=cov)
            ok, got = core.guarded(call)
            what = ("own" if own else "default-settings") + "-inputs%d" % xs
            if not ok:
                cell.add("eval-raises@%s-%s" % (tag, what), False, "%s: %s" % (tag, got))
                break
            ref = CM.oracle(ocfg_of(cfg2), model, Xp, "eval")
            if collapsed_input_batch(torch, cell, cfg2, model, Xp, dict(got, var=got["mean"]), "eval"):
                break
            cell.close("eval-mean@%s-%s" % (tag, what), got["mean"], ref["mean"], rt, at)
            if got["cov"] is not None:
                rc = ref["cov"]
                if not _matches(torch, got["cov"], rc, rt, at):
                    hit = None
                    for ar in alt_oracles(ocfg_of(cfg2), model, Xp, "eval")():
                        if _matches(torch, got["cov"], ar["cov"], rt, at):
                            hit = ar["ov"]
                            break
                    if hit is not None:
                        cell.results.append(dict(key=cell.keybase + ["eval-cov/drift", tag], ok=True, nontrivial=False, sig=cell.sigbase, case=None,
                                                 drift="%s: eval-cov holds only under another jitter placement than StratInfo (%s)" % (cell.desc, hit)))
                        continue
                sig = None
                if strat == "CiqVariationalStrategy" and dist == "Natural" and tuple(got["cov"].shape) == tuple(rc.shape):
                    off = got["cov"] - torch.diag_embed(got["cov"].diagonal(dim1=-1, dim2=-2))
                    if float(off.abs().max()) == 0.0 and _matches(torch, got["cov"].diagonal(dim1=-1, dim2=-2), rc.diagonal(dim1=-1, dim2=-2), rt, at):
                        sig = "C14/%s/%s/eval-cov/diagonal-only" % (strat, dist)
                if sig is None and wrapper and cfg2.get("variant") == "batchkernel" and cfg2.get("ld", -1) != -1:
                    sig = SIG_LAZY_PERMUTE % strat
                cell.close("eval-cov@%s-%s" % (tag, what), got["cov"], rc, rt, at, sig)
        elif a == "TrainCall":
            short = bool(flag) and can_short
            Xc = model.variational_strategy.inducing_points.detach().clone() if short else X
            rt, at = tolerance(strat)

            def tcall():
                with ExitStack() as st:
                    if strat == "CiqVariationalStrategy":
                        ciq_settings(st)
                    o = model(Xc)                               # autograd records, as in a training loop
                    mean, var = o.mean.detach().clone(), o.variance.detach().clone()
                    model.variational_strategy.kl_divergence()   # the objectives ask for it after the call
                return dict(mean=mean, var=var)
            ok, got = core.guarded(tcall)
            if not ok:
                cell.add("train-raises@" + tag, False, "%s: %s" % (tag, got))
                break
            ocfg = ocfg_of(dict(cfg2, x_is_z=True) if (short and strat == "UnwhitenedVariationalStrategy") else cfg2)
            ref = CM.oracle(ocfg, model, Xc, "train")
            if collapsed_input_batch(torch, cell, cfg2, model, Xc, got, "train"):
                break
            cell.close("train-mean@" + tag, got["mean"], ref["mean"], rt, at)
            dg = train_var_of(ref, got, multitask)
            if not _matches(torch, got["var"], dg, rt, at):
                hit = None
                for ar in alt_oracles(ocfg, model, Xc, "train")():
                    if _matches(torch, got["var"], train_var_of(ar, got, multitask), rt, at):
                        hit = ar["ov"]
                        break
                if hit is not None:
                    cell.results.append(dict(key=cell.keybase + ["train-var/drift", tag], ok=True, nontrivial=False, sig=cell.sigbase, case=None,
                                             drift="%s: train-var holds only under another jitter placement than StratInfo (%s)" % (cell.desc, hit)))
                    continue
            cell.close("train-var@" + tag, got["var"], dg, rt, at)
        else:
            raise core.Machinery("unknown action %r" % (a,))
    return cell.results


def _matches(torch, g, w, r, a):
    try:
        full = torch.broadcast_shapes(g.shape, w.shape)
    except RuntimeError:
        return False
    return core.close(g.expand(full), w.expand(full), r, a)[0]


# ---------------------------------------------------------------------------------------------------------------------
# (e) the multitask wrappers on a stub base strategy: exact decoding of the mixture
def run_mix(case):
    """the wrappers on a stub base strategy whose batch shape, latent q(f) and q(u) / p(u) are the instance's; every expectation
    (values AND shapes) is TLC's exact evaluation of the denotation"""
    torch = core.setup_torch()
    import types
    import gpytorch
    from gpytorch.distributions import MultivariateNormal
    D = torch.float64
    inst, out = case["inst"], case["out"]
    shape, ld, td = list(inst["shape"]), inst["ld"], inst["td"]
    Q, N, T, K = shape[ld], len(inst["mean"][0]), len(inst["A"][0]), len(inst["um"][0])
    oshape = list(out["oshape"])
    notlast = ld != -1
    mean = torch.tensor(inst["mean"], dtype=D).reshape(*shape, N)
    cov = torch.tensor(inst["cov"], dtype=D).reshape(*shape, N, N)
    um = torch.tensor(inst["um"], dtype=D).reshape(*shape, K)
    A = torch.tensor(inst["A"], dtype=D).reshape(*shape, T)
    eyeK = torch.eye(K, dtype=D).expand(*shape, K, K)

    def want(name, *tail):
        return torch.tensor(out[name], dtype=D).reshape(tuple(oshape) + tuple(tail))
    want_kl = 0.5 * want("kl2")                                            # KL(N(um, I) || N(0, I)) = |um|^2 / 2, summed over the latents
    latent_kl = 0.5 * (um * um).sum(-1)

    class Stub(gpytorch.Module):
        def __init__(self):
            super().__init__()
            self._variational_distribution = types.SimpleNamespace(batch_shape=torch.Size(shape))
            self.inducing_points = torch.zeros(1, 1, dtype=D)
            self.variational_distribution = MultivariateNormal(um, eyeK)
            self.prior_distribution = MultivariateNormal(torch.zeros_like(um), eyeK)

        def forward(self, x, prior=False, **kw):
            return MultivariateNormal(mean, cov)
    X = torch.zeros(N, 1, dtype=D)
    res = []
    jv = 0.5
    lay = "shape=%s latent_dim=%d" % (shape, ld)
    cell = Cell("C14/LMCVariationalStrategy/mix", "mix instance %s (%s N=%d T=%d)" % (inst["id"], lay, N, T), case, ["mix", inst["id"]])
    ok, lmc = core.guarded(lambda: gpytorch.variational.LMCVariationalStrategy(Stub(), num_tasks=T, num_latents=Q, latent_dim=ld, jitter_val=jv).to(D))
    if not ok:
        cell.add("lmc-raises", False, str(lmc))
    else:
        with torch.no_grad():
            lmc.lmc_coefficients.copy_(A)

        def jit_ok(got, w):
            # jitter_val on the diagonal of the mixture is an admissible placement (StratInfo): with or without
            return w if core.close(got, w, 1e-12, 1e-12)[0] else w + jv * torch.eye(w.shape[-1], dtype=D)
        ok, o = core.guarded(lambda: lmc(X))
        if not ok:
            cell.add("lmc-raises", False, str(o))
        else:
            cell.same("all-tasks-mean", o.mean, want("lmean", N, T), 1e-12, 1e-12)
            cell.same("all-tasks-cov", o.covariance_matrix, jit_ok(o.covariance_matrix, want("lcov", N * T, N * T)), 1e-12, 1e-12)
        ok, o = core.guarded(lambda: lmc(X, task_indices=torch.tensor([t - 1 for t in inst["ti"]])))
        if not ok:
            cell.add("lmc-raises", False, str(o))
        else:
            cell.same("one-task-mean", o.mean, want("smean", N), 1e-12, 1e-12)
            cell.same("one-task-cov", o.covariance_matrix, jit_ok(o.covariance_matrix, want("scov", N, N)), 1e-12, 1e-12)
        ok, kl = core.guarded(lambda: lmc.kl_divergence())
        if not ok:
            cell.add("kl-raises", False, str(kl))
        else:
            cell.same("kl", kl, want_kl, 1e-12, 1e-12)
    res.extend(cell.results)
    cell = Cell("C14/IndependentMultitaskVariationalStrategy/mix", "mix instance %s (%s task_dim=%d N=%d)" % (inst["id"], lay, td, N), case, ["imix", inst["id"]])
    imt = gpytorch.variational.IndependentMultitaskVariationalStrategy(Stub(), num_tasks=Q, task_dim=td)
    ok, o = core.guarded(lambda: imt(X))
    if not ok:
        cell.add("imt-raises", False, str(o))
    else:
        cell.same("all-tasks-mean", o.mean, want("imean", N, Q), 1e-12, 1e-12)
        cell.same("all-tasks-cov", o.covariance_matrix, want("icov", N * Q, N * Q), 1e-12, 1e-12)
    if td < 0:                                          # one task per input is documented for a negative task_dim only
        sig = SIG_IMT_SEL if notlast else None
        ok, o = core.guarded(lambda: imt(X, task_indices=torch.tensor([t - 1 for t in inst["tj"]])))
        if not ok:
            cell.add("imt-raises", False, str(o), sig)
        else:
            cell.same("one-task-mean", o.mean, want("ismean", N), 1e-12, 1e-12, sig)
            cell.same("one-task-cov", o.covariance_matrix, want("iscov", N, N), 1e-12, 1e-12, sig)
    ok, kl = core.guarded(lambda: imt.kl_divergence())
    if not ok:
        cell.add("kl-raises", False, str(kl))
    else:
        sig = SIG_IMT_KL if notlast and core.close(kl, latent_kl.sum(-1), 1e-12, 1e-12)[0] else None
        cell.same("kl", kl, want_kl, 1e-12, 1e-12, sig)
    res.extend(cell.results)
    return res


# ---------------------------------------------------------------------------------------------------------------------
def run_case(case):
    kind = case["kind"]
    if kind == "rat":
        return run_rational(case)
    if kind == "seed":
        return run_seeded(case["cfg"])
    if kind == "hist":
        return run_history(case)
    if kind == "same":
        return run_same_qu(case["cfg"])
    if kind == "mix":
        return run_mix(case)
    if kind == "ehist":
        return run_ehist(case)
    if kind == "legacy":
        return run_legacy(case["cfg"])
    raise core.Machinery("unknown case kind %r" % kind)


def _worker(item):
    core.setup_torch()
    out = []
    for c in item:
        out.extend(run_case(c))
    return out


WRAPPERS = ("LMCVariationalStrategy", "IndependentMultitaskVariationalStrategy")
STRATS_ALL = ("VariationalStrategy", "UnwhitenedVariationalStrategy", "BatchDecoupledVariationalStrategy", "OrthogonallyDecoupledVariationalStrategy",
              "CiqVariationalStrategy", "GridInterpolationVariationalStrategy") + WRAPPERS


def CM_JIT(jarg):
    from checks import c14_models as CM
    return CM.JIT_VALUES[jarg]


def lattice_cfgs(cells, seed, thorough):
    """seeded configurations for every cell of the lattice TLC enumerated"""
    kernels = ["rbf", "matern25", "matern15"]
    cfgs = []
    for n, c in enumerate(cells):
        strat, dist = c["strat"], c["dist"]
        bz, bp, bx = list(c["bz"]), list(c["bp"]), list(c["bx"])
        reps = 3 if thorough else 1
        for r in range(reps):
            # jitter_val rotates over the argument classes of VariationalQF.tla JitArgs (not given / the default given / 0.0 / small / large)
            jarg = JARGS[(n + r) % len(JARGS)]
            base = dict(strat=strat, dist=dist, bz=bz, bp=bp, bx=bx, kernel=kernels[(n + r) % 3], jitter=CM_JIT(jarg),
                        seed=seed * 100000 + n * 10 + r)
            if strat == "BatchDecoupledVariationalStrategy":
                # TLC's MVInfo: the kernel's batch shape and the position of its mean / variance dimension (0: one shared kernel)
                mv = c["layout"]["mv"]
                base.update(variant=("split" if mv else "shared"), mvd=(mv or None), kb=list(c["layout"]["kernel"]))
            if strat == "GridInterpolationVariationalStrategy":
                base.update(grid_size=7 + (n + r) % 2, grid_bounds=[[-1.0, 1.0]], jitter=None, ls=0.35)
            if strat == "OrthogonallyDecoupledVariationalStrategy":
                base["base"] = "VariationalStrategy"
            if strat in WRAPPERS:
                # the batch shapes of the lattice are those in front of the latent / task dimension; TLC's LayoutInfo gives the
                # parameter batch shape bp + [Q] + post and the dimension argument (VariationalQF.tla "batch layouts")
                info = c["layout"]
                Q, pshape, ld = c["lay"]["Q"], list(info["param"]), info["ld"]
                post = pshape[len(bp) + 1:]
                tail = [Q] + post
                rot = n + r
                T = 2 + (rot // 2) % 2
                base.update(Q=Q, T=T, bp=pshape, ld=ld, given=info["given"], klshape=list(info["kl"]),
                            # inducing points: with the pre dimension of the lattice, or shared / one set per latent and post entry
                            bz=(bz + tail if bz else ([] if rot % 2 else tail)),
                            # inputs: extra batch dimensions in front, broadcast against the latent and post dimensions or spelled out over the post dimensions
                            bx=(bx + [1] + ([1] * len(post) if (rot // 2) % 2 == 0 else post) if bx else []),
                            variant=("batchkernel" if rot % 3 == 0 else "shared"), kb=(tail if rot % 2 else [Q] + [1] * len(post)),
                            base=("VariationalStrategy" if rot % 4 else "UnwhitenedVariationalStrategy"))
                cfgs.append(dict(base))
                # one task per input: documented for outputs whose batch shape is the parameters' batch shape and a negative dimension argument
                if not bx and not (bz and not bp) and info["given"] < 0:
                    cfgs.append(dict(base, task_indices=[(q + n) % (T if strat == "LMCVariationalStrategy" else Q) for q in range(4)]))
                continue
            cfgs.append(base)
    return cfgs


def qu_cfgs(qcells, hcells, seed):
    """seeded configurations for the cells of TLC's part "qu": the unbatched lattice cell of strategy x distribution with M = 16 / 24 inducing
    points (Matern kernels with short lengthscales keep cond(Kzz) <= 1e4 at that size) and q(u) of the cell's structure class"""
    from checks import c14_models as CM
    cfgs = []
    for n, qc in enumerate(qcells):
        strat = qc["strat"]
        cands = [c for c in hcells if c["strat"] == strat and c["dist"] == qc["dist"] and c["mv"] == 0]
        if not cands:
            raise core.Machinery("qu: no lattice cell for %r" % (qc,))
        cfg = [x for x in lattice_cfgs([cands[0]], seed + 41 + n, False) if x.get("task_indices") is None][0]
        M = CM.QU_M[qc["msize"]]
        if M != qc["M"]:
            raise core.Machinery("qu: the replay's number of inducing points for %r differs from MOf of VariationalQF.tla" % (qc,))
        cfg.update(qu=qc["qclass"], msize=qc["msize"], M=M, N=5, mind=0.12, kernel=("matern15", "matern25")[n % 2], ls=0.3, solves=qc["solves"])
        if strat == "GridInterpolationVariationalStrategy":
            cfg.update(grid_size=M, ls=0.1, kernel="matern15")
        else:
            cfg["jitter"] = (None, 0.03)[(n // 2) % 2]
        if strat in WRAPPERS:
            cfg["base"] = "VariationalStrategy"
        cfgs.append(cfg)
    return cfgs


def run(ck):
    thorough = ck.tier == "thorough"
    core.setup_torch()
    rnd = random.Random(ck.seed)
    ck.rule = ("cases = (a) rational instances (8 combinations of two inducing sets / parameter sets / input sets per base pair, 5 distribution encodings, "
               "jitter 0..2) x strategy x batch pattern, compared with TLC's exact mean, full covariance and KL pieces; (b) every cell of the strategy x "
               "distribution x batch-shape lattice enumerated by TLC on seeded RBF / Matern models (eval: mean, full covariance, KL; train: mean, variance, KL) "
               "against the closed form on the model's own prior; (c) every training-mode history of TLC's call-protocol machine containing an optimizer step; "
               "(d) whitened vs unwhitened strategy on the same q(u); (e) LMC / independent multitask wrappers on a stub base against TLC's exact mixtures, KL sums and "
               "output shapes for the latent / task dimension at -1, -2, -3 (also as non-negative task_dim) with equal and unequal sizes of the other batch dimensions; in (b) "
               "the wrappers additionally range over that layout (parameters of batch shape pre + [Q] + post; Q in {2, 3} against a leading dimension of size 2; post sizes "
               "equal to / different from Q), kernels shared or with a batch shape, inducing points shared or per GP, inputs broadcast or spelled out over the post dimensions; "
               "(f) every cell of strategy x distribution x base strategy (wrappers: whitened / unwhitened) x code path {default, skip_posterior_variances, fast_pred_var, "
               "max_cholesky_size(0) (CG), trace_mode, fast_computations all off, lazily_evaluate_kernels off} taken through histories of TLC's evaluation-mode protocol machine "
               "(length 6: first prediction under the path, then Predict(under the path / default settings, input set 1 / 2), train(), TrainCall(whole forward / inputs = inducing "
               "points), optimizer step, eval(), load_state_dict()): six required histories (train more through the early return / the whole forward / without a call, "
               "loads, other inputs; quick tier: two of them for every cell, the others rotating over the distributions / bases of a strategy x path) + a rotating sample of the others; every prediction's mean and covariance (where the path produces one) and every training-mode mean / variance "
               "against the closed form for the current parameters and the inputs of the call; "
               "(g) jitter_val: every strategy x argument class {not given, dtype default given explicitly, 0.0, 0.03, 0.25} of TLC's part jit on the unbatched cell (the lattice cells of "
               "(b) rotate over the same five classes); legacy checkpoints (state dict without updated_strategy holding q(u) unwhitened): rational instances with jitter_val = 0.0 / 1.0 / 2.0 "
               "against TLC's exact direct reading (two calls), seeded {Cholesky, Natural, TrilNatural} x batch patterns x argument classes x mode of the converting call against the closed "
               "form of the loaded q(u) and against UnwhitenedVariationalStrategy on the same parameters, and histories of the protocol machine with LoadLegacy (8 required shapes + "
               "rotation) on every path cell whose strategy or base strategy is VariationalStrategy; "
               "(h) structure / conditioning of q(u) x size: every cell of TLC's part qu - strategy x distribution x {near the prior, diagonal precision 1..1e2, dense precision "
               "1..1e2, dense precision 1..1e4} x M in {16, 24} (below / above max_lanczos_quadrature_iterations = 20; max_cg_iterations = 1000) on seeded Matern models with every "
               "solver tolerance tight, eval and train mode, mean / covariance / KL against the dense closed form (quick: CIQ and the ill-conditioned class completely, the rest rotating); "
               "non-trivial = q(u) differs from the prior or the history contains an optimizer step before an observation (all cases except the q = p instances)")
    ck.assumptions = [
        "jitter is part of the prior the model evaluates to (VariationalQF.tla StratInfo); Kzz + jitter_val I defines p(u) and the whitening and is compared exactly; the "
        "remaining placements are those of the current code, and a result that holds under another admissible placement (jitter on diag(Kxx) 0/1/2 times, the other of "
        "the two p(u) jitters of the unwhitened strategy, LMC / orthogonal jitter present or absent) is reported as MODEL-DRIFT, not as a violation: the whitened strategies add "
        "jitter_val to diag(Kxx) (CIQ twice, once on its NGD path), LMC adds jitter_val to the mixed covariance; kl_divergence() of UnwhitenedVariationalStrategy uses "
        "Kzz + 1e-3 I (add_jitter() default) except in training mode after a call (jitter_val); GridInterpolationVariationalStrategy uses Kzz + 1e-3 I; "
        "OrthogonallyDecoupledVariationalStrategy adds jitter_val to its mean-inducing covariance in evaluation mode only",
        "point mass (DeltaVariationalDistribution): kl_divergence() is read as -log p(mean) in the coordinates of the strategy (whitened: N(0, I)), the convention of the code base",
        "OrthogonallyDecoupledVariationalStrategy is read as: mean = base mean + Cov_base(X, Z_mean) a, covariance = base covariance, KL = KL_base + 1/2 a' Cov_base(Z_mean, Z_mean) a "
        "(its docstring gives no formula); BatchDecoupledVariationalStrategy as documented (mean from the mean inducing set, covariance from the variance inducing set)",
        "GridInterpolationVariationalStrategy: q(f) = W q(u) with the strategy's own interpolation matrix W (its weights are C09's subject); at grid nodes W is a selection and the check is independent of W",
        "kl_divergence() in training mode is queried after the forward call of the same step, as the objectives do; one-task-per-input calls of the multitask wrappers only where "
        "the output batch shape equals the parameter batch shape and the dimension argument is negative (the wrappers reject / document only negative indices there)",
        "multitask wrappers: kl_divergence() is one value per entry of the batch dimensions OTHER than the latent / task dimension (the sum over the latents / tasks of the "
        "per-GP KL), for the independent wrapper as for LMC; its batch shape is compared exactly (whitened base: the parameters' batch shape without that dimension; unwhitened "
        "base: broadcast with the batch dimensions of inducing points, kernel and - in training mode after a call - inputs); a non-negative task_dim is exercised only where "
        "neither inputs nor inducing points add batch dimensions in front of the parameters' batch shape; num_latents always equals the size of the latent dimension "
        "(the size-1 'shared parameters' form of LMC is not exercised); task_dim beyond the rank of the batch shape (from_repeated_mvn) is not exercised",
        "code paths / evaluation-mode histories: a setting that a strategy does not read must not change q(f); under skip_posterior_variances only the mean is requested and a "
        "covariance that comes back as exact zeros counts as omitted (any other covariance is compared); kl_divergence() is not compared under the paths (its CG / Lanczos form is "
        "stochastic); parameters change only through the protocol the caches are told about (optimizer steps in training mode between train() and eval(), load_state_dict() in "
        "either mode) - an in-place change in evaluation mode behind the back of the memoised q(u) / Cholesky factor is C03's subject; jitter settings that change the VALUE of the "
        "prior (variational_cholesky_jitter) are not a path here (the jitter-keyed Cholesky factor is a known C03 finding); a training-mode call on inputs equal to the inducing points "
        "is made for the standard, unwhitened and CIQ strategies only (the unwhitened strategy refuses it for a point mass with an explicit RuntimeError; wrappers and the other "
        "strategies take the whole forward instead); CG path: cg_tolerance = eval_cg_tolerance = 1e-12, no preconditioner, 2e-5 relative + 2e-7 absolute",
        "legacy checkpoints: only for strategies that contain a VariationalStrategy (itself, or as the base of the LMC / independent-multitask / orthogonally decoupled strategies; the "
        "batch-decoupled subclass never had an unwhitened version) and for distributions that can represent the whitened covariance (Cholesky, Natural, TrilNatural; a mean-field "
        "module keeps only the diagonal of the whitened covariance and a point mass is not converted at all - both outside the statement); the parameter module has the batch shape of "
        "the inducing points (the whitened parameters depend on Z); after the converting call and until the next optimizer step / load, the expected q(u) is what the checkpoint's "
        "parameters encoded in the coordinates of u when the call was made (an optimizer step between the load and the first call moves them in those coordinates)",
        "q(u) classes (part qu): the classes are stated in the coordinates of the strategy's parameters (whitened strategies: near the prior = mean ~ 0, S ~ I; unwhitened / grid: "
        "q(u) ~ p(u) on the inducing points, which a mean-field module cannot express); cond(S) <= 1e4, cond(Kzz + jitter) <= 1e4; solver settings of these cells: "
        "num_contour_quadrature 30, minres_tolerance 1e-12, cg_tolerance = eval_cg_tolerance = 1e-13, max_cg_iterations 1000, max_lanczos_quadrature_iterations at its default; CIQ is "
        "held to the same 2e-6 + 1e-8 as on the small cells (the tolerance settings promise far less than that); wrappers on the whitened base strategy",
        "float64, 2-3 inducing points (rational) / 3 (seeded; 16 and 24 in part qu), cond(Kzz + jitter) <= 1e4 checked on the oracle side, 1e-7 relative + 1e-9 absolute; CIQ with tightened solver "
        "settings at 2e-6 + 1e-8; optimizer step = torch.optim.SGD.step() on seeded pseudo-gradients for every parameter"]
    wd = os.path.join(tlc.BUILD, PID)
    pairs = gen_pairs(rnd, 150 if thorough else 21, 40 if thorough else 5)
    instances = [i for p in pairs for i in p["insts"].values()]
    mixes = gen_mix(rnd, 200 if thorough else 50)
    L = 6 if thorough else 5
    nchunk = 8 if thorough else 4
    chunks = [instances[q::nchunk] for q in range(nchunk)]
    jobs = []
    for q, ch in enumerate(chunks):
        mod, cfg = write_mc(wd, "qf%d" % q, "qf", ch, QF_INV)
        jobs.append(((mod, cfg), dict(name=PID + "/qf%d" % q, dump=True, check=False, workers=1, coverage=False, timeout=1500)))
    # the hardest instances for a reduction over the wrong dimension: latent dimension not last, all batch sizes equal (same shape, other numbers)
    hard = [i for i in mixes if i["ld"] != -1 and len(set(i["shape"])) == 1]
    if not hard or not any(len(set(i["shape"])) > 1 and i["ld"] != -1 for i in mixes) or not any(i["td"] >= 0 for i in mixes):
        ck.vacuous("the mixture instances do not cover a latent dimension that is not the last one with equal and with unequal batch sizes")
    MIXINV = ["MixOK", "MixKLOK"]
    broken = (("hist_broken", "hist", [], ["ObservesCurrent"], dict(maxhist=L, clear=False)),
              ("mix_lmc_kl_last", "mix", hard, MIXINV, dict(variant=dict(lmckl="last"))),
              ("mix_imt_kl_last", "mix", hard, MIXINV, dict(variant=dict(imtkl="last"))),
              ("mix_imt_mask_from", "mix", hard, MIXINV, dict(variant=dict(imtmask="from"))))
    EL = 6                                         # length of the evaluation-mode histories (the first prediction included)
    EINV = ["EObservesCurrent"]
    broken += (("ehist_reuse", "ehist", [], EINV, dict(maxhist=EL, variant=dict(reuse=True))),
               ("ehist_reusex", "ehist", [], EINV, dict(maxhist=EL, variant=dict(reusex=True))),
               ("ehist_noloadclear", "ehist", [], EINV, dict(maxhist=EL, variant=dict(loadclear=False))),
               ("ehist_nomodeclear", "ehist", [], EINV, dict(maxhist=EL, variant=dict(modeclear=False))),
               ("ehist_notrainclear", "ehist", [], EINV, dict(maxhist=EL, clear=False)),
               ("elegacy_convjit", "ehist", [], EINV, dict(maxhist=EL, variant=dict(legacy=True, convjit="setting"))),
               ("jit_convjit", "jit", [], ["JitSame"], dict(variant=dict(convjit="setting"))),
               ("qu_preccap", "qu", [], ["QuConverges", "QuCover"], dict(variant=dict(preccap="lanczos"))))
    dumped = ("mix", "lattice", "hist", "paths", "ehist", "jit", "elegacy", "qu")
    for name, part, insts, inv, kw in (("mix", "mix", mixes, MIXINV, {}), ("lattice", "lattice", [], [], {}),
                                       ("hist", "hist", [], ["ObservesCurrent"], dict(maxhist=L)),
                                       ("paths", "paths", [], [], {}), ("ehist", "ehist", [], EINV, dict(maxhist=EL)),
                                       ("jit", "jit", [], ["JitSame"], {}),
                                       ("elegacy", "ehist", [], EINV, dict(maxhist=EL, variant=dict(legacy=True))),
                                       ("qu", "qu", [], ["QuConverges", "QuCover"], {})) + broken:
        mod, cfg = write_mc(wd, name, part, insts, inv, **kw)
        jobs.append(((mod, cfg), dict(name=PID + "/" + name, dump=(name in dumped), check=False, workers=2, coverage=False)))
    rs = tlc.run_many(jobs, parallel=min(12, core.NPROC))
    blabels = ["call protocol without the training-mode clear (must be rejected)",
               "mix, LMC kl_divergence summed over the last instead of the latent dimension (must be rejected)",
               "mix, independent-multitask kl_divergence summed over the last instead of the task dimension (must be rejected)",
               "mix, independent-multitask task mask permuted with the inverse permutation (must be rejected)",
               "evaluation-mode protocol, a path reads back what it retained and only a full training-mode call drops it (must be rejected)",
               "evaluation-mode protocol, a path reads back an input-dependent intermediate result whatever the inputs of the call (must be rejected)",
               "evaluation-mode protocol, load_state_dict() keeps what is memoised (must be rejected)",
               "evaluation-mode protocol, train() / eval() keep what is memoised (must be rejected)",
               "evaluation-mode protocol without the training-mode clear (must be rejected)",
               "evaluation-mode protocol with legacy checkpoints, the conversion whitens with the dtype default of the setting instead of the strategy's jitter_val (must be rejected)",
               "jitter sites, the conversion reads the setting instead of the strategy's jitter_val (must be rejected)",
               "q(u) classes, the natural-gradient CIQ solve with the precision capped by max_lanczos_quadrature_iterations (must be rejected)"]
    labels = ["qf chunk %d (exact rationals: code-shaped = denotation)" % q for q in range(nchunk)] + [
        "mix (multitask wrappers, every position of the latent / task dimension)", "lattice", "call protocol",
        "code paths (strategy x distribution x base x setting)", "evaluation-mode call protocol",
        "jitter_val as a constructor argument (strategy x argument class, one value at every site)",
        "evaluation-mode call protocol with legacy (pre-whitening) checkpoints",
        "q(u) structure classes x number of inducing points below / above the Lanczos cap (strategy x distribution; no cap cuts a solve short)"] + blabels
    for lab, r in zip(labels, rs):
        ck.add_tlc(r, lab)
    for lab, r in list(zip(labels, rs))[:-len(blabels)]:
        if r.violation:
            ck.model_drift("VariationalQF.tla %s violates %s: %s" % (lab, r.violation["name"], str(r.violation["trace"][:1])[:300]))
        elif r.rc != 0:
            raise tlc.TLCError("TLC failed on VariationalQF %s:\n%s" % (lab, r.stdout[-1500:]))
    for lab, r, want in zip(blabels, rs[-len(blabels):], ("ObservesCurrent", "MixKLOK", "MixKLOK", "MixOK") + ("EObservesCurrent",) * 6 + ("JitSame", "QuConverges")):
        if not r.violation or r.violation["name"] != want:
            ck.vacuous("%s: TLC did not report a violation of %s" % (lab, want))
    # TLC's exact evaluation, validated against the mirror (a mismatch is a machinery failure)
    outs = {}
    for r in rs[:nchunk]:
        if r.violation:
            continue
        for st in r.states():
            o = EX.canon(st["out"])
            outs[tuple(o["id"])] = o
    bymirror = 0
    for i in instances:
        o = outs.get(tuple(i["id"]))
        if o is None:
            if any(r.violation for r in rs[:nchunk]):
                continue
            raise core.Machinery("TLC did not evaluate instance %r" % (i["id"],))
        if o != EX.canon(EX.eval_instance(i)):
            raise core.Machinery("TLC's evaluation of instance %r differs from the Python mirror of the same module" % (i["id"],))
        bymirror += 1
    ck.section("rational_instances", base_pairs=len(pairs), instances=len(instances), validated_against_mirror=bymirror,
               prior_pairs=sum(1 for p in pairs if p["special"]), jitter_pairs=sum(1 for p in pairs if p["j"] > 0))
    if not outs:
        ck.vacuous("no rational instance evaluated")
    cases = []
    # (a)
    std_strats = ["VariationalStrategy", "UnwhitenedVariationalStrategy", "BatchDecoupledVariationalStrategy", "CiqVariationalStrategy"]
    pats = list(itertools.product((0, 1), repeat=3))
    for p in pairs:
        po = {kk: outs.get(tuple(i["id"])) for kk, i in p["insts"].items()}
        if any(v is None for v in po.values()):
            continue
        classes = ["Natural"] if p["dist"] == "nat" else ["TrilNatural"] if p["dist"] == "tril" else [DIST_OF[p["dist"]]]
        pj = jsonable(po)
        for distcls in classes:
            if p["kind"] == "orth":
                for pat in pats:
                    cases.append(dict(kind="rat", strat="OrthogonallyDecoupledVariationalStrategy", distcls=distcls, pat=list(pat), pair=p, outs=pj))
                continue
            for strat in std_strats:
                if strat == "BatchDecoupledVariationalStrategy" and (distcls == "Delta" or p["j"] > 0):
                    continue
                if p["j"] > 0 and strat in ("VariationalStrategy", "CiqVariationalStrategy") and distcls == "MeanField":
                    continue        # whitened parameters of a given q(u) are not diagonal
                if strat == "CiqVariationalStrategy" and distcls == "MeanField":
                    continue
                for pat in pats:
                    if strat == "BatchDecoupledVariationalStrategy" and pat[0]:
                        continue    # its two inducing sets are the pair's two sets
                    if not thorough and strat == "CiqVariationalStrategy" and sum(pat) == 2:
                        continue
                    cases.append(dict(kind="rat", strat=strat, distcls=distcls, pat=list(pat), pair=p, outs=pj))
    n_rat = len(cases)
    # (e)
    mo = {}
    if not rs[nchunk].violation:
        for st in rs[nchunk].states():
            mo[tuple(st["out"]["id"])] = jsonable(st["out"])
    for i in mixes:
        if tuple(i["id"]) in mo:
            cases.append(dict(kind="mix", inst=i, out=mo[tuple(i["id"])]))
    n_mix = len(cases) - n_rat
    if not n_mix:
        ck.vacuous("no mixture instance evaluated")
    # (b) lattice
    lstates = rs[nchunk + 1].states()
    from checks import c14_models as CM
    for st in lstates:
        if jsonable(st["out"]["info"]) != CM.FACTS.get(st["c"]["strat"]):
            raise core.Machinery("the oracle's jitter / coordinate facts for %s differ from StratInfo of VariationalQF.tla" % st["c"]["strat"])
    cells = [dict(jsonable(st["c"]), layout=jsonable(st["out"]["layout"])) for st in lstates]
    cells.sort(key=lambda c: (c["strat"], c["dist"], c["bz"], c["bp"], c["bx"], c["lay"]["Q"], len(c["lay"]["post"]), c["lay"]["post"], c["lay"]["pos"], -c["mv"]))
    if len(cells) < 900:
        ck.vacuous("lattice has only %d cells" % len(cells))
    for mv in (0, -1, -2):
        if not any(c["strat"] == "BatchDecoupledVariationalStrategy" and c["mv"] == mv for c in cells):
            ck.vacuous("lattice: no cell of BatchDecoupledVariationalStrategy with mean_var_batch_dim %s" % (mv or None))
    for w in WRAPPERS:
        for ld in (-1, -2, -3):
            for szs in ("eq", "ne"):
                if not any(c["strat"] == w and c["layout"]["ld"] == ld and (ld == -1 or c["lay"]["post"][0] == szs) for c in cells):
                    ck.vacuous("lattice: no cell of %s with the latent / task dimension at %d and %s batch sizes" % (w, ld, szs))
    lat = lattice_cfgs(cells, ck.seed, thorough)
    for cfg in lat:
        cases.append(dict(kind="seed", cfg=cfg))
    # extra cells: inputs equal to the inducing points (unwhitened shortcut), inputs at grid nodes
    extra = 0
    for n, dist in enumerate(("Cholesky", "MeanField", "Natural", "TrilNatural")):
        for bp in ([], [2]):
            cases.append(dict(kind="seed", cfg=dict(strat="UnwhitenedVariationalStrategy", dist=dist, bz=[], bp=bp, bx=[], kernel="rbf", jitter=None,
                                                    seed=ck.seed * 1000 + 500 + n, x_is_z=True)))
            cases.append(dict(kind="seed", cfg=dict(strat="GridInterpolationVariationalStrategy", dist=dist, bz=[], bp=bp, bx=[], kernel="matern25", jitter=None,
                                                    seed=ck.seed * 1000 + 600 + n, grid_size=8, grid_bounds=[[-1.0, 1.0]], x_at_nodes=[2, 4, 5], ls=0.35)))
            # grids over two input dimensions with different extents: the order of the inducing points matters (dimension 0 slowest in the
            # interpolation's enumeration) - nodes that differ in one coordinate only, in the other only, in both
            cases.append(dict(kind="seed", cfg=dict(strat="GridInterpolationVariationalStrategy", dist=dist, bz=[], bp=bp, bx=[], kernel="matern25", jitter=None,
                                                    seed=ck.seed * 1000 + 650 + n, grid_size=5, grid_bounds=[[-1.0, 1.0], [0.0, 3.0]], x_at_nodes=[1, 5, 8, 17, 23], ls=0.6, d=2)))
            extra += 3
    # (d)
    n_same = 0
    for n, (dist, bz, bp, bx) in enumerate(itertools.product(("Cholesky", "MeanField", "Delta", "Natural", "TrilNatural"), ([], [2]), ([], [2]), ([], [2]))):
        if thorough or (n % 3 == 0):
            cases.append(dict(kind="same", cfg=dict(strat="VariationalStrategy", dist=dist, bz=bz, bp=bp, bx=bx, kernel=["rbf", "matern25"][n % 2],
                                                    jitter=[None, 0.02][(n // 2) % 2], seed=ck.seed * 1000 + 700 + n)))
            n_same += 1
    # (c) histories
    hists = set()
    for st in rs[nchunk + 2].states():
        h = tuple(e["a"] for e in st["out"])
        if len(h) == L and "OptStep" in h and h[-1] != "OptStep" and h[0] == "Forward":
            # drop histories that differ only by trailing structure already covered: keep those with an observation after every step
            hists.add(h)
    must = ("Forward", "OptStep", "Forward", "OptStep", "Forward")
    if not any(h[:5] == must for h in hists):
        ck.vacuous("the history forward, step, forward, step, forward was not generated")
    for a in ("Forward", "KL", "OptStep"):
        if not any(a in h for h in hists):
            ck.vacuous("action %s never taken in the generated histories" % a)
    hists = sorted(hists)
    hcells = [c for c in cells if not c["bz"] and not c["bp"] and not c["bx"] and not c["lay"]["post"] and not c["lay"]["pos"]]
    n_hist = 0
    for n, c in enumerate(hcells):
        pick = hists if thorough else [h for q, h in enumerate(hists) if h[:5] == must or (q + n) % 9 == 0]
        for hn, h in enumerate(pick):
            cfg = [x for x in lattice_cfgs([c], ck.seed + 1 + hn, False) if x.get("task_indices") is None][0]
            cfg["kernel"] = ["rbf", "matern25", "matern15"][(n + hn) % 3]
            if c["strat"] != "GridInterpolationVariationalStrategy":
                cfg["jitter"] = [None, 0.03][(n + hn) % 2]
            cases.append(dict(kind="hist", cfg=cfg, hist=list(h)))
            n_hist += 1
    # (f) code paths x evaluation-mode histories
    pstates = rs[nchunk + 3].states()
    pcells = sorted((dict(jsonable(st["c"]), info=jsonable(st["out"])) for st in pstates), key=lambda c: (c["strat"], c["dist"], c["base"], c["path"]))
    if {c["path"] for c in pcells} != set(PATHS):
        raise core.Machinery("the paths of VariationalQF.tla %s differ from the settings the replay knows %s" % (sorted({c["path"] for c in pcells}), PATHS))
    for sname in STRATS_ALL:
        for pth in PATHS:
            if not any(c["strat"] == sname and c["path"] == pth for c in pcells):
                ck.vacuous("paths: no cell of %s under path %s" % (sname, pth))
    ehists = set()
    for st in rs[nchunk + 4].states():
        h = tuple((e["a"], bool(e["flag"]), int(e["xs"])) for e in st["out"])
        acts = [x[0] for x in h]
        if len(h) == EL and acts[-1] == "Predict" and ("OptStep" in acts or "LoadState" in acts or any(x[2] == 2 for x in h)):
            ehists.add(h)
    ehists = sorted(ehists)
    P, P2, Pd, Pd2 = ("Predict", True, 1), ("Predict", True, 2), ("Predict", False, 1), ("Predict", False, 2)
    TT, TE, OS, LS = ("ToTrain", False, 0), ("ToEval", False, 0), ("OptStep", False, 0), ("LoadState", False, 0)
    TCs, TCf = ("TrainCall", True, 1), ("TrainCall", False, 1)
    # histories every cell is taken through: train-more through the early return / through the whole forward / without a call, and loads,
    # each followed by a prediction under the same path on the same and on the other inputs; other inputs without a change
    must_prefixes = [(P, TT, TCs, OS, TE, P), (P, TT, TCf, OS, TE, P2), (P, LS, P, LS, Pd, P2), (P, TT, OS, TCs, TE, P), (P, TT, OS, TE, P2, Pd2),
                     (P, P2, P, LS, P2, P)]
    musts = []
    for mp in must_prefixes:
        hit = [h for h in ehists if h[:len(mp)] == mp]
        if not hit:
            ck.vacuous("evaluation-mode protocol: no generated history starts with %s" % (mp,))
        else:
            musts.append(hit[0])
    if len(musts) != len(must_prefixes):
        raise core.Machinery("evaluation-mode protocol: required histories were not generated")
    for a in ("Predict", "ToTrain", "ToEval", "TrainCall", "OptStep", "LoadState"):
        if not any(a in [x[0] for x in h[1:]] for h in ehists):
            ck.vacuous("evaluation-mode protocol: action %s never taken" % a)
    rest = [h for h in ehists if h not in musts]
    n_eh = 0
    for n, pc in enumerate(pcells):
        cands = [c for c in hcells if c["strat"] == pc["strat"] and c["dist"] == pc["dist"]]
        if pc["strat"] == "BatchDecoupledVariationalStrategy":
            cands = [c for c in cands if c["mv"] == (0, -1)[n % 2]]
        if not cands:
            raise core.Machinery("paths: no lattice cell for %r" % (pc,))
        if thorough:
            pick = musts + [h for q, h in enumerate(rest) if (q + n) % 100 == 0]
        else:
            # the two histories of the missed change for every cell; the other required ones (other inputs, whole forward, ...) and the remaining
            # histories rotate over the cells (5 distributions / 2 bases per strategy x path)
            rot = [musts[1], musts[5], musts[3], rest[(n * 37) % len(rest)], musts[4], rest[(n * 37 + 11) % len(rest)]]
            pick = [musts[0], musts[2], rot[n % 6], rot[(n + 1) % 6]]
        seen = set()
        for hn, h in enumerate(pick):
            if pc["path"] == "default":                                     # the path of the cell IS the default: one kind of prediction
                h = tuple((a, True, xs) if a == "Predict" else (a, f, xs) for a, f, xs in h)
            if h in seen:
                continue
            seen.add(h)
            cfg = [x for x in lattice_cfgs([cands[0]], ck.seed + 11 + n + hn, False) if x.get("task_indices") is None][0]
            cfg["kernel"] = ["rbf", "matern25", "matern15"][(n + hn) % 3]
            if pc["strat"] != "GridInterpolationVariationalStrategy":
                cfg["jitter"] = [None, 0.03][(n // 7 + hn) % 2]
            if pc["base"] != "none":
                cfg["base"] = pc["base"]
            cfg["path"] = pc["path"]
            cases.append(dict(kind="ehist", cfg=cfg, hist=[list(x) for x in h], pinfo=pc["info"]))
            n_eh += 1
    # (b') jitter_val as a constructor argument: every strategy x argument class of TLC's part "jit" on the unbatched cell, distributions rotating
    jstates = rs[nchunk + 5].states() if not rs[nchunk + 5].violation else []
    jcells = sorted((dict(jsonable(st["c"]), info=jsonable(st["out"])) for st in jstates), key=lambda c: (c["strat"], JARGS.index(c["jarg"]) if c["jarg"] in JARGS else -1))
    if {c["jarg"] for c in jcells} != set(JARGS) or set(CM.JIT_VALUES) != set(JARGS):
        raise core.Machinery("JitArgs of VariationalQF.tla %s differ from the argument classes the replay knows %s" % (sorted({c["jarg"] for c in jcells}), JARGS))
    n_jit = 0
    for n, jc in enumerate(jcells):
        eff = CM.jit(dict(jitter=CM.JIT_VALUES[jc["jarg"]]))
        if (jc["info"]["eff"] == "dflt") != (eff == CM.DEFAULT_JITTER) or jc["info"]["explicit"] != (CM.JIT_VALUES[jc["jarg"]] is not None):
            raise core.Machinery("the oracle's effective jitter for %r differs from JitInfo of VariationalQF.tla" % (jc,))
        if jc["strat"] == "GridInterpolationVariationalStrategy":
            continue                                                       # has no jitter_val argument
        cands = [c for c in hcells if c["strat"] == jc["strat"] and (c["mv"] == 0 or jc["strat"] != "BatchDecoupledVariationalStrategy")]
        cands = [c for c in cands if c["dist"] != "Delta" or jc["strat"] != "BatchDecoupledVariationalStrategy"]
        for r in range(2 if thorough else 1):
            c = cands[(n + r) % len(cands)]
            for cfg in [x for x in lattice_cfgs([c], ck.seed + 21 + n + r, False) if x.get("task_indices") is None][:1]:
                cfg["jitter"] = CM.JIT_VALUES[jc["jarg"]]
                cfg["jarg"] = jc["jarg"]
                cases.append(dict(kind="seed", cfg=cfg))
                n_jit += 1
    if n_jit < 30:
        ck.vacuous("jitter_val: only %d strategy x argument-class configurations" % n_jit)
    # (g) legacy checkpoints: distribution x batch pattern (the parameters carry the batch shape of the inducing points) x argument class x mode of the first call
    n_leg = 0
    lpats = [(bz, bp, bx) for bz, bp in (([], []), ([], [2]), ([2], [2])) for bx in ([], [2])]
    for n, (dist, (bz, bp, bx)) in enumerate(itertools.product(CM.LEGACY_DISTS, lpats)):
        for r in range(len(JARGS) if thorough else 2):
            jarg = JARGS[(n + (r if thorough else 3 * r + 2)) % len(JARGS)]              # quick: two classes per cell, two apart
            cases.append(dict(kind="legacy", cfg=dict(strat="VariationalStrategy", dist=dist, bz=bz, bp=bp, bx=bx, kernel=["rbf", "matern25", "matern15"][(n + r) % 3],
                                                      jitter=CM.JIT_VALUES[jarg], jarg=jarg, first=("eval", "train")[(n + r) % 2], seed=ck.seed * 1000 + 800 + 7 * n + r)))
            n_leg += 1
    # (f') legacy checkpoints along histories of the evaluation-mode protocol, on every path cell that contains a VariationalStrategy
    lhists = set()
    if not rs[nchunk + 6].violation:
        for st in rs[nchunk + 6].states():
            h = tuple((e["a"], bool(e["flag"]), int(e["xs"])) for e in st["out"])
            acts = [x[0] for x in h]
            if len(h) == EL and "LoadLegacy" in acts and acts[-1] in ("Predict", "TrainCall") and acts[-1] != "LoadLegacy":
                lhists.add(h)
    lhists = sorted(lhists)
    LL = ("LoadLegacy", False, 0)
    lmust_prefixes = [(P, LL, P, P2), (P, LL, Pd2, P), (P, TT, LL, TCf, TE, P), (P, TT, LL, TCs, TE, P2), (P, LL, LS, P), (P, TT, LL, OS, TE, P), (P, LL, P, LL, P2),
                      (P, LS, LL, P)]
    lmusts = []
    for mp in lmust_prefixes:
        hit = [h for h in lhists if h[:len(mp)] == mp]
        if not hit:
            ck.vacuous("legacy checkpoints: no generated history starts with %s" % (mp,))
        else:
            lmusts.append(hit[0])
    if len(lmusts) != len(lmust_prefixes):
        raise core.Machinery("legacy checkpoints: required histories were not generated")
    lrest = [h for h in lhists if h not in lmusts]
    n_leh = 0
    lcells = [pc for pc in pcells if (pc["strat"] == "VariationalStrategy" or pc["base"] == "VariationalStrategy") and pc["dist"] in CM.LEGACY_DISTS]
    if not lcells or {pc["strat"] for pc in lcells} != {"VariationalStrategy", "OrthogonallyDecoupledVariationalStrategy"} | set(WRAPPERS):
        ck.vacuous("legacy checkpoints: the path cells that contain a VariationalStrategy are %s" % sorted({pc["strat"] for pc in lcells}))
    for n, pc in enumerate(lcells):
        cands = [c for c in hcells if c["strat"] == pc["strat"] and c["dist"] == pc["dist"]]
        if thorough:
            pick = lmusts + [h for q, h in enumerate(lrest) if (q + n) % 800 == 0]
        else:
            pick = [lmusts[n % len(lmusts)], (lmusts + lrest[(n * 53) % len(lrest):][:1])[(n + 3) % (len(lmusts) + 1)]]
        for hn, h in enumerate(pick):
            if pc["path"] == "default":
                h = tuple((a, True, xs) if a == "Predict" else (a, f, xs) for a, f, xs in h)
            cfg = [x for x in lattice_cfgs([cands[0]], ck.seed + 31 + n + hn, False) if x.get("task_indices") is None][0]
            cfg["kernel"] = ["rbf", "matern25", "matern15"][(n + hn) % 3]
            jarg = ("large", "small", "zero", "none", "dflt")[(n + hn) % 5]
            cfg.update(jitter=CM.JIT_VALUES[jarg], jarg=jarg, path=pc["path"])
            if pc["base"] != "none":
                cfg["base"] = pc["base"]
            cases.append(dict(kind="ehist", cfg=cfg, hist=[list(x) for x in h], pinfo=pc["info"]))
            n_leh += 1
    # (h) structure / conditioning of q(u) x number of inducing points relative to the solver caps, every strategy x distribution (TLC's part "qu")
    import linear_operator
    if (linear_operator.settings.max_lanczos_quadrature_iterations.value() != QU_CAPS["lanczos"] or linear_operator.settings.max_cg_iterations.value() > QU_CAPS["cg"]):
        raise core.Machinery("qu: the library's default iteration caps differ from QuCaps of VariationalQF.tla")
    qstates = rs[nchunk + 7].states() if not rs[nchunk + 7].violation else []
    qcells = sorted((dict(jsonable(st["c"]), M=int(st["out"]["M"]), tol=st["out"]["tol"], solves=sorted((dict(v) for v in st["out"]["solves"]), key=lambda v: v["site"]))
                     for st in qstates), key=lambda c: (c["strat"], c["dist"], CM.QU_CLASSES.index(c["qclass"]), c["msize"]))
    if {c["qclass"] for c in qcells} != set(CM.QU_CLASSES) or {c["msize"] for c in qcells} != set(CM.QU_M):
        raise core.Machinery("qu: QClasses / MSizes of VariationalQF.tla differ from the classes the replay knows")
    for sv in (v for c in qcells for v in c["solves"]):
        if QU_CAPS.get(sv["cap"]) is None or sv["need"] > QU_CAPS[sv["cap"]]:
            raise core.Machinery("qu: solve %r is not covered by the caps of the replay's settings %r" % (sv, QU_CAPS))
    for sname in STRATS_ALL:
        for ms in CM.QU_M:
            for qc in ("nearprior", "ill"):
                if not any(c["strat"] == sname and c["msize"] == ms and c["qclass"] == qc and c["dist"] != "MeanField" for c in qcells):
                    ck.vacuous("qu: no cell of %s with q(u) class %s and M %s the Lanczos cap" % (sname, qc, ms))
    if not any(c["strat"] == "CiqVariationalStrategy" and any(v["site"] == "precision" and v["need"] > QU_CAPS["lanczos"] for v in c["solves"]) for c in qcells):
        ck.vacuous("qu: no cell whose precision solve needs more iterations than the Lanczos cap")
    # quick: the iterative strategy completely, the direct ones on the dense classes at both sizes and the other classes rotating over the sizes
    n_qu = 0
    for n, cfg in enumerate(qu_cfgs(qcells, hcells, ck.seed)):
        if thorough or cfg["strat"] == "CiqVariationalStrategy" or cfg["qu"] == "ill" or (n // 2 + n) % 2 == 0:
            cases.append(dict(kind="seed", cfg=cfg))
            n_qu += 1
    ck.section("replay", qu_cells=len(qcells), qu_configurations=n_qu)
    ck.section("replay", jitter_argument_configurations=n_jit, legacy_checkpoint_configurations=n_leg, legacy_histories=len(lhists), legacy_history_cases=n_leh)
    ck.section("replay", rational_cases=n_rat, mixture_cases=n_mix, lattice_cells=len(cells), seeded_configurations=len(lat) + extra,
               same_qu_configurations=n_same, histories=len(hists), history_cases=n_hist, path_cells=len(pcells), eval_histories=len(ehists),
               eval_history_cases=n_eh)
    ck.extra["observations"] = [
        "UnwhitenedVariationalStrategy.prior_distribution adds add_jitter()'s default 1e-3 and ignores jitter_val, while forward() uses jitter_val: for the same "
        "parameters kl_divergence() in evaluation mode (or before the first training-mode call) differs from kl_divergence() in training mode after a call "
        "(e.g. 1.5207 vs 1.5341 with the default jitter, 1.52 vs 1.02 with jitter_val=0.05); accepted here under the per-call-site reading of the jitter (assumption 1)"]
    ck.exhaustive = False          # the discrete dimensions below are enumerated completely, the numeric dimension is sampled
    ck.extra["exhaustive_parts"] = dict(lattice="all %d valid cells of strategy x distribution x batch shapes in {(), (2,)}^3 x (multitask wrappers) position of the latent / "
                                                "task dimension in {-1, -2, -3} x sizes of the dimensions behind it {equal to, different from} the number of latents x Q in {2, 3} "
                                                "against a leading dimension of size 2 x (independent wrapper) negative / non-negative task_dim" % len(cells),
                         paths="all %d cells of strategy x distribution x base strategy x code path; the %d evaluation-mode histories of length %d ending in a prediction are "
                               "sampled per cell (quick: 2 required + 2 rotating over the 4 other required ones and the rest; thorough: 6 required + every 100th of the rest, rotating)" % (len(pcells), len(ehists), EL),
                         jitter="all %d cells of strategy x jitter_val argument class (VariationalQF.tla JitArgs); legacy checkpoints: the %d histories of length %d of the "
                                "protocol machine that contain a LoadLegacy and end in an observation are sampled per path cell containing a VariationalStrategy "
                                "(quick: 2 per cell rotating over 8 required shapes and the rest; thorough: the 8 required + every 800th of the rest)" % (len(jcells), len(lhists), EL),
                         histories="all %d training-mode histories of length %d over {Forward, KL, OptStep} that start with a call, contain a step and end with an observation" % (len(hists), L))
    items = [cases[q:q + 6] for q in range(0, len(cases), 6)]
    rnd.shuffle(items)
    results = core.pmap(_worker, items, chunksize=1)
    # replay files are kept for the first violations only: failures outside the diagnosed deviations go first
    rank, seen = {}, {}
    for n, r in enumerate(results):
        if not r.get("ok", True):
            seen[r["sig"]] = seen.get(r["sig"], 0) + 1
            rank[n] = seen[r["sig"]]
    order = sorted(range(len(results)), key=lambda n: (results[n].get("ok", True), results[n].get("sig") in DIAGNOSED, rank.get(n, 0), results[n].get("sig") or ""))
    results = [results[n] for n in order]
    ck.absorb(results)
    ck.section("replay", comparisons=len(results))


def replay(rep):
    core.setup_torch()
    bad = [r for r in run_case(rep["case"]) if not r["ok"]]
    for r in bad:
        print("VIOLATION property=C14 replay=- :: %s :: %s" % (r["sig"], r["detail"]))
    if not bad:
        print("replay passed")
    return 1 if bad else 0
