"""C03, code -> spec: cache events recorded during the replays (live model only: the oracle's fresh models are the
harness's own activity) and during a selection of the repository's tests, validated against CacheTrace.tla."""
from harness import core, record, tracecheck

REPO_TESTS_QUICK = ["test/examples/test_simple_gp_regression.py", "test/examples/test_sgpr_regression.py", "test/models/test_exact_gp.py"]
REPO_TESTS_THOROUGH = REPO_TESTS_QUICK + ["test/examples/test_kissgp_gp_regression.py", "test/examples/test_svgp_gp_regression.py",
                                          "test/examples/test_fixed_noise_fanatasy_updates.py", "test/examples/test_model_list_gp_regression.py",
                                          "test/models/test_variational_gp.py", "test/examples/test_missing_data.py"]
CACHE_EVS = {"params_changed", "m_load_state_dict", "set_train_data", "c_fill", "c_hit", "c_clear", "c_pop", "ps_create", "ps_reuse", "ps_clear"}


def strip_oracle(events):
    out, depth = [], 0
    for e in events:
        if e["ev"] == "oracle_begin":
            depth += 1
        elif e["ev"] == "oracle_end":
            depth -= 1
        elif depth == 0 and e["ev"] in CACHE_EVS:
            out.append({k: v for k, v in e.items() if k in ("ev", "owner", "cls", "name")} | {"cls": e.get("cls", "")})
    return out


def split_tests(events, maxlen=3000):
    """repository traces: one trace per test (test_begin markers from the pytest plugin); long ones are kept whole"""
    out, cur = [], []
    for e in events:
        if e["ev"] == "test_begin":
            if cur:
                out.append(cur)
            cur = []
        elif e["ev"] in CACHE_EVS:
            if e["ev"] == "params_changed":
                continue  # optimizer steps of other models in the same test would over-approximate: per-owner clauses only
            cur.append({k: v for k, v in e.items() if k in ("ev", "owner", "cls", "name")} | {"cls": e.get("cls", "")})
    if cur:
        out.append(cur)
    return [t for t in out if t]


def validate(ck, traces):
    thorough = ck.tier == "thorough"
    tr = [strip_oracle(t) for t in traces]
    tr = [t for t in tr if t]
    n_replay = len(tr)
    events, summary = record.record_tests(REPO_TESTS_THOROUGH if thorough else REPO_TESTS_QUICK, "C03/rec")
    rt = split_tests(events)
    tr += rt
    if sum(len(t) for t in rt) < 100:
        ck.vacuous("only %d cache events recorded from the repository's tests" % sum(len(t) for t in rt))
    res, verdicts = tracecheck.validate("CacheTrace", "CacheTrace.cfg", tr, "C03/trace", workers=8)
    ck.add_tlc(res, "CacheTrace")
    ck.traces_validated += len(tr)
    nbad = 0
    hits = sum(1 for t in tr for e in t if e["ev"] in ("c_hit", "ps_reuse"))
    for i, v in enumerate(verdicts):
        for b in v["bad"]:
            nbad += 1
            src = "replay" if i < n_replay else "repo-tests"
            ck.violation("C03/trace/%s/%s/%s" % (b["clause"], b["cls"], b["name"]),
                         "recorded execution (%s): event %d is a %s on %s.%s filled/created before the latest invalidating operation" % (
                             src, b["l"], tr[i][b["l"] - 1]["ev"], b["cls"], b["name"]),
                         dict(trace=tr[i][max(0, b["l"] - 40):b["l"]], source=src))
    ck.section("trace", traces=len(tr), from_replays=n_replay, from_repo_tests=len(rt), events=sum(len(t) for t in tr), hits_checked=hits,
               failed_clauses=nbad, pytest=summary)
    if hits == 0:
        ck.vacuous("no cache hit in any validated trace")
