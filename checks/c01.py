"""C01 - exact GP posterior equals the closed-form Gaussian conditional on every path the settings can select.
Spec: ExactPosterior.tla (settings lattice incl. the global switches that select nothing -> path; exact rational path formulas = conditional;
accuracy knobs; histories of predictions on one model: kernel-object state, call-time keywords, set_train_data - c01_hist.py)."""
import itertools
import math
import os
import random
from fractions import Fraction

from harness import core, tlc
from checks.c04 import tla
from checks import c01_knobs
from checks import c01_hist

LEVEL = "model_checking"
PID = "C01"


def write_mc(workdir, name, part, instances=(), maxoff=1, histlen=2, kw=("none", "forward", "call"), sites=("covar", "noise"), restore=True, slicekeeps=True,
             setdata=("set-targets", "set-data", "load-state"), secondnoise="filtered",
             invariants=("LatticeOK", "AlgebraOK", "KnobsOK", "HistoryOK", "KernelRestored", "NoiseOK")):
    os.makedirs(workdir, exist_ok=True)
    mod = "MC_ExactPosterior_" + name
    with open(os.path.join(workdir, mod + ".tla"), "w") as f:
        f.write("---- MODULE %s ----\nEXTENDS ExactPosterior\nInstDef == {%s}\n====\n" % (mod, ",\n  ".join(tla(i) for i in instances)))
    cfg = os.path.join(workdir, mod + ".cfg")
    tlc.write_cfg(cfg, spec="Spec", constants={"Part": part, "Instances": "<- InstDef", "MaxOff": maxoff, "HistLen": histlen, "HistKw": set(kw), "HistSites": set(sites),
                                               "RestoreAlways": bool(restore), "SliceKeepsParams": bool(slicekeeps), "SetDataClears": set(setdata), "SecondNoise": secondnoise}, invariants=list(invariants))
    return os.path.join(workdir, mod + ".tla"), cfg


# deliberately broken variants of the history machine: TLC must reject each (OnePrior is not vacuous)
BROKEN = {"active_dims-restored-only-under-debug": dict(restore=False), "slicing-drops-call-time-keywords": dict(slicekeeps=False),
          "targets-only-set_train_data-keeps-the-strategy": dict(setdata=("set-data", "load-state")),
          "load_state_dict-keeps-the-strategy": dict(setdata=("set-targets", "set-data"))}
# deliberately broken variants of the observation-noise transcription (part "noise"): TLC must reject each (NoiseOK is not vacuous)
BROKEN_NOISE = {"learned-noise-sees-the-call-time-noise": "sees-noise", "learned-noise-skipped-when-a-call-time-noise-is-given": "early-return"}
LIN_KINDS = ("homoskedastic", "fixed", "fixed-learned")


DET_MAX = 100


def det_bound(inst):
    """TLC's integers are 32 bit and Rational.tla multiplies denominators: keep det(Kxx + S) - the denominator of every entry of the conditional - small"""
    n = len(inst["X"])
    S = [inst["s2"] if inst["lk"] != "fixed" else 0] * n
    if inst["lk"] != "homoskedastic":
        S = [a + b for a, b in zip(S, inst["tr"])]
    A = [[Fraction(sum(a * b for a, b in zip(inst["X"][i], inst["X"][j])) + (S[i] if i == j else 0)) for j in range(n)] for i in range(n)]
    det = Fraction(1)
    for k in range(n):          # Gaussian elimination (A is positive definite)
        det *= A[k][k]
        for i in range(k + 1, n):
            f = A[i][k] / A[k][k]
            A[i] = [x - f * y for x, y in zip(A[i], A[k])]
    return det <= DET_MAX


def gen_instances(rnd, n_lin, n_root):
    out, seen = [], set()
    while len(out) < n_lin:
        n, ns = rnd.choice([(1, 1), (2, 1), (2, 2), (3, 1), (3, 2)])
        # noise cell: likelihood kind x call-time noise (none / one value per test point) x size class (ns = n or not), rotating; the stored noise in
        # 1..3, the call-time noise in 4..6, sigma2 / the learned second noise in 1..2: no two terms of the noise take the same value
        lk, call = LIN_KINDS[len(out) % 3], (len(out) // 3) % 2 == 1
        inst = dict(kind="lin", X=[[rnd.randint(-2, 2), rnd.randint(-2, 2)] for _ in range(n)], Xs=[[rnd.randint(-2, 2), rnd.randint(-2, 2)] for _ in range(ns)],
                    mc=rnd.randint(-1, 1), s2=rnd.choice([1, 2]), y=[rnd.randint(-2, 2) for _ in range(n)],
                    lk=lk, tr=[rnd.randint(1, 3) for _ in range(n)], te=[rnd.randint(4, 6) for _ in range(ns)] if call else [])
        if repr(inst) not in seen and det_bound(inst):
            seen.add(repr(inst))
            out.append(inst)
    k = 0
    while k < n_root:
        n, ns = rnd.choice([(2, 1), (2, 2), (3, 1)])
        L = [[(rnd.randint(1, 2) if i == j else (rnd.randint(-1, 1) if j < i else 0)) for j in range(n)] for i in range(n)]
        inst = dict(kind="root", L=L, Ksx=[[rnd.randint(-1, 1) for _ in range(n)] for _ in range(ns)], mc=rnd.randint(-1, 1), s2=1, y=[rnd.randint(-2, 2) for _ in range(n)])
        if repr(inst) not in seen:
            seen.add(repr(inst))
            out.append(inst)
            k += 1
    return out


def rat(v):
    return float(Fraction(int(v[0]), int(v[1])))


# ---------------------------------------------------------------------------------------------
def cell_contexts(settings, cell, n_joint):
    """the real settings of a lattice cell"""
    cms = [settings.lazily_evaluate_kernels(bool(cell["lazy"])),
           settings.max_eager_kernel_size(10 ** 6 if cell["eager"] else 1),
           settings.fast_pred_var(bool(cell["fpv"])),
           settings.detach_test_caches(bool(cell["detach"])),
           settings.skip_posterior_variances(bool(cell["skipvar"]))]
    cms += c01_hist.switch_contexts(settings, cell.get("sw", "none"))
    chol, cholroot = bool(cell["chol"]), bool(cell["cholroot"])
    if chol and cholroot:
        pass  # sizes far below max_cholesky_size: Cholesky everywhere
    else:
        cms += [settings.max_cholesky_size(0),
                settings.fast_computations(solves=not chol, covar_root_decomposition=not cholroot, log_prob=True),
                settings.eval_cg_tolerance(1e-12), settings.cg_tolerance(1e-12), settings.max_cg_iterations(2000),
                settings.max_root_decomposition_size(max(100, 2 * n_joint)), settings.max_preconditioner_size(0),
                settings.max_lanczos_quadrature_iterations(max(100, 2 * n_joint))]
    return cms


def tolerance(cell):
    if cell["chol"] and (cell["cholroot"] or not cell["fpv"] or cell["skipvar"]):
        return 1e-7, 1e-9
    return 2e-5, 2e-7          # exact algorithms run iteratively (CG at 1e-12, Lanczos at full rank)


FLAGS = ("lazy", "eager", "chol", "fpv", "cholroot", "detach", "skipvar")


def cell_name(cell):
    return "".join(k[0].upper() if cell[k] else k[0].lower() for k in FLAGS) + ("" if cell.get("sw", "none") == "none" else "+" + cell["sw"])


def predict(torch, settings, model, lik, xs, cell, n_joint, lik_kwargs=None):
    from contextlib import ExitStack
    with ExitStack() as st:
        for cm in cell_contexts(settings, cell, n_joint):
            st.enter_context(cm)
        post = model(xs)
        mean = post.mean.detach().clone()
        cov = post.covariance_matrix.detach().clone()
        var = post.variance.detach().clone()
        marg = lik(post, **(lik_kwargs or {}))
        mcov = marg.covariance_matrix.detach().clone()
        mmean = marg.mean.detach().clone()
    return mean, cov, var, mmean, mcov


def compare(torch, res, desc, cell, got, want, sigbase, cg_floor=(0.0, 0.0)):
    """got = (mean, cov, var, marg mean, marg cov); want = (mean, cov, marg cov); cg_floor = absolute (mean, covariance) allowance for
    CG's own floor on systems it cannot finish within its minimum of 10 iterations"""
    rt, at = tolerance(cell)
    mean, cov, var, mmean, mcov = got
    wm, wc, wmc = want
    if cell["skipvar"]:
        wc = torch.zeros_like(wc)
        wmc = wmc - want[1]          # zero posterior covariance + the noise
    ok, why = core.close(mean.reshape(wm.shape), wm, rt, at + cg_floor[0])
    if not ok:
        return res.update(ok=False, sig=sigbase + "/mean", detail="%s: posterior mean differs from the Gaussian conditional: %s" % (desc, why))
    at = at + cg_floor[1]
    ok, why = core.close(cov.reshape(wc.shape), wc, rt, at)
    if not ok:
        return res.update(ok=False, sig=sigbase + "/covariance", detail="%s: posterior covariance differs from the Gaussian conditional: %s" % (desc, why))
    dg = torch.diagonal(wc, dim1=-1, dim2=-2)
    if not cell["skipvar"]:
        ok, why = core.close(var.reshape(dg.shape), dg.clamp_min(0), rt, at * 10)
        if not ok:
            return res.update(ok=False, sig=sigbase + "/variance", detail="%s: variance differs from the diagonal of the conditional covariance: %s" % (desc, why))
    ok, why = core.close(mmean.reshape(wm.shape), wm, rt, at + cg_floor[0])
    ok2, why2 = core.close(mcov.reshape(wmc.shape), wmc, rt, at)
    if not (ok and ok2):
        return res.update(ok=False, sig=sigbase + "/likelihood-noise", detail="%s: likelihood(posterior) is not posterior + observation noise: %s %s" % (desc, why, why2))


def _worker(item):
    torch = core.setup_torch()
    import gpytorch
    from gpytorch import settings
    out = []
    for c in item["cases"]:
        if c["level"] == "L1":
            out.append(run_l1(torch, gpytorch, settings, c))
        elif c["level"] == "L3":
            out.append(c01_knobs.run_l3(torch, gpytorch, settings, c))
        elif c["level"] == "L4":
            out.append(c01_hist.run_l4(torch, gpytorch, settings, c))
        else:
            out.append(run_l2(torch, gpytorch, settings, c))
    return out


# one defect, one signature: the warned no-op of a fixed-noise likelihood (no call-time noise, size differs from the stored noise) raises when the
# posterior covariance is the ZeroLinearOperator of skip_posterior_variances (findings/C01/fixed_noise_noop_skip_variances.py)
NOOP_SKIPVAR_SIG = "C01/noise/fixed,noise=-,test-size/skip_posterior_variances/raises"


def raises_sig(sig, kind, supply, size, cell):
    return NOOP_SKIPVAR_SIG if (kind, supply, size) == ("fixed", "none", "test") and cell["skipvar"] else sig + "/raises"


def noise_cell_name(kind, supply, size):
    return "%s,noise=%s,%s-size" % (kind, "t" if supply == "call" else "-", size)


def hand_noise_terms(torch, terms, m, lead, sigma2=None, second=None, t=None, stored=None, sigma_t=None):
    """the documented observation noise of a cell (ExactPosterior.tla DocNoise: a set of terms), written out densely on m points:
    sigma2 / second: the parameter values (... x 1), t / stored: per-point values (... x m), sigma_t: the T x T task noise covariance"""
    D = torch.float64
    T = 1 if sigma_t is None else sigma_t.shape[-1]
    S = torch.zeros(*lead, m * T, m * T, dtype=D)
    eye = torch.eye(m, dtype=D)
    for x in sorted(terms):
        if x == "sigma2*I":
            S = S + sigma2.reshape(*sigma2.shape[:-1], 1, 1) * eye
        elif x == "second*I":
            S = S + second.reshape(*second.shape[:-1], 1, 1) * eye
        elif x == "diag(t)":
            S = S + torch.diag_embed(t)
        elif x == "diag(stored)":
            S = S + torch.diag_embed(stored)
        elif x == "I(x)Sigma_T":
            S = S + torch.kron(eye, sigma_t)          # interleaved layout: points major, tasks minor
        else:
            raise core.Machinery("unknown noise term %r" % (x,))
    return S


def run_l1(torch, gpytorch, settings, c):
    inst, cell, exp = c["inst"], c["cell"], c["exp"]
    D = torch.float64
    X = torch.tensor(inst["X"], dtype=D)
    Xs = torch.tensor(inst["Xs"], dtype=D)
    y = torch.tensor(inst["y"], dtype=D)
    lk, te = inst["lk"], inst["te"]
    ncell = noise_cell_name(lk, "call" if te else "none", "train" if len(inst["Xs"]) == len(inst["X"]) else "test")
    desc = "rational instance X=%s Xs=%s y=%s mean=%d likelihood=%s sigma2/second=%d stored=%s t=%s (S* = %s) cell=%s" % (
        inst["X"], inst["Xs"], inst["y"], inst["mc"], lk, inst["s2"], inst["tr"], te or "-", " + ".join(sorted(exp.get("terms", []))) or "0", cell_name(cell))
    res = dict(key=["L1", inst, cell_name(cell)], ok=True, nontrivial=any(not v for k, v in cell.items() if k in ("lazy", "eager", "chol", "cholroot", "detach")) or cell["fpv"] or cell["skipvar"] or cell.get("sw", "none") != "none"
               or lk != "homoskedastic" or bool(te),
               sample=dict(case=desc), case=c)
    if lk == "homoskedastic":
        lik = gpytorch.likelihoods.GaussianLikelihood().to(D)
    else:
        lik = gpytorch.likelihoods.FixedNoiseGaussianLikelihood(noise=torch.tensor(inst["tr"], dtype=D), learn_additional_noise=(lk == "fixed-learned")).to(D)
    lik_kwargs = {"noise": torch.tensor(te, dtype=D)} if te else {}

    class M(gpytorch.models.ExactGP):
        def __init__(s_, x, yy, l):
            super().__init__(x, yy, l)
            s_.mean_module = gpytorch.means.ConstantMean()
            s_.covar_module = gpytorch.kernels.LinearKernel()

        def forward(s_, x):
            return gpytorch.distributions.MultivariateNormal(s_.mean_module(x), s_.covar_module(x))
    model = M(X, y, lik).to(D)
    with torch.no_grad():
        if lk == "homoskedastic":
            lik.noise = float(inst["s2"])
        elif lk == "fixed-learned":
            lik.second_noise = float(inst["s2"])
        model.covar_module.variance = 1.0
        model.mean_module.constant = float(inst["mc"])
    s2_set = float(lik.noise) if lk == "homoskedastic" else float(lik.second_noise) if lk == "fixed-learned" else float(inst["s2"])
    if abs(s2_set - inst["s2"]) > 1e-12 or abs(float(model.covar_module.variance) - 1.0) > 1e-12:
        return dict(machinery="could not set integer hyperparameters exactly")
    model.eval()
    lik.eval()
    wm = torch.tensor([rat(v) for v in exp["mean"]], dtype=D)
    wc = torch.tensor([[rat(v) for v in row] for row in exp["cov"]], dtype=D)
    wmc = torch.tensor([[rat(v) for v in row] for row in exp["marg"]], dtype=D)
    ok, got = core.guarded(lambda: predict(torch, settings, model, lik, Xs, cell, len(inst["X"]) + len(inst["Xs"]), lik_kwargs))
    sig = "C01/L1/%s/%s" % (ncell, PathSig(cell))
    if not ok:
        res.update(ok=False, sig=raises_sig(sig, lk, "call" if te else "none", "train" if len(inst["Xs"]) == len(inst["X"]) else "test", cell), detail="%s: %s" % (desc, got))
        return res
    compare(torch, res, desc, cell, got, (wm, wc, wmc), sig)
    if res["ok"]:
        # the same question again: the answer does not depend on what was asked before
        ok, got = core.guarded(lambda: predict(torch, settings, model, lik, Xs, cell, len(inst["X"]) + len(inst["Xs"]), lik_kwargs))
        if not ok:
            res.update(ok=False, sig=sig + "/second-prediction/raises", detail="%s: second prediction: %s" % (desc, got))
            return res
        compare(torch, res, desc + " (second prediction at the same inputs)", cell, got, (wm, wc, wmc), sig + "/second-prediction")
    return res


def PathSig(cell):
    solve = "chol" if cell["chol"] else "cg"
    cov = "zero" if cell["skipvar"] else ("root-" + ("chol" if cell["cholroot"] else "lanczos") if cell["fpv"] else "direct")
    sw = "" if cell.get("sw", "none") == "none" else "/sw:" + cell["sw"]
    return "%s-%s/%s/%s/%s%s" % ("lazy" if cell["lazy"] else "evaluated", "dense" if cell["eager"] else "lazyslice", solve, cov, "detached" if cell["detach"] else "attached", sw)


def run_l2(torch, gpytorch, settings, c):
    D = torch.float64
    cell, fam, shape, seed = c["cell"], c["fam"], c["shape"], c["seed"]
    g = torch.Generator().manual_seed(seed)
    torch.manual_seed(seed)      # multitask kernels / likelihoods initialise their factors (and Lanczos its probe) from the global generator
    K = gpytorch.kernels
    mb = tuple(shape.get("model_batch", ()))
    tb = tuple(shape.get("test_batch", ()))
    n, d, ns = shape["n"], shape["d"], shape.get("ns", 3)
    # noise cell of the FIRST prediction (ExactPosterior.tla part noise): call-time noise or none, as many test as training points or not;
    # the second prediction has one more test point and the same supply; S* of either is built by hand from the spec's DocNoise table
    supply, doc = c["supply"], c["doc"]
    kind = {"gaussian": "homoskedastic", "fixed": "fixed", "fixedlearn": "fixed-learned", "mtask": "multitask"}[fam["lik"]]
    fixedkind = fam["lik"] in ("fixed", "fixedlearn")
    if c["size"] == "train":
        ns = n
    elif ns == n:
        ns = n - 1
    tree = c01_hist.TREES[fam["kernel"][5:]] if fam["kernel"].startswith("tree:") else None
    kw = bool(tree) and c01_hist.tree_class(tree)[1]        # the model's forward passes a call-time keyword to its kernel
    if tree:
        d = c01_hist.D_COLS                                  # kernels with active_dims: always multi-column inputs
    tasks = 2 if fam["lik"] == "mtask" else 0
    X = torch.rand(*mb, n, d, generator=g, dtype=D) * 2 - 1
    Xs = torch.rand(*(tb or mb), ns, d, generator=g, dtype=D) * 2 - 1
    ysh = (*mb, n, tasks) if tasks else (*mb, n)
    y = torch.randn(*ysh, generator=g, dtype=D)
    desc = "%s/%s/%s n=%d ns=%d d=%d model_batch=%s test_batch=%s noise=%s cell=%s seed=%d" % (fam["kernel"], fam["mean"], fam["lik"], n, ns, d, list(mb), list(tb),
                                                                                         "t" if supply == "call" else "-", cell_name(cell), seed)
    res = dict(key=["L2", fam, shape, cell_name(cell), supply, c["size"]], ok=True, nontrivial=True, case=c)

    def kern():
        k = fam["kernel"]
        bs = torch.Size(mb)
        if tree:
            return c01_hist.build_kernel(torch, gpytorch, tree, bs)
        if k == "rbf_ard":
            return K.ScaleKernel(K.RBFKernel(ard_num_dims=d, batch_shape=bs), batch_shape=bs)
        if k == "matern":
            return K.ScaleKernel(K.MaternKernel(nu=1.5, batch_shape=bs), batch_shape=bs)
        if k == "rq":
            return K.RQKernel(batch_shape=bs)
        if k == "sum":
            return K.ScaleKernel(K.PeriodicKernel(batch_shape=bs), batch_shape=bs) + K.RBFKernel(batch_shape=bs)
        if k == "prod":
            return K.ScaleKernel(K.MaternKernel(nu=2.5, batch_shape=bs) * K.LinearKernel(batch_shape=bs), batch_shape=bs)
        if k == "mtask":
            return K.MultitaskKernel(K.RBFKernel(), num_tasks=2, rank=1)
    noise_tr = (0.1 + 0.2 * torch.rand(*mb, n, generator=g, dtype=D)) if fixedkind else None
    # the call-time noise: one value per test point (and task), in a range of its own (0.35..0.6: no stored / learned value)
    noise_te = (0.35 + 0.25 * torch.rand(*(tb or mb), ns * max(1, tasks), generator=g, dtype=D)) if supply == "call" else None
    if fam["lik"] == "gaussian":
        lik = gpytorch.likelihoods.GaussianLikelihood(batch_shape=torch.Size(mb))
    elif fixedkind:
        lik = gpytorch.likelihoods.FixedNoiseGaussianLikelihood(noise=noise_tr, learn_additional_noise=(fam["lik"] == "fixedlearn"), batch_shape=torch.Size(mb))
    else:
        lik = gpytorch.likelihoods.MultitaskGaussianLikelihood(num_tasks=2, rank=1)
    # the keyword widens the effective lengthscale (far from the default "no warp"; a narrowing one would make K nearly diagonal: clustered spectrum)
    warp = torch.tensor(0.5 + 0.3 * float(torch.rand(1, generator=g)), dtype=D) if kw else None

    class M(gpytorch.models.ExactGP):
        def __init__(s_, x, yy, l):
            super().__init__(x, yy, l)
            if tasks:
                s_.mean_module = gpytorch.means.MultitaskMean(gpytorch.means.ConstantMean(), num_tasks=2)
            elif fam["mean"] == "linear":
                s_.mean_module = gpytorch.means.LinearMean(d, batch_shape=torch.Size(mb))
            else:
                s_.mean_module = gpytorch.means.ConstantMean(batch_shape=torch.Size(mb))
            s_.covar_module = kern()
            if kw:
                s_.register_buffer("warp", warp.clone())

        def forward(s_, x):
            m, k = s_.mean_module(x), (s_.covar_module(x, warp=s_.warp) if kw else s_.covar_module(x))
            return gpytorch.distributions.MultitaskMultivariateNormal(m, k) if tasks else gpytorch.distributions.MultivariateNormal(m, k)
    model = M(X, y, lik).to(D)
    lik = lik.to(D)
    with torch.no_grad():   # hyperparameters inside their constraints, away from the defaults
        for p in model.parameters():
            p.add_(0.6 * (torch.rand(p.shape, generator=g, dtype=D) - 0.5))
        if fam["lik"] == "fixedlearn":       # (the noise setter of this likelihood sets the stored per-point noise)
            lik.second_noise = lik.second_noise * 0 + 0.65 + 0.1 * float(torch.rand(1, generator=g))
        elif fam["lik"] != "fixed":
            lik.noise = lik.noise * 0 + 0.15 + 0.1 * float(torch.rand(1, generator=g))
    model.eval()
    lik.eval()
    T = 2 if tasks else 1
    ntr = n * T

    gaps = []

    def hand_noise(m, lead, sup, t):
        """the documented noise on m points (training size: m = n): the terms of the spec's cell, from the parameter VALUES of the likelihood"""
        terms = doc["%s/%s/%s" % (kind, sup, "train" if m == n else "test")]
        sigma_t = None
        if tasks:      # MultitaskGaussianLikelihood(rank=1): Sigma_T = F F^T + sigma2 I_T
            F = lik.task_noise_covar_factor.detach()
            sigma_t = F @ F.transpose(-1, -2) + lik.noise.detach() * torch.eye(tasks, dtype=D)
        return hand_noise_terms(torch, terms, m, lead, sigma2=None if (fixedkind or tasks) else lik.noise.detach(),
                                second=lik.second_noise.detach() if fam["lik"] == "fixedlearn" else None, t=t,
                                stored=noise_tr.expand(*lead, n) if fixedkind else None, sigma_t=sigma_t)

    def oracle(Xs, noise_te):
        """the denotation on the model's own K, m and the documented S (kernels with active_dims / call-time keywords: K written out by hand on the
        declared columns; S, S* from the spec's noise table and the likelihood's parameter values)"""
        with torch.no_grad(), settings.lazily_evaluate_kernels(True):
            Xe = X.expand(*(tb or mb), n, d) if tb else X
            Z = torch.cat([Xe, Xs], dim=-2)
            prior = model.forward(Z)
            Kj = c01_hist.ref_kernel(torch, tree, model.covar_module, Z, Z, warp) if tree else prior.covariance_matrix
            mj = prior.mean.reshape(*Kj.shape[:-2], -1)
            Str = hand_noise(n, Kj.shape[:-2], "none", None)
            Ste = hand_noise(Xs.shape[-2], Kj.shape[:-2], supply, noise_te)
            A = Kj[..., :ntr, :ntr] + Str
            cond = float(torch.linalg.cond(A).max())
            ev = torch.linalg.eigvalsh(A)
            gaps.append(float(((ev[..., 1:] - ev[..., :-1]) / ev[..., -1:]).min()) if ntr > 1 else 1.0)
            yy = y.expand(*Kj.shape[:-2], *y.shape[len(mb):]).reshape(*Kj.shape[:-2], -1)
            Lc = torch.linalg.cholesky(A)
            Ksx = Kj[..., ntr:, :ntr]
            sol = torch.cholesky_solve((yy - mj[..., :ntr]).unsqueeze(-1), Lc).squeeze(-1)
            wm = mj[..., ntr:] + (Ksx @ sol.unsqueeze(-1)).squeeze(-1)
            wc = Kj[..., ntr:, ntr:] - Ksx @ torch.cholesky_solve(Ksx.transpose(-1, -2), Lc)
            wmc = wc + Ste
            floor = (0.0, 0.0)
            if not cell["chol"] and ntr > 10:
                # more unknowns than CG's minimum of 10 iterations: CG stops at its own floor (relative residual 1e-5 / sqrt(lambda_min), the guard of
                # its divisions), propagated to the outputs exactly as in c01_knobs
                rho = c01_knobs.CG_FLOOR / math.sqrt(float(torch.linalg.eigvalsh(A).min()))
                W = torch.cholesky_solve(Ksx.transpose(-1, -2), Lc)
                wn, kn, bn = W.norm(dim=-2), Ksx.norm(dim=-1), (yy - mj[..., :ntr]).norm(dim=-1)
                ncols = max(1, wn.numel())
                floor = (float((c01_knobs.SAFETY * rho * bn.unsqueeze(-1) * wn).max()),
                         0.0 if cell["fpv"] else float((c01_knobs.SAFETY * ncols * rho * wn.unsqueeze(-1) * kn.unsqueeze(-2)).max()))
        return (wm, wc, wmc), cond, floor
    # TWO predictions on the same model, at different test inputs (the second with one more test point): the conditional must hold at both
    ns2 = ns + 1
    Xs2 = torch.rand(*(tb or mb), ns2, d, generator=g, dtype=D) * 2 - 1
    noise_te2 = (0.35 + 0.25 * torch.rand(*(tb or mb), ns2 * max(1, tasks), generator=g, dtype=D)) if supply == "call" else None
    want1, cond, floor1 = oracle(Xs, noise_te)
    want2, _, floor2 = oracle(Xs2, noise_te2)
    lanczos_root = cell["fpv"] and not cell["cholroot"] and not cell["skipvar"]
    if cond > 1e4 or (lanczos_root and min(gaps) < 1e-3):
        # ill-conditioned, or (Lanczos root) two eigenvalues of Kxx+S closer than 1e-3 of the largest: the Krylov space is numerically smaller
        # than n and lanczos_tridiag stops early for every probe (same reason as for the integer L1 instances)
        res.update(nontrivial=False, n=0)
        return res
    def sig_at(m):
        return "C01/L2/%s/%s/%s" % (fam["kernel"], noise_cell_name(kind, supply, "train" if m == n else "test"), PathSig(cell))

    def attempt():
        for which, xs_k, nz_k, want, floor in (("", Xs, noise_te, want1, floor1), ("/second-prediction", Xs2, noise_te2, want2, floor2)):
            lk = {"noise": nz_k} if supply == "call" else {}
            sig = sig_at(xs_k.shape[-2])
            ok, got = core.guarded(lambda: predict(torch, settings, model, lik, xs_k, cell, (n + xs_k.shape[-2]) * T, lk))
            if not ok:
                res.update(ok=False, sig=raises_sig(sig + which, kind, supply, "train" if xs_k.shape[-2] == n else "test", cell), detail="%s%s: %s" % (desc, which and " (second prediction, at other test inputs)", got))
                return
            compare(torch, res, desc + (which and " (second prediction, at other test inputs)"), cell, got, want, sig + which, floor)
            if not res["ok"]:
                return
    attempt()
    if not res["ok"] and lanczos_root and not res["sig"].endswith(("/raises", "/mean")):
        # a Lanczos root is exact at full rank for almost every random probe vector only (heavy tail, see c01_knobs): the cell fails when
        # PROBE_DRAWS independent probes all miss the tolerance - a wrong block or a truncated rank misses it for every probe
        first = dict(sig=res["sig"], detail=res["detail"])
        for extra in range(1, c01_knobs.PROBE_DRAWS):
            torch.manual_seed(seed * 31 + extra)
            model.train()
            lik.train()
            model.eval()
            lik.eval()                 # no caches from the earlier probe
            res.update(ok=True)
            res.pop("sig", None)
            res.pop("detail", None)
            attempt()
            if res["ok"]:
                res["probe_redrawn"] = extra
                break
        if not res["ok"]:
            res.update(first)
    if not res["ok"]:
        return res
    if res["ok"] and "sample" not in res and seed % 50 == 0:
        res["sample"] = dict(case=desc)
    return res


def run(ck):
    thorough = ck.tier == "thorough"
    core.setup_torch()
    rnd = random.Random(ck.seed)
    ck.rule = ("cells = every combination of the 7 prediction-relevant settings (128 paths, ExactPosterior.tla) x one of 8 global switches that select no "
               "algorithm (debug off, memory_efficient, trace_mode, fast_pred_samples, verbose_linalg, deterministic_probes, skip_logdet_forward, use_toeplitz off) or none; "
               "every L1/L2 cell makes TWO predictions on the same model; L1: TLC's exact rational posteriors of "
               "linear-kernel instances through a real ExactGP on sampled cells; L2: seeded models (kernel x mean x likelihood x shape class; kernels include active_dims on "
               "3-column inputs - plain, inside Scale, ARD with non-ascending dims, parts of sums / products with different dims - and a kernel consuming a call-time keyword "
               "passed by the model's forward) on every cell against the Gaussian conditional computed densely from the model's own K, m and the documented S (active_dims / "
               "keyword kernels: K written out by hand on the declared columns); "
               "observation noise (part noise): likelihood kind (homoskedastic / fixed / fixed + learned additional noise / multitask) x call-time noise (none / noise=t) x "
               "size handed to the likelihood (training size / another) = 16 cells whose documented noise (a set of terms, each added exactly once) TLC checks against the "
               "transcribed _shaped_noise_covar (two broken transcriptions must be rejected); every rational L1 instance carries a noise cell (exact S and S* from the table), "
               "every L2 case one (rotating per kind; S and S* built by hand from the table and the likelihood's parameter values, never by calling the likelihood); "
               "L4: every history of the history machine (ExactPosterior.tla part history: predictions under a switch or none, model.train(); model.eval() / set_train_data / load_state_dict of other hyperparameter values in between; "
               "model class = active_dims nowhere / top-level / inner x keywords none / by forward / by the caller x tracked kernel in the model or in the noise model of a "
               "HeteroskedasticNoise likelihood x lazy-dense / lazy-slices / evaluated), closed by a prediction under default settings, EVERY prediction against the "
               "conditional written out by hand; the machine's invariant OnePrior is checked by TLC and two broken variants must be rejected; "
               "L3: the accuracy-knob lattice (part knobs: path selectors x {eval_cg_tolerance, cg_tolerance, max_cg_iterations, preconditioner size, "
               "max_root_decomposition_size, probe count, num_trace_samples, max_lanczos_quadrature_iterations} with at most two knobs off their default, every "
               "other setting UNTOUCHED) on models with n = 48..60 / 120..132 / 804..812 training points (short lengthscale, cond 50..3000); the comparison "
               "tolerance is derived from the knob values: Cholesky -> 1e-7; CG at eval_cg_tolerance = t (the ambient cg_tolerance does not enter) -> "
               "|mean_i - cond_i| <= 2 rho |y-m| |A^-1 k_i|, |cov_ij - cond_ij| <= 2 C rho |k_j| |A^-1 k_i| with rho = max(t, 1e-5/sqrt(lambda_min(A))) "
               "(CG's stopping rule: mean relative residual over the C columns < t; 1e-5 = sqrt of linear_cg's division guard) and A = Kxx+S; "
               "Lanczos root at rank >= n (n <= 800) -> 2 * tridiagonal_jitter * (tr A / n) |A^-1 k_i| |A^-1 k_j| + 1e-4 relative + 1e-6, failing only if 4 "
               "independent probe vectors all miss it; "
               "max_cg_iterations below n, Lanczos rank below n, Lanczos above n = 800 -> nothing promised, not compared; non-trivial = a non-default path")
    ck.assumptions = ["observation noise: GaussianLikelihood(dist, noise=t) adds diag(t) INSTEAD of sigma2 I (HomoskedasticNoise.forward: 'if a noise kwarg is provided, "
                      "this noise is used directly'); FixedNoiseGaussianLikelihood without a call-time noise adds the stored noise when the sizes match and nothing otherwise "
                      "(its warned no-op); the learned additional noise is added in every case; MultitaskGaussianLikelihood ignores a call-time noise (its marginal takes "
                      "none): the reading the current code satisfies",
                      "rational instances keep det(Kxx+S) <= 100 (TLC's 32-bit integers; Rational.tla multiplies denominators)",
                      "L4: mean, kernel and noise of the hand-written conditional read the hyperparameters (lengthscale, outputscale, variance, noise, constant) from "
                      "the modules' properties; the HeteroskedasticNoise variance at x is softplus(posterior mean of the noise GP at x) + 1e-4 (its default constraint), "
                      "the noise GP's posterior mean itself by hand",
                      "L4/L2: call-time keywords reach a mean only through the model's forward (gpytorch.means.Mean.__call__ accepts none): the keyword-consuming mean of L4 is a "
                      "plain gpytorch.Module",
                      "L1/L2: iterative paths are run as exact algorithms (CG tolerance 1e-12, Lanczos at full rank) and compared at 2e-5; Cholesky paths at 1e-7",
                      "L2 systems with more than 10 unknowns (multitask, 12) on the CG path additionally get CG's own floor (relative residual "
                      "1e-5/sqrt(lambda_min), propagated as in L3): CG cannot finish them within its minimum of 10 iterations",
                      "instances with cond(Kxx+S) > 1e4 are skipped (counted); so are Lanczos-root cells of L2 instances with two eigenvalues of Kxx+S closer than "
                      "1e-3 of the largest (clustered spectrum: Lanczos is not an exact algorithm there)", "float64; L1/L2 n <= 8 training points, L3 n >= 48",
                      "Lanczos-root cells are replayed on generic (seeded float) instances only: for the integer L1 instances repeated eigenvalues make "
                      "the Krylov space smaller than n, where Lanczos is not an exact algorithm",
                      "L3: at the default eval_cg_tolerance (1e-2) CG is legitimately inexact; such cells are compared only at the (loose) bound their own "
                      "tolerance implies; the CG residual bound relies on linear_cg's documented stopping rule and its division guard eps = 1e-10",
                      "L3: a Lanczos root (fast_pred_var) is exact at full rank for almost every random probe vector only - linear_operator's lanczos_tridiag "
                      "stops early when its re-orthogonalisation fails (about 1 probe in 2000 at n = 48..60; 2 in 8 on one fixed-noise model with n = 804: rank 803, "
                      "covariance off by 1e-3); the spec therefore promises "
                      "nothing for the Lanczos covariance above n = 800 and a smaller cell fails only when 4 independent probes all miss the tolerance",
                      "L2: a Lanczos-root cell (fast_pred_var, root by Lanczos at full rank) likewise fails only when 4 independent probe vectors all miss the "
                      "tolerance (one probe in several hundred is off by 3e-5..4e-4 on a 5-point model; a wrong block or a truncated rank is off for every probe)",
                      "L3: max_cg_iterations(25) together with max_lanczos_quadrature_iterations(50) is rejected by linear_cg by design and is not a cell"]
    wd = os.path.join(tlc.BUILD, PID)
    insts = gen_instances(rnd, 400 if thorough else 120, 300 if thorough else 80)
    jobs = []
    mod, cfg = write_mc(wd, "lattice", "lattice")
    jobs.append(((mod, cfg), dict(name=PID + "/lattice", dump=True, check=False, workers=2)))
    mod, cfg = write_mc(wd, "algebra", "algebra", insts)
    jobs.append(((mod, cfg), dict(name=PID + "/algebra", dump=True, check=False, workers=min(8, core.NPROC), timeout=1500)))
    mod, cfg = write_mc(wd, "knobs", "knobs", maxoff=2)
    jobs.append(((mod, cfg), dict(name=PID + "/knobs", dump=True, check=False, workers=2)))
    # histories of predictions: every run below 2e4 states (thorough: length 3, the model lattice split over three runs)
    hl = 3 if thorough else 2
    hparts = [(("none",), ("covar",)), (("forward",), ("covar",)), (("call",), ("covar",)), (("none",), ("noise",))] if thorough else [(("none", "forward", "call"), ("covar", "noise"))]
    for k, (kws, sites) in enumerate(hparts):
        mod, cfg = write_mc(wd, "history%d" % k, "history", histlen=hl, kw=kws, sites=sites)
        jobs.append(((mod, cfg), dict(name=PID + "/history%d" % k, dump=True, check=False, workers=2)))
    for name, consts in BROKEN.items():
        mod, cfg = write_mc(wd, "broken_" + name.replace("-", "_"), "history", histlen=2, invariants=("HistoryOK",), **consts)
        jobs.append(((mod, cfg), dict(name=PID + "/broken_" + name, check=False, workers=1, coverage=False)))
    mod, cfg = write_mc(wd, "noise", "noise")
    jobs.append(((mod, cfg), dict(name=PID + "/noise", dump=True, check=False, workers=1)))
    for name, mode in BROKEN_NOISE.items():
        mod, cfg = write_mc(wd, "broken_noise_" + mode.replace("-", "_"), "noise", secondnoise=mode, invariants=("NoiseOK",))
        jobs.append(((mod, cfg), dict(name=PID + "/broken_noise_" + mode, check=False, workers=1, coverage=False)))
    rs = tlc.run_many(jobs, parallel=3)
    nh = len(hparts)
    r_noise, rs_broken_noise = rs[3 + nh + len(BROKEN)], rs[3 + nh + len(BROKEN) + 1:]
    rs = rs[:3 + nh + len(BROKEN)]
    ck.add_tlc(r_noise, "ExactPosterior observation-noise cells")
    if r_noise.violation:
        ck.model_drift("ExactPosterior.tla observation-noise cells violate %s" % r_noise.violation["name"])
    elif r_noise.rc != 0:
        raise tlc.TLCError("TLC failed on ExactPosterior observation-noise cells:\n%s" % r_noise.stdout[-1500:])
    # the documented noise of every cell: "kind/supply/size" -> terms
    doc = {"%s/%s/%s" % (st["c"]["kind"], st["c"]["supply"], st["c"]["size"]): sorted(str(x) for x in st["out"]) for st in r_noise.states()}
    if len(doc) != 16:
        ck.vacuous("observation-noise lattice has %d cells instead of 16" % len(doc))
    nrej = {}
    for (name, mode), r in zip(BROKEN_NOISE.items(), rs_broken_noise):
        ck.add_tlc(r, "ExactPosterior broken observation-noise transcription " + name)
        nrej[name] = (r.violation or {}).get("name")
        if not r.violation:
            if r.rc != 0:
                raise tlc.TLCError("TLC failed on the broken observation-noise transcription %s:\n%s" % (name, r.stdout[-1500:]))
            ck.vacuous("the broken observation-noise transcription %s is accepted by TLC (NoiseOK is vacuous)" % name)
    ck.extra["broken_noise_transcriptions_rejected"] = nrej
    ck.extra["documented_noise"] = doc
    labels = ["settings lattice", "rational path formulas", "accuracy-knob lattice"] + ["prediction histories %d" % k for k in range(nh)]
    for lab, r in zip(labels, rs):
        ck.add_tlc(r, "ExactPosterior " + lab)
        if r.violation:
            ck.model_drift("ExactPosterior.tla %s violates %s" % (lab, r.violation["name"]))
        elif r.rc != 0:
            raise tlc.TLCError("TLC failed on ExactPosterior %s:\n%s" % (lab, r.stdout[-1500:]))
    rejected = {}
    for name, r in zip(BROKEN, rs[3 + nh:]):
        ck.add_tlc(r, "ExactPosterior broken history machine " + name)
        rejected[name] = (r.violation or {}).get("name")
        if not r.violation:
            if r.rc != 0:
                raise tlc.TLCError("TLC failed on the broken history machine %s:\n%s" % (name, r.stdout[-1500:]))
            ck.vacuous("the broken history machine %s is accepted by TLC (OnePrior is vacuous)" % name)
    ck.extra["broken_history_machines_rejected"] = rejected
    allcells = [dict(st["c"]) for st in rs[0].states()]
    nsw = len(c01_hist.SWITCHES) + 1
    if len(allcells) != 128 * nsw or {cl["sw"] for cl in allcells} != set(c01_hist.SWITCHES) | {"none"}:
        ck.vacuous("settings lattice has %d cells instead of %d" % (len(allcells), 128 * nsw))
    bysw = {}
    for cl in allcells:
        bysw[(tuple(bool(cl[k]) for k in FLAGS), cl["sw"])] = cl
    cells = sorted((cl for cl in allcells if cl["sw"] == "none"), key=lambda cl: tuple(bool(cl[k]) for k in FLAGS))
    # the switch of a replayed cell: every other draw the default, otherwise rotating through the switches
    rota = [w for s_ in c01_hist.SWITCHES for w in ("none", s_)]

    def with_switch(cell, k):
        return bysw[(tuple(bool(cell[f]) for f in FLAGS), rota[k % len(rota)])]
    lin = [(dict(st["c"]), st["out"]) for st in rs[1].states() if st["c"]["kind"] == "lin"]
    cases = []
    draw = 0
    ncells, l1cells = {}, {}          # noise cells replayed (L2 cases / L1 rational instances): "kind/supply/size" -> count
    for k, (inst, out) in enumerate(lin):
        inst = {kk: ([list(r) for r in v] if kk in ("X", "Xs") else (list(v) if kk in ("y", "tr", "te") else v)) for kk, v in inst.items()}
        exp = dict(mean=[list(v) for v in out["mean"]], cov=[[list(v) for v in row] for row in out["cov"]], marg=[[list(v) for v in row] for row in out["marg"]],
                   terms=sorted(str(x) for x in out["terms"]))
        key = "%s/%s/%s" % (inst["lk"], "call" if inst["te"] else "none", "train" if len(inst["Xs"]) == len(inst["X"]) else "test")
        l1cells[key] = l1cells.get(key, 0) + 1
        sel = cells if (k < 2) else rnd.sample(cells, 16 if thorough else 6)
        for cell in sel:
            if cell["fpv"] and not cell["cholroot"] and not cell["skipvar"]:
                # integer instances have repeated eigenvalues: the Krylov space of a Lanczos root is then smaller than n and the
                # root is not exact even "at full rank"; these cells are exercised by the generic (seeded float) L2 instances
                continue
            draw += 1
            cases.append(dict(level="L1", inst=inst, cell=with_switch(cell, draw), exp=exp))
    fams = [dict(kernel=k, mean=m, lik=l) for k, m, l in [("rbf_ard", "constant", "gaussian"), ("matern", "linear", "gaussian"), ("rq", "constant", "fixed"),
                                                        ("sum", "constant", "fixedlearn"), ("prod", "linear", "fixed"), ("mtask", "constant", "mtask"),
                                                        # kernels with active_dims on 3-column inputs: on the top-level module (plain, inside Scale, ARD with
                                                        # non-ascending dims), on the parts of sums / products (different dims per part); kernels consuming a
                                                        # call-time keyword passed by the model's forward (K by hand on the declared columns, c01_hist.ref_kernel)
                                                        ("tree:rbf@02", "constant", "gaussian"), ("tree:scale(matern@12)", "linear", "fixed"),
                                                        ("tree:scale(rbf-ard@20)", "constant", "gaussian"), ("tree:scale(rbf@0)+matern@12", "constant", "fixedlearn"),
                                                        ("tree:rbf@01*linear@2", "linear", "fixedlearn"), ("tree:scale(rbf@02+linear@1)", "constant", "gaussian"),
                                                        ("tree:scale(warp)", "constant", "gaussian"), ("tree:warp@0+matern@12", "linear", "fixed")]]
    shapes = [dict(n=6, d=2), dict(n=1, d=1), dict(n=5, d=3, model_batch=[2]), dict(n=5, d=1, test_batch=[2]),
              dict(n=4, d=1, ns=4)]      # as many test as training points (size-based shortcuts, e.g. of fixed-noise models)
    seeds = range(3 if thorough else 1)
    # the noise cell of an L2 case rotates per likelihood kind through supply x size (the size class overrides the number of test points of the shape)
    NC = [("call", "test"), ("none", "train"), ("call", "train"), ("none", "test")]
    nck = {}
    for ci, cell in enumerate(cells):
        for fi, fam in enumerate(fams):
            for si, shape in enumerate(shapes):
                if fam["lik"] == "mtask" and (shape.get("model_batch") or shape["n"] == 1):
                    continue
                if not thorough and (fi + si + sum(1 for f in FLAGS if cell[f])) % 3 != 0:
                    continue
                for s in seeds:
                    nck[fam["lik"]] = nck.get(fam["lik"], 0) + 1
                    supply, size = NC[(nck[fam["lik"]] + nck[fam["lik"]] // 4) % 4]       # (the shift breaks the alignment with the 5 shapes / 3 seeds)
                    if shape["n"] == 1 and size == "test" and shape.get("ns", 3) == 1:
                        size = "train"
                    kind = {"gaussian": "homoskedastic", "fixed": "fixed", "fixedlearn": "fixed-learned", "mtask": "multitask"}[fam["lik"]]
                    key = "%s/%s/%s" % (kind, supply, size)
                    ncells[key] = ncells.get(key, 0) + 1
                    cases.append(dict(level="L2", fam=fam, shape=shape, cell=with_switch(cell, ci + 5 * fi + 3 * si + 7 * s), seed=ck.seed * 1000 + fi * 100 + si * 10 + s,
                                      supply=supply, size=size, doc=doc))
    for key in sorted(doc):
        if not ncells.get(key):
            ck.vacuous("no replayed seeded case for the observation-noise cell %s" % key)
        if not l1cells.get(key) and not key.startswith("multitask"):
            ck.vacuous("no rational instance for the observation-noise cell %s" % key)
    l4 = history_cases(ck, rs[3:3 + nh], hl, thorough)
    cases += l4
    l3 = knob_cases(ck, rs[2], rnd, thorough)
    cases += l3
    rnd.shuffle(cases)
    items = [dict(cases=cases[i:i + 10]) for i in range(0, len(cases), 10)]
    results = core.pmap(_worker, items, chunksize=1)
    ck.absorb(results)
    l1 = sum(1 for c in cases if c["level"] == "L1")
    sws = {}
    for c in cases:
        if c["level"] in ("L1", "L2"):
            sws[c["cell"]["sw"]] = sws.get(c["cell"]["sw"], 0) + 1
    for w in rota:
        if not sws.get(w):
            ck.vacuous("no replayed lattice cell runs under switch %s" % w)
    ck.section("replay", cells=len(allcells), L1_cases=l1, L2_cases=len(cases) - l1 - len(l3) - len(l4), L3_cases=len(l3), L4_histories=len(l4), rational_instances=len(insts),
               lattice_cases_per_switch=sws, predictions_per_L1_L2_case=2,
               L4_predictions=sum(r.get("npred", 0) for r in results), L2_cases_per_noise_cell=dict(sorted(ncells.items())), rational_instances_per_noise_cell=dict(sorted(l1cells.items())),
               skipped_ill_conditioned=sum(1 for r in results if r.get("n") == 0 and not r.get("nopromise")))
    worst = {}
    for r in results:
        for k, v in (r.get("margins") or {}).items():
            kk = "%s/%s" % (k, "".join(map(str, r["case"]["exp"][k])))
            worst[kk] = max(worst.get(kk, 0.0), round(v, 3))
    ck.section("knobs", worst_error_over_tolerance=worst, lanczos_probe_redrawn=sum(1 for r in results if r.get("probe_redrawn")))


def history_cases(ck, runs, hl, thorough):
    """the maximal histories of the history machine, each on a real model of its abstract class: the kernel tree rotates through the trees of the
    class (ad, keyword), the likelihood through gaussian / fixed noise (site covar)"""
    hists = []
    for r in runs:
        for st in r.states():
            cc = st["c"]
            if len(cc["hist"]) == hl:
                hists.append((dict(cc["m"]), str(cc["p"]), [str(a) for a in cc["hist"]], len(st["out"])))
    hists.sort(key=lambda h: (sorted(h[0].items()), h[1], h[2]))
    seen = {a for h in hists for a in h[2]}
    for a in ("refresh", "set-targets", "set-data", "load-state", "none") + c01_hist.SWITCHES:
        if a not in seen:
            ck.vacuous("no generated history takes step %s" % a)
    for site in ("covar", "noise"):
        for ad in ("none", "top", "inner"):
            if not any(h[0]["site"] == site and h[0]["ad"] == ad for h in hists):
                ck.vacuous("no generated history for a model with active_dims=%s, site=%s" % (ad, site))
    for kw in ("forward", "call"):
        if not any(h[0]["kw"] == kw for h in hists):
            ck.vacuous("no generated history for a model passing keywords by %s" % kw)
    order = ("none",) + c01_hist.SWITCHES + ("refresh", "set-targets", "set-data", "load-state")
    out, k = [], 0
    per = {}
    for m, p, hist, nobs in hists:
        k += 1
        init = (m["ad"], m["kw"], m["site"], p)
        ik = per.setdefault(init, len(per))
        if (sum(order.index(a) for a in hist) + ik) % (2 if thorough else 3) != 0:
            continue          # quick tier: a third of the length-2 histories (every (model class, path, first step) with 3-4 continuations); thorough: half of the length-3 ones
        trees = c01_hist.BY_CLASS[(m["ad"], m["kw"] != "none" and m["site"] == "covar")]
        out.append(dict(level="L4", m=m, p=p, hist=hist, tree=trees[k % len(trees)], lik=("gaussian", "fixed", "fixedlearn")[(k // len(trees)) % 3], seed=(ck.seed * 131 + k) % 100000,
                        tracked_predictions=nobs, close_at_train=(k % 4 == 0)))
    ck.section("histories", generated=len(hists), replayed=len(out), length=hl, model_classes=len(per))
    return out


def knob_cases(ck, r, rnd, thorough):
    """the replayed part of the accuracy-knob lattice: every single-knob cell of every iterative path, sampled pairs, sampled direct paths"""
    sts = [(dict(st["c"]), dict(st["out"])) for st in r.states()]
    if len(sts) != 96 * 125:
        ck.vacuous("accuracy-knob lattice has %d cells instead of 12000" % len(sts))
    sts.sort(key=lambda ce: c01_knobs.cell_name(ce[0]))
    single, pairs, direct, nopromise = [], [], [], 0
    for cell, exp in sts:
        exp = dict(solve=exp["solve"], root=exp["root"], mean=list(exp["mean"]), cov=list(exp["cov"]))
        if exp["mean"][0] == "none" and exp["cov"][0] == "none":
            nopromise += 1
            continue
        iterative = exp["solve"] == "cg" or (cell["fpv"] and exp["root"] == "lanczos")
        off = c01_knobs.off_default(cell)
        (direct if not iterative else single if len(off) <= 1 else pairs).append((cell, exp))
    nf = len(c01_knobs.FAMS)
    out, alone = [], {}

    def add(k, cell, exp, fams):
        for fi in fams:
            out.append(dict(level="L3", cell=cell, exp=exp, fam=c01_knobs.FAMS[fi % nf], seed=(ck.seed * 7919 + k * 3 + fi) % 100000))
    for k, (cell, exp) in enumerate(single):
        big = cell["nclass"] == "gt800"
        if big and not thorough and (cell["mcs"] != "default" or not set(c01_knobs.off_default(cell)) <= {"evaltol", "cgtol", "rootsize"}):
            continue               # quick tier: n > 800 only where the size alone selects CG / Lanczos (every other setting untouched)
        add(k, cell, exp, range(k, k + (nf if thorough and not big else 1)))
        for f in c01_knobs.off_default(cell) or ["(defaults)"]:
            alone[f] = alone.get(f, 0) + 1
    small = [ce for ce in pairs if ce[0]["nclass"] != "gt800"]
    for k, (cell, exp) in enumerate(small if thorough else rnd.sample(small, 160)):
        add(k, cell, exp, [k])
    bigp = [ce for ce in pairs if ce[0]["nclass"] == "gt800" and ce[0]["mcs"] == "default"]
    for k, (cell, exp) in enumerate(rnd.sample(bigp, 120 if thorough else 6)):
        add(k, cell, exp, [k])
    for k, (cell, exp) in enumerate(rnd.sample([ce for ce in direct if ce[0]["nclass"] != "gt800"], 900 if thorough else 120)):
        add(k, cell, exp, [k])
    for f in ("(defaults)", "evaltol", "cgtol", "maxiter", "precond", "rootsize", "probes", "trace", "lq"):
        if not alone.get(f):
            ck.vacuous("no replayed cell of an iterative path changes %s alone" % f)
    ck.section("knobs", lattice_cells=len(sts), cells_promising_nothing=nopromise, iterative_single_knob_cells=len(single), iterative_pair_cells=len(pairs),
               direct_cells=len(direct), replayed=len(out), single_knob_replayed=alone)
    return out


def replay(rep):
    core.setup_torch()
    res = _worker(dict(cases=[rep["case"]]))
    bad = [r for r in res if not r.get("ok", True) or r.get("machinery")]
    for r in bad:
        print("VIOLATION property=C01 replay=- :: %s :: %s" % (r.get("sig"), r.get("detail", r.get("machinery"))))
    if not bad:
        print("replay passed")
    return 1 if bad else 0
