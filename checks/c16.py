"""C16 - missing observations (NaN policy) behave as if those observations were deleted.
Spec: NanPolicy.tla (exact rational algebra of mask / fill vs deletion; policy-keyed cache machine)."""
import itertools
import os
import random

from harness import core, tlc
from checks.c04 import tla

LEVEL = "model_checking"
PID = "C16"


def write_mc(workdir, name, part, instances=(), cov_masked=False, keyed=True, maxlen=3, invariants=(), set_clears="all", fant_live=False, layout_test="event"):
    os.makedirs(workdir, exist_ok=True)
    mod = "MC_NanPolicy_" + name
    with open(os.path.join(workdir, mod + ".tla"), "w") as f:
        f.write("---- MODULE %s ----\nEXTENDS NanPolicy\nInstDef == {%s}\n====\n" % (mod, ",\n  ".join(tla(i) for i in instances)))
    cfg = os.path.join(workdir, mod + ".cfg")
    tlc.write_cfg(cfg, spec="Spec", constants={"Part": part, "Instances": "<- InstDef", "CovMasked": cov_masked, "KeyedByPolicy": keyed, "MaxLen": maxlen,
                                               "SetTargetsClears": set_clears, "FantasyCacheLive": fant_live, "LayoutTest": layout_test},
                  invariants=list(invariants))
    return os.path.join(workdir, mod + ".tla"), cfg


def gen_instances(rnd, count):
    out, seen = [], set()
    while len(out) < count:
        n = rnd.choice([2, 3, 3])
        obs = [rnd.random() < 0.6 for _ in range(n)]
        if not any(obs):
            obs[rnd.randrange(n)] = True
        inst = dict(G=[[rnd.randint(-2, 2), rnd.randint(-2, 2)] for _ in range(n)], s2=rnd.choice([1, 2]), y=[rnd.randint(-2, 2) for _ in range(n)],
                    obs=obs, t=[rnd.randint(-2, 2), rnd.randint(-2, 2)])
        if len(out) % 4 == 3:       # an observed target that equals the fill value
            inst["y"][[j for j in range(n) if obs[j]][0]] = -999
        k = repr(inst)
        if k not in seen:
            seen.add(k)
            out.append(inst)
    return out


# ---------------------------------------------------------------------------------------------
def _worker(item):
    torch = core.setup_torch()
    import gpytorch
    out = []
    for c in item["cases"]:
        out.extend(run_data_history(torch, gpytorch, c) if c.get("kind") == "datahist" else
                   run_layout_case(torch, gpytorch, c) if c.get("kind") == "layout" else run_case(torch, gpytorch, c))
    return out


def build(torch, gpytorch, kind, x, y):
    from checks import gpmodels as G
    if kind == "mtask":
        lik = gpytorch.likelihoods.MultitaskGaussianLikelihood(num_tasks=2)
        model = G.ExactModel(x, y, lik, "mtask", x.shape[-1])
    else:
        lik = gpytorch.likelihoods.GaussianLikelihood(batch_shape=x.shape[:-2]) if kind.startswith("batch") else gpytorch.likelihoods.GaussianLikelihood()
        model = G.ExactModel(x, y, lik, "exact", x.shape[-1])
    model = model.to(torch.float64)
    lik = lik.to(torch.float64)
    with torch.no_grad():
        lik.noise = 0.2
        for _, mod in model.named_modules():
            if isinstance(mod, gpytorch.kernels.RBFKernel):
                mod.lengthscale = 0.7
            if isinstance(mod, gpytorch.kernels.ScaleKernel):
                mod.outputscale = 1.3
            if isinstance(mod, gpytorch.means.ConstantMean):
                mod.constant = 0.3
    return model, lik


def run_case(torch, gpytorch, c):
    """c: kind in {single, mtask, batch}, missing (flat booleans over the targets), policies (sequence incl. 'Reset'), seed"""
    from gpytorch import settings
    kind, pols = c["kind"], c["policies"]
    g = torch.Generator().manual_seed(c["seed"])
    n = c["n"]
    bshape = (2,) if kind == "batch" else ((2, 2) if kind == "batch2" else ())      # batch2: two batch dimensions
    B = 1
    for b_ in bshape:
        B *= b_
    tshape = (2,) if kind == "mtask" else ()
    x = torch.rand(*bshape, n, 1, generator=g, dtype=torch.float64) * 2 - 1
    xs = torch.rand(3, 1, generator=g, dtype=torch.float64) * 2 - 1
    yfull = torch.sin(3 * x.squeeze(-1)).unsqueeze(-1).expand(*bshape, n, *((2,) if tshape else (1,))).clone()
    yfull = (yfull if tshape else yfull.squeeze(-1)) + 0.1 * torch.randn(*bshape, n, *tshape, generator=g, dtype=torch.float64)
    miss = torch.tensor(c["missing"], dtype=torch.bool).reshape(*bshape, n, *tshape)
    if c.get("sentinel"):
        # an OBSERVED target that equals the value the 'fill' policy writes into missing entries: still an observation
        flat_obs = (~miss).reshape(-1).nonzero().squeeze(-1)
        yfull.view(-1)[flat_obs[c["seed"] % len(flat_obs)]] = settings.observation_nan_policy._fill_value
    y = yfull.clone()
    y[miss] = float("nan")
    desc = "%s n=%d missing=%s policies=%s%s" % (kind, n, "".join("x" if m else "." for m in c["missing"]), ">".join(pols),
                                                 " (one observed target equals the fill value)" if c.get("sentinel") else "")
    results = []

    def res(what, ok, detail, idx=""):
        results.append(dict(key=[kind, n, c["missing"], pols, what, idx, bool(c.get("sentinel"))], ok=ok, nontrivial=any(c["missing"]), sig="C16/%s/%s/%s/%s" % (kind, what, c.get("lastpol", ""), "some-missing" if any(c["missing"]) else "none-missing"),
                            detail=desc + ": " + detail, case=c, sample=dict(case=desc) if what == "mean" else None))

    model, lik = build(torch, gpytorch, kind, x, y)
    model.eval()
    lik.eval()
    # reference: the Gaussian conditional on the OBSERVED entries, from the model's own prior and noise
    with torch.no_grad(), settings.observation_nan_policy("ignore"):
        fresh, flik = build(torch, gpytorch, kind, x, yfull)
        fresh.load_state_dict({k: v.clone() for k, v in model.state_dict().items()})   # e.g. randomly initialised task covariance
        fresh.eval()
        flik.eval()
        xx = torch.cat([x, xs.expand(*bshape, *xs.shape)], dim=-2)
        prior = fresh.forward(xx)
        noisy = flik(prior)
        K = prior.covariance_matrix                      # latent joint over [train; test] (x tasks, interleaved)
        Kn = noisy.covariance_matrix
        mu = prior.mean.reshape(*bshape, -1)
        T = 2 if tshape else 1
        ntr = n * T
    def reference(policy):
        """posterior at the test points given the observed training entries (per batch element for fill; the union
        of missing entries over the batch for mask, as documented)"""
        outs_m, outs_c = [], []
        missf, Kf, Knf, muf, yf = (miss.reshape(B, *miss.shape[len(bshape):]), K.reshape(B, *K.shape[len(bshape):]), Kn.reshape(B, *Kn.shape[len(bshape):]),
                                   mu.reshape(B, -1), yfull.reshape(B, -1))
        for b in range(B):
            mb = missf[b]
            if policy == "mask" and bshape:
                mb = missf.any(0)
            obs = (~mb).reshape(-1)
            idx = obs.nonzero().squeeze(-1)
            Kb, Knb, mub, yb = Kf[b], Knf[b], muf[b], yf[b]
            A = Knb[:ntr, :ntr][idx][:, idx]
            Ksx = Kb[ntr:, :ntr][:, idx]
            sol = torch.linalg.solve(A, (yb[idx] - mub[:ntr][idx]).unsqueeze(-1)).squeeze(-1)
            outs_m.append(mub[ntr:] + Ksx @ sol)
            outs_c.append(Kb[ntr:, ntr:] - Ksx @ torch.linalg.solve(A, Ksx.T))
        if bshape:
            om, oc = torch.stack(outs_m), torch.stack(outs_c)
            return om.reshape(*bshape, *om.shape[1:]), oc.reshape(*bshape, *oc.shape[1:])
        return outs_m[0], outs_c[0]

    for step, p in enumerate(pols):
        if p == "Reset":
            model.train()
            model.eval()
            continue
        c["lastpol"] = p
        with settings.observation_nan_policy(p):
            ok, r = core.guarded(lambda: (lambda o: (o.mean.detach().clone(), o.covariance_matrix.detach().clone()))(model(xs)))
        if not ok:
            res("raises", False, "step %d policy %s: prediction raised %s" % (step, p, r), step)
            return results
        mean, cov = r
        if torch.isnan(mean).any() or torch.isnan(cov).any():
            res("nan-in-output", False, "step %d policy %s: NaN in the posterior" % (step, p), step)
            return results
        rm, rc = reference(p)
        good, why = core.close(mean.reshape(rm.shape), rm, 1e-7, 1e-9)
        res("mean", good, "step %d policy %s: posterior mean differs from conditioning on the observed entries only: %s" % (step, p, why), step)
        if not good:
            return results
        good, why = core.close(cov.reshape(rc.shape), rc, 1e-7, 1e-9)
        res("covariance", good, "step %d policy %s: posterior covariance differs from conditioning on the observed entries only: %s" % (step, p, why), step)
    # objective and likelihood terms
    if kind in ("single", "batch", "batch2") and "mask" in pols:
        c["lastpol"] = "mask"
        model.train()
        lik.train()
        mll = gpytorch.mlls.ExactMarginalLogLikelihood(lik, model)
        with settings.observation_nan_policy("mask"):
            ok, v = core.guarded(lambda: mll(model(x), y).detach().clone())
        if not ok:
            res("mll-raises", False, str(v))
        else:
            # deleted-data reference, rescaled by the counts: N * mll_mask = N_obs * mll_deleted
            mm = miss.reshape(B, -1).any(0) if bshape else miss
            keep = (~mm).nonzero().squeeze(-1)
            xd, yd = x[..., keep, :], yfull[..., keep]
            dm, dl = build(torch, gpytorch, kind, xd, yd)
            dm.load_state_dict({k: v.clone() for k, v in model.state_dict().items()})
            dm.train()
            dl.train()
            ref = gpytorch.mlls.ExactMarginalLogLikelihood(dl, dm)(dm(xd), yd).detach() * keep.numel()
            good, why = core.close(v * n, ref, 1e-8, 1e-10)
            res("mll", good and not torch.isnan(v).any(), "N * mll under mask differs from N_obs * mll of the deleted data set: " + why)
        model.eval()
        lik.eval()
    if kind in ("single", "mtask", "batch", "batch2"):
        with torch.no_grad():
            fdist = model.forward(x)
            for p in ("mask", "fill"):
                c["lastpol"] = p
                with settings.observation_nan_policy(p):
                    ok, v = core.guarded(lambda: (lik.expected_log_prob(y, fdist).clone(), lik.log_marginal(y, fdist).clone()))
                if not ok:
                    res("likelihood-terms-raise", False, "%s: %s" % (p, v))
                    continue
                with settings.observation_nan_policy("ignore"):
                    full_e, full_l = lik.expected_log_prob(yfull, fdist), lik.log_marginal(yfull, fdist)
                # which entries count: fill = per element; mask = an entry missing in any batch element is masked for the whole batch
                eff = miss if (p == "fill" or not bshape) else miss.reshape(B, -1).any(0).expand_as(miss)
                for nm, got, full in (("expected_log_prob", v[0], full_e), ("log_marginal", v[1], full_l)):
                    if torch.isnan(got).any():
                        res(nm, False, "%s: NaN in %s" % (p, nm))
                        continue
                    # elementwise terms: the sum over the observed entries must equal the sum of the deleted-data terms
                    if tshape:
                        elem = full_e_elem(torch, lik, yfull, fdist, nm)
                        want = torch.where(eff, torch.zeros_like(elem), elem).sum()
                        gsum = got.sum()
                    elif bshape:
                        want = torch.where(eff, torch.zeros_like(full), full).sum(-1)     # per batch element
                        gsum = got.sum(-1)
                    else:
                        want = full[~eff].sum()
                        gsum = got.sum()
                    good, why = core.close(gsum, want, 1e-9, 1e-10)
                    res(nm, good, "%s: sum of %s terms differs from the sum over the observed entries: %s" % (p, nm, why))
    for r in results:
        if r.get("sample") is None:
            r.pop("sample", None)
    return results


def run_data_history(torch, gpytorch, c):
    """datahist part of NanPolicy.tla on a real single-output exact GP: predictions interleaved with set_train_data(targets=) and
    get_fantasy_model under any policy; every predicted mean = the Gaussian conditional on the observed entries of the CURRENT data."""
    from gpytorch import settings
    from contextlib import nullcontext
    g = torch.Generator().manual_seed(c["seed"])
    n, m = c["n"], 2
    x = torch.rand(n, 1, generator=g, dtype=torch.float64) * 2 - 1
    xs = torch.rand(3, 1, generator=g, dtype=torch.float64) * 2 - 1

    def draw(k, pat):
        xx = None
        yy = 0.5 * torch.randn(k, generator=g, dtype=torch.float64)
        return yy, torch.tensor(pat, dtype=torch.bool)

    yfull, miss = draw(n, c["missing"])
    names = [o[0] + ("(%s)" % o[1] if len(o) > 1 else "") for o in c["ops"]]
    desc = "single n=%d missing=%s data-history %s" % (n, "".join("x" if q else "." for q in c["missing"]), " > ".join(names))
    results = []

    def res(what, ok, detail, pol):
        results.append(dict(key=["datahist", n, c["missing"], names, what], ok=ok, nontrivial=True, sig="C16/datahist/%s/%s" % (what, pol),
                            detail=desc + ": " + detail, case=c))

    def with_nan(yy, mm):
        out = yy.clone()
        out[mm] = float("nan")
        return out

    model, lik = build(torch, gpytorch, "single", x, with_nan(yfull, miss))
    model.eval(); lik.eval()
    cur = model

    def reference():
        fresh, flik = build(torch, gpytorch, "single", x, yfull)
        fresh.load_state_dict({k: v.clone() for k, v in model.state_dict().items()})
        fresh.eval(); flik.eval()
        with torch.no_grad(), settings.observation_nan_policy("ignore"):
            prior = fresh.forward(torch.cat([x, xs], dim=-2))
            K, Kn, mu = prior.covariance_matrix, flik(prior).covariance_matrix, prior.mean
        idx = (~miss).nonzero().squeeze(-1)
        N = x.shape[-2]
        A = Kn[:N, :N][idx][:, idx]
        sol = torch.linalg.solve(A, (yfull[idx] - mu[:N][idx]).unsqueeze(-1)).squeeze(-1)
        return mu[N:] + K[N:, :N][:, idx] @ sol

    def pctx(p):
        return settings.observation_nan_policy(p) if p != "none" else nullcontext()

    ops = list(c["ops"]) + [["P", "mask"], ["P", "fill"]]          # closing observations under both policies
    for step, o in enumerate(ops):
        if o[0] == "P":
            with pctx(o[1]):
                ok, r = core.guarded(lambda: cur(xs).mean.detach().clone())
            if not ok:
                res("raises", False, "step %d Predict(%s) raised %s" % (step, o[1], r), o[1])
                return results
            if torch.isnan(r).any():
                res("nan-in-output", False, "step %d Predict(%s): NaN in the posterior mean" % (step, o[1]), o[1])
                return results
            good, why = core.close(r, reference(), 1e-7, 1e-9)
            res("mean", good, "step %d Predict(%s): posterior mean differs from conditioning on the observed entries of the current data: %s" % (step, o[1], why), o[1])
            if not good:
                return results
        elif o[0] == "R":
            cur.train(); cur.eval()
        elif o[0] == "S":
            yfull, miss = draw(x.shape[-2], o[2] + [False] * (x.shape[-2] - len(o[2])))
            with pctx(o[1]):
                ok, r = core.guarded(lambda: cur.set_train_data(targets=with_nan(yfull, miss), strict=bool(step % 2 == 0)))
            if not ok:
                res("raises", False, "step %d set_train_data(targets) under %s raised %s" % (step, o[1], r), o[1])
                return results
        elif o[0] == "F":
            xf = torch.rand(m, 1, generator=g, dtype=torch.float64) * 2 - 1
            yf, mf = draw(m, o[2])
            with pctx(o[1]):
                ok, r = core.guarded(lambda: cur.get_fantasy_model(xf, with_nan(yf, mf)))
            if not ok:
                res("raises", False, "step %d get_fantasy_model under %s raised %s" % (step, o[1], r), o[1])
                return results
            cur = r
            x = torch.cat([x, xf], dim=-2)
            yfull, miss = torch.cat([yfull, yf]), torch.cat([miss, mf])
    return results


def run_layout_case(torch, gpytorch, c):
    """part layout of NanPolicy.tla on the real likelihood: a multitask function distribution built by hand in the given covariance
    layout (interleaved / task by task) with the given batch rank; the likelihood terms under mask and fill must equal the sum of the
    elementwise terms over the observed (point, task) cells, each computed by hand from the cell's own mean, variance and noise."""
    import math
    from gpytorch import settings
    N, T = c["N"], c["T"]
    il, rank = c["il"], c["rank"]
    bshape = ((), (2,), (2, 2))[rank]
    g = torch.Generator().manual_seed(c["seed"])
    mean = torch.randn(*bshape, N, T, generator=g, dtype=torch.float64)
    A = torch.randn(*bshape, N * T, N * T, generator=g, dtype=torch.float64)
    cov = A @ A.mT / (N * T) + 0.5 * torch.eye(N * T, dtype=torch.float64)
    # the cell held at flat covariance position k, by the documented layouts
    cell_of = [((k // T), (k % T)) if il else ((k % N), (k // N)) for k in range(N * T)]
    var = torch.empty(*bshape, N, T, dtype=torch.float64)
    dg = cov.diagonal(dim1=-1, dim2=-2)
    for k, (i, t) in enumerate(cell_of):
        var[..., i, t] = dg[..., k]
    fdist = gpytorch.distributions.MultitaskMultivariateNormal(mean, cov, interleaved=il)
    lik = gpytorch.likelihoods.MultitaskGaussianLikelihood(num_tasks=T).to(torch.float64)
    with torch.no_grad():
        lik.task_noises = torch.tensor([0.1 + 0.27 * t for t in range(T)], dtype=torch.float64)
        lik.noise = 0.05
    lik.eval()
    noise = (lik.task_noises + lik.noise).detach().reshape(*([1] * len(bshape)), 1, T).expand(*bshape, N, T)
    yfull = torch.randn(*bshape, N, T, generator=g, dtype=torch.float64)
    obs = torch.zeros(N, T, dtype=torch.bool)
    for (i, t) in c["obs"]:
        obs[i - 1, t - 1] = True
    y = yfull.clone()
    y[..., ~obs] = float("nan")
    desc = "layout %s batch-rank %d observed cells %s" % ("interleaved" if il else "task-major", rank, sorted(map(tuple, c["obs"])))
    results = []
    elem = dict(expected_log_prob=-0.5 * (((yfull - mean).square() + var) / noise + noise.log() + math.log(2 * math.pi)),
                log_marginal=-0.5 * ((yfull - mean).square() / (var + noise) + (var + noise).log() + math.log(2 * math.pi)))
    for pol in ("mask", "fill"):
        with torch.no_grad(), settings.observation_nan_policy(pol):
            ok, v = core.guarded(lambda: dict(expected_log_prob=lik.expected_log_prob(y, fdist).clone(), log_marginal=lik.log_marginal(y, fdist).clone()))
        for nm in ("expected_log_prob", "log_marginal"):
            sig = "C16/layout/%s/rank%d/%s/%s" % ("interleaved" if il else "task-major", rank, pol, nm)
            key = ["layout", il, rank, c["obs"], pol, nm]
            if not ok:
                results.append(dict(key=key, ok=False, nontrivial=True, sig=sig + "/raises", detail=desc + ": %s raises under %s: %s" % (nm, pol, v), case=c))
                continue
            want = (elem[nm] * obs).reshape(*bshape, -1).sum(-1)
            got = v[nm]
            if torch.isnan(got).any():
                results.append(dict(key=key, ok=False, nontrivial=True, sig=sig + "/nan", detail=desc + ": NaN in %s under %s" % (nm, pol), case=c))
                continue
            gsum = got.reshape(*bshape, -1).sum(-1) if bshape else got.sum()
            good, why = core.close(gsum, want, 1e-10, 1e-12)
            results.append(dict(key=key, ok=good, nontrivial=True, sig=sig, case=c,
                                detail=desc + ": sum of the %s terms under %s differs from the sum of the observed cells' own terms: %s" % (nm, pol, why)))
    return results


def full_e_elem(torch, lik, y, fdist, nm):
    """elementwise (point x task) terms of the multitask Gaussian likelihood from its own noise diagonal"""
    import math
    noise = lik._shaped_noise_covar(fdist.mean.shape).diagonal(dim1=-1, dim2=-2).view(*fdist.mean.shape)
    mean, var = fdist.mean, fdist.variance
    if nm == "expected_log_prob":
        return -0.5 * (((y - mean).square() + var) / noise + noise.log() + math.log(2 * math.pi))
    tot = var + noise
    return -0.5 * ((y - mean).square() / tot + tot.log() + math.log(2 * math.pi))


def run(ck):
    thorough = ck.tier == "thorough"
    core.setup_torch()
    rnd = random.Random(ck.seed)
    ck.rule = ("cases = every NaN pattern over n training points (single output: all 2^n - 1 patterns with an observed point; multitask and batched: "
               "seeded patterns per task / per batch element incl. none and all-but-one) x every order of policy switches from NanPolicy.tla's machine; "
               "each prediction compared with the Gaussian conditional on the observed entries computed from the model's own prior and noise; "
               "non-trivial = at least one missing entry")
    ck.assumptions = ["'rescaled by the count of observed values' is read as N * mll(mask) = N_obs * mll(deleted data)",
                      "policy mask on batched targets masks an entry for the whole batch (documented); fill is per element",
                      "fill is not supported by ExactMarginalLogLikelihood (documented)"]
    wd = os.path.join(tlc.BUILD, PID)
    insts = gen_instances(rnd, 1200 if thorough else 250)
    jobs = []
    mod, cfg = write_mc(wd, "algebra", "algebra", insts, cov_masked=True, invariants=["MaskIsDeletion", "FillIsDeletion", "CovIsDeletion", "UnmaskedCovIsTooSmall"])
    jobs.append(((mod, cfg), dict(name=PID + "/algebra", check=False, workers=8, timeout=1500)))
    mod, cfg = write_mc(wd, "codecov", "algebra", insts[:120], cov_masked=False, invariants=["CovIsDeletion"])
    jobs.append(((mod, cfg), dict(name=PID + "/codecov", check=False, workers=4, timeout=900)))
    L = 4 if thorough else 3
    mod, cfg = write_mc(wd, "machine", "machine", maxlen=L, invariants=["ServedUnderCurrentPolicy"])
    jobs.append(((mod, cfg), dict(name=PID + "/machine", check=False, workers=2, dump=True)))
    mod, cfg = write_mc(wd, "machine_broken", "machine", maxlen=3, keyed=False, invariants=["ServedUnderCurrentPolicy"])
    jobs.append(((mod, cfg), dict(name=PID + "/machine_broken", check=False, workers=2)))
    mod, cfg = write_mc(wd, "datahist", "datahist", maxlen=L, invariants=["ServedCurrent"])
    jobs.append(((mod, cfg), dict(name=PID + "/datahist", check=False, workers=2, dump=True)))
    mod, cfg = write_mc(wd, "datahist_active", "datahist", maxlen=3, invariants=["ServedCurrent"], set_clears="active")
    jobs.append(((mod, cfg), dict(name=PID + "/datahist_active", check=False, workers=2)))
    mod, cfg = write_mc(wd, "datahist_live", "datahist", maxlen=3, invariants=["ServedCurrent"], fant_live=True)
    jobs.append(((mod, cfg), dict(name=PID + "/datahist_live", check=False, workers=2)))
    mod, cfg = write_mc(wd, "layout", "layout", invariants=["LayoutPaired"])
    jobs.append(((mod, cfg), dict(name=PID + "/layout", check=False, workers=2, dump=True)))
    mod, cfg = write_mc(wd, "layout_meanrank", "layout", invariants=["LayoutPaired"], layout_test="meanrank")
    jobs.append(((mod, cfg), dict(name=PID + "/layout_meanrank", check=False, workers=2)))
    rs = tlc.run_many(jobs, parallel=4)
    lay, lay_broken = rs[7], rs[8]
    ck.add_tlc(lay, "layout (covariance order of a multitask distribution x batch rank under mask)")
    ck.add_tlc(lay_broken, "task-major distribution recognised by the rank of its mean (must be rejected)")
    if lay.violation:
        ck.model_drift("NanPolicy.tla part layout violates %s: %s" % (lay.violation["name"], str(lay.violation["trace"][:1])[:300]))
    elif lay.rc != 0:
        raise tlc.TLCError("TLC failed on NanPolicy layout:\n%s" % lay.stdout[-1500:])
    if not lay_broken.violation:
        ck.vacuous("the layout model that recognises a task-major distribution by the rank of its mean is accepted by TLC")
    rs, dh, dh_active, dh_live = rs[:4], rs[4], rs[5], rs[6]
    for lab, r in zip(("datahist (targets replaced / fantasies between predictions)", "set_train_data clears only the active policy's entry (must be rejected)",
                       "NaN-unaware fantasy mean cache found by later predictions (must be rejected)"), (dh, dh_active, dh_live)):
        ck.add_tlc(r, lab)
    if dh.violation:
        ck.model_drift("NanPolicy.tla datahist violates %s" % dh.violation["name"])
    if not dh_active.violation or not dh_live.violation:
        ck.vacuous("a broken data-history model is accepted by TLC")
    for lab, r in zip(("algebra (mask/fill = deletion, exact rationals)", "current-code covariance (prediction)", "policy-keyed cache machine", "cache keyed without policy (must be rejected)"), rs):
        ck.add_tlc(r, lab)
    if rs[0].violation:
        ck.model_drift("NanPolicy.tla algebra violates %s" % rs[0].violation["name"])
    elif rs[0].rc != 0:
        raise tlc.TLCError("TLC failed on NanPolicy algebra:\n" + rs[0].stdout[-1500:])
    ck.extra["model_prediction_unmasked_covariance"] = (rs[1].violation or {}).get("name")
    if rs[2].violation:
        ck.model_drift("NanPolicy.tla machine violates %s" % rs[2].violation["name"])
    if not rs[3].violation:
        ck.vacuous("cache machine keyed without the policy is accepted by TLC")
    seqs = set()
    for st in rs[2].states():
        h = st["hist"]
        if len(h) == L:
            seq = tuple(e["policy"] if e["a"] == "Predict" else "Reset" for e in h)
            if seq[0] != "Reset" and not any(a == b == "Reset" for a, b in zip(seq, seq[1:])):
                seqs.add(seq)
    seqs = sorted(seqs)
    if not seqs:
        ck.vacuous("no policy sequences generated")
    ck.section("machine", policy_sequences=len(seqs))
    cases = []
    n = 5 if thorough else 4
    pats = [p for p in itertools.product((False, True), repeat=n) if not all(p)]
    for k, pat in enumerate(pats):
        for j, seq in enumerate(seqs):
            if thorough or (k + j) % 3 == 0 or sum(pat) in (0, n - 1):
                cases.append(dict(kind="single", n=n, missing=list(pat), policies=list(seq), seed=ck.seed * 100 + k))
    for k in range(40 if thorough else 12):
        nn = 3
        pat = [rnd.random() < 0.35 for _ in range(nn * 2)]
        if k == 0:
            pat = [False] * (nn * 2)
        if k == 1:
            pat = [True] * (nn * 2 - 1) + [False]
        if all(pat):
            pat[0] = False
        for seq in seqs[:: (1 if thorough else 3)]:
            cases.append(dict(kind="mtask", n=nn, missing=pat, policies=list(seq), seed=ck.seed * 100 + 50 + k))
    for k in range(30 if thorough else 8):
        nn = 4
        pat = [rnd.random() < 0.3 for _ in range(nn * 2)]
        u = [pat[i] or pat[nn + i] for i in range(nn)]
        if all(u):
            pat[0] = pat[nn] = False
        for seq in seqs[:: (1 if thorough else 3)]:
            cases.append(dict(kind="batch", n=nn, missing=pat, policies=list(seq), seed=ck.seed * 100 + 80 + k))
    for k in range(20 if thorough else 6):          # two batch dimensions (the mask is the union over ALL batch dimensions)
        nn = 3
        pat = [rnd.random() < 0.25 for _ in range(nn * 4)]
        if k == 0:
            pat = [False] * (nn * 4)
        u = [any(pat[b * nn + i] for b in range(4)) for i in range(nn)]
        if all(u):
            for b in range(4):
                pat[b * nn] = False
        for seq in seqs[:: (1 if thorough else 3)]:
            cases.append(dict(kind="batch2", n=nn, missing=pat, policies=list(seq), seed=ck.seed * 100 + 120 + k))
    lays = 0
    for st in lay.states():
        q = st["c"]
        cases.append(dict(kind="layout", N=2, T=3, il=bool(q["il"]), rank=int(q["rank"]), obs=sorted([int(e[0]), int(e[1])] for e in q["obs"]), seed=ck.seed * 100 + 700 + lays))
        lays += 1
    if not lays:
        ck.vacuous("no layout cases generated")
    ck.section("layout", cases=lays)
    # data histories: maximal TLC histories that contain a SetTargets or a Fantasy; NaN patterns of the new targets rotate
    dhs = set()
    for st in dh.states():
        h = st["hist"]
        if len(h) == L and any(str(e["a"]) in ("SetTargets", "Fantasy") for e in h):
            dhs.add(tuple((str(e["a"]), str(e.get("policy", e.get("under", "")))) for e in h))
    dhs = sorted(dhs)
    if not dhs:
        ck.vacuous("no data histories generated")
    ck.section("datahist", histories=len(dhs))
    spats = [[False, True, False, False], [True, False, False, True], [False, False, False, False]]
    fpats = [[True, False], [False, False], [False, True]]
    for j, h in enumerate(dhs):
        for q in range(3 if thorough else 1):
            ops = []
            for i, (a, arg) in enumerate(h):
                if a == "Predict":
                    ops.append(["P", arg])
                elif a == "Reset":
                    ops.append(["R"])
                elif a == "SetTargets":
                    ops.append(["S", arg, spats[(j + i + q) % 3]])
                else:
                    ops.append(["F", arg, fpats[(j + i + q) % 3]])
            init = [[False, True, False, False], [False, False, False, False], [True, False, True, False]][(j + q) % 3]
            cases.append(dict(kind="datahist", n=4, missing=init, ops=ops, seed=ck.seed * 100 + 300 + j))
    # value class "an observed target equals the fill sentinel" (NanPolicy.tla instances with y = -999 at an observed index)
    cases += [dict(cc, sentinel=True) for i, cc in enumerate(cases) if cc.get("kind") != "datahist" and ((thorough and i % 2 == 0) or i % 5 == 0)]
    items = [dict(cases=cases[i:i + 8]) for i in range(0, len(cases), 8)]
    results = core.pmap(_worker, items, chunksize=1)
    ck.absorb(results)
    ck.section("replay", cases=len(cases), comparisons=len(results))


def replay(rep):
    torch = core.setup_torch()
    import gpytorch
    fn = run_data_history if rep["case"].get("kind") == "datahist" else (run_layout_case if rep["case"].get("kind") == "layout" else run_case)
    bad = [r for r in fn(torch, gpytorch, dict(rep["case"])) if not r["ok"]]
    for r in bad:
        print("VIOLATION property=C16 replay=- :: %s :: %s" % (r["sig"], r["detail"]))
    if not bad:
        print("replay passed")
    return 1 if bad else 0
