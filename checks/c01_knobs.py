"""C01, level L3 - the NUMERICAL-accuracy knobs of exact prediction (ExactPosterior.tla part "knobs").

Every cell of the knob lattice sets the real settings exactly as the cell says - in particular a knob that the cell leaves
at its default is NOT touched - on a model large enough (n >= 40) that a loose tolerance / a truncated rank is visible, and
the prediction is compared with the dense Gaussian conditional at the precision the spec derives for the cell:

  <<"exact">>          direct algorithm (Cholesky)                   -> 1e-7 relative + 1e-9 absolute
  <<"residual", e>>    CG stopped at relative residual 10^e          -> the residual bound below
  <<"fullrank">>       Lanczos root of (Kxx+S)^-1 at rank >= n       -> the tridiagonal-jitter bound below
  <<"none">>           the documented knobs promise nothing          -> not compared (counted)

Residual bound.  linear_cg stops when the mean over the C right-hand sides of ||r_j|| / ||b_j|| is below the tolerance, so
every column has ||b_j - A x_j|| <= C * rho * ||b_j||; it cannot go below its own floor, the safe division by
eps = 1e-10 (no update once p'Ap < 1e-10 in rhs-normalised units, i.e. ||r|| <~ 1e-5 / sqrt(lambda_min(A))).  With
rho = max(10^e, 1e-5 / sqrt(lambda_min)), w_i = A^-1 k_i (k_i = K(x, x*_i)):
   |mean_i - cond_i|    = |w_i' r|        <= rho * ||y - m|| * ||w_i||
   |cov_ij - cond_ij|   = |w_i' R_j|      <= C * rho * ||k_j|| * ||w_i||        (C = number of test columns x batch)
(all norms from the dense oracle).  The comparison uses SAFETY x these bounds plus the direct-path tolerance.

Full-rank Lanczos bound.  The root is that of (T + delta I)^-1 with delta = tridiagonal_jitter * min diag T and
min diag T <= trace(A)/n at full rank, hence |cov_ij - cond_ij| <~ delta * ||w_i|| * ||w_j||; used with SAFETY plus a float
floor of 1e-4 relative + 1e-6 absolute (the error of a full-rank Lanczos root has a heavy tail over its random probe vector:
1e-7 typically, above 1e-5 three times and 4e-4 once in 7200 draws at n = 48..60, because lanczos_tridiag stops early when its
re-orthogonalisation fails; a truncated rank shows as 1e-4 .. 1e-1 for EVERY probe).  Hence a full-rank cell fails only when
PROBE_DRAWS independent probes all miss the tolerance, and the spec promises nothing for Lanczos above n = 800 (on a fixed-noise
model with n = 804, 2 probes in 8 stop at rank 803 and are off by 1e-3).  The global RNG is seeded per case so that the probes - and with them the verdict - are reproducible.
"""
import math
from contextlib import ExitStack

from harness import core

SAFETY = 2.0
CG_FLOOR = 1e-5          # sqrt(eps) of linear_cg's safe division
PROBE_DRAWS = 4
LANCZOS_RT, LANCZOS_AT = 1e-4, 1e-6   # float floor of a full-rank Lanczos root started from a random probe (heavy tail over the probe)
MAXITER = dict(raised=4000, lowered=25)
SIZES = dict(le100=(48, 60), gt100=(120, 132), gt800=(804, 812))

FIELDS = ("nclass", "mcs", "solves", "rootfast", "fpv", "evaltol", "cgtol", "maxiter", "precond", "rootsize", "probes", "trace", "lq")


def cell_name(cell):
    return ",".join("%s=%s" % (k, cell[k]) for k in FIELDS)


def off_default(cell):
    d = dict(evaltol=-2, cgtol=0, maxiter="default", precond="default", rootsize="default", probes=1, trace="default", lq="default")
    return sorted(k for k, v in d.items() if cell[k] != v)


def contexts(settings, cell, n):
    """the real settings of a knob cell; defaults are left untouched"""
    cms = []
    if cell["mcs"] != "default":
        cms.append(settings.max_cholesky_size(dict(zero=0, below=n - 1, equal=n)[cell["mcs"]]))
    if not (cell["solves"] and cell["rootfast"]):
        cms.append(settings.fast_computations(solves=bool(cell["solves"]), covar_root_decomposition=bool(cell["rootfast"]), log_prob=True))
    if cell["fpv"] or cell["probes"] != 1:
        cms.append(settings.fast_pred_var(bool(cell["fpv"]), num_probe_vectors=int(cell["probes"])))
    if cell["evaltol"] != -2:
        cms.append(settings.eval_cg_tolerance(10.0 ** cell["evaltol"]))
    if cell["cgtol"] != 0:
        cms.append(settings.cg_tolerance(10.0 ** cell["cgtol"]))
    if cell["maxiter"] != "default":
        cms.append(settings.max_cg_iterations(MAXITER[cell["maxiter"]]))
    if cell["precond"] == "off":
        cms.append(settings.max_preconditioner_size(0))
    elif cell["precond"] == "active-small":
        cms += [settings.min_preconditioning_size(0), settings.max_preconditioner_size(5)]
    elif cell["precond"] == "active-default":
        cms.append(settings.min_preconditioning_size(0))
    if cell["rootsize"] != "default":
        cms.append(settings.max_root_decomposition_size(dict(n=n, twice=2 * n, half=n // 2)[cell["rootsize"]]))
    if cell["trace"] != "default":
        cms.append(settings.num_trace_samples(1))
    if cell["lq"] != "default":
        cms.append(settings.max_lanczos_quadrature_iterations(50))
    return cms


FAMS = [dict(kernel="rbf", lik="gaussian", batch=[]), dict(kernel="matern", lik="fixed", batch=[]), dict(kernel="rbf", lik="gaussian", batch=[2])]


def build(torch, gpytorch, fam, n, ns, seed):
    """a model whose kernel matrix is not trivially conditioned: short lengthscale, noise 5-9% of the signal variance"""
    D = torch.float64
    g = torch.Generator().manual_seed(seed)
    mb = tuple(fam["batch"])
    side = 4.0 * math.sqrt(n / 60.0)
    X = torch.rand(*mb, n, 2, generator=g, dtype=D) * side
    Xs = torch.rand(*mb, ns, 2, generator=g, dtype=D) * side
    y = torch.sin(X.sum(-1)) + 0.3 * torch.randn(*mb, n, generator=g, dtype=D)
    bs = torch.Size(mb)
    K = gpytorch.kernels
    base = K.RBFKernel(batch_shape=bs) if fam["kernel"] == "rbf" else K.MaternKernel(nu=2.5, batch_shape=bs)
    os_ = 1.0 + 0.6 * float(torch.rand(1, generator=g))
    ls = 0.5 + 0.3 * float(torch.rand(1, generator=g))
    nz = os_ * (0.05 + 0.04 * float(torch.rand(1, generator=g)))
    noise_tr = noise_te = None
    if fam["lik"] == "fixed":
        noise_tr = nz * (1 + 0.5 * torch.rand(*mb, n, generator=g, dtype=D))
        noise_te = nz * (1 + 0.5 * torch.rand(*mb, ns, generator=g, dtype=D))
        lik = gpytorch.likelihoods.FixedNoiseGaussianLikelihood(noise=noise_tr)
    else:
        lik = gpytorch.likelihoods.GaussianLikelihood(batch_shape=bs)

    class M(gpytorch.models.ExactGP):
        def __init__(s_, x, yy, l):
            super().__init__(x, yy, l)
            s_.mean_module = gpytorch.means.ConstantMean(batch_shape=bs)
            s_.covar_module = K.ScaleKernel(base, batch_shape=bs)

        def forward(s_, x):
            return gpytorch.distributions.MultivariateNormal(s_.mean_module(x), s_.covar_module(x))
    model = M(X, y, lik).to(D)
    lik = lik.to(D)
    with torch.no_grad():
        model.covar_module.outputscale = os_
        model.covar_module.base_kernel.lengthscale = ls
        model.mean_module.constant = 0.3
        if fam["lik"] != "fixed":
            lik.noise = nz
    model.eval()
    lik.eval()
    return model, lik, X, Xs, y, noise_tr, noise_te


def oracle(torch, settings, model, lik, fam, X, Xs, y, noise_tr, noise_te):
    """the dense Gaussian conditional on the model's own K, m, S and the quantities the bounds need"""
    n = X.shape[-2]
    with torch.no_grad(), settings.lazily_evaluate_kernels(True):
        prior = model.forward(torch.cat([X, Xs], dim=-2))
        Kj, mj = prior.covariance_matrix, prior.mean
        if fam["lik"] == "fixed":
            Str, Ste = torch.diag_embed(noise_tr), torch.diag_embed(noise_te)
        else:
            ptr, pte = model.forward(X), model.forward(Xs)
            Str = lik(ptr).covariance_matrix - ptr.covariance_matrix
            Ste = lik(pte).covariance_matrix - pte.covariance_matrix
        A = Kj[..., :n, :n] + Str
        ev = torch.linalg.eigvalsh(A)
        Lc = torch.linalg.cholesky(A)
        Ksx = Kj[..., n:, :n]
        b = y - mj[..., :n]
        W = torch.cholesky_solve(Ksx.transpose(-1, -2), Lc)                     # columns w_i = A^-1 k_i
        wm = mj[..., n:] + (Ksx @ torch.cholesky_solve(b.unsqueeze(-1), Lc)).squeeze(-1)
        wc = Kj[..., n:, n:] - Ksx @ W
    return dict(mean=wm, cov=wc, marg=wc + Ste, lmin=float(ev.min()), cond=float((ev[..., -1] / ev[..., 0]).max()),
                bnorm=b.norm(dim=-1), wnorm=W.norm(dim=-2), knorm=Ksx.norm(dim=-1), trace_over_n=torch.diagonal(A, dim1=-1, dim2=-2).mean(-1))


def tolerances(torch, prec_mean, prec_cov, o, jitter):
    """elementwise absolute tolerances (None = not compared) + the relative part, from the precision the spec derived"""
    ncols = o["cov"].shape[-1] * max(1, o["cov"][..., 0, 0].numel())

    def rho(e):
        return max(10.0 ** e, CG_FLOOR / math.sqrt(o["lmin"]))
    tm = tc = None
    if prec_mean[0] == "exact":
        tm = (1e-7, torch.full_like(o["mean"], 1e-9))
    elif prec_mean[0] == "residual":
        tm = (1e-7, 1e-9 + SAFETY * rho(prec_mean[1]) * o["bnorm"].unsqueeze(-1) * o["wnorm"])
    if prec_cov[0] == "exact":
        tc = (1e-7, torch.full_like(o["cov"], 1e-9))
    elif prec_cov[0] == "residual":
        tc = (1e-7, 1e-9 + SAFETY * ncols * rho(prec_cov[1]) * o["wnorm"].unsqueeze(-1) * o["knorm"].unsqueeze(-2))
    elif prec_cov[0] == "fullrank":
        tc = (LANCZOS_RT, LANCZOS_AT + SAFETY * jitter * o["trace_over_n"][..., None, None] * o["wnorm"].unsqueeze(-1) * o["wnorm"].unsqueeze(-2))
    return tm, tc


def within(torch, got, want, tol):
    rt, at = tol
    scale = max(float(got.abs().max()), float(want.abs().max()))
    if not bool(torch.isfinite(got).all()):
        return False, "non-finite values", float("inf")
    excess = (got - want).abs() / (at + rt * scale)
    worst = float(excess.max())
    if worst <= 1.0:
        return True, "", worst
    k = int(excess.argmax())
    return False, "max|diff|=%.3e where the knob-derived tolerance is %.3e (x%.1f)" % (float((got - want).abs().reshape(-1)[k]), float((at + rt * scale).reshape(-1)[k]) if hasattr(at, "reshape") else at + rt * scale, worst), worst


def sig_of(cell, exp):
    knobs = off_default(cell)
    return "C01/L3/%s-%s%s/%s/%s" % (exp["solve"], ("root-" + exp["root"]) if cell["fpv"] else "direct", "" if cell["nclass"] == "le100" else "/" + cell["nclass"],
                                    "mean-%s,cov-%s" % ("".join(map(str, exp["mean"])), "".join(map(str, exp["cov"]))), "+".join(knobs) or "defaults")


def run_l3(torch, gpytorch, settings, c):
    cell, exp, fam, seed = c["cell"], c["exp"], c["fam"], c["seed"]
    n = SIZES[cell["nclass"]][seed % 2]
    ns = 4
    desc = "%s/%s batch=%s n=%d seed=%d knobs{%s} -> solve=%s root=%s mean=%s cov=%s" % (fam["kernel"], fam["lik"], fam["batch"], n, seed, cell_name(cell), exp["solve"], exp["root"], exp["mean"], exp["cov"])
    res = dict(key=["L3", fam, cell_name(cell)], ok=True, nontrivial=True, case=c)
    model, lik, X, Xs, y, noise_tr, noise_te = build(torch, gpytorch, fam, n, ns, seed)
    o = oracle(torch, settings, model, lik, fam, X, Xs, y, noise_tr, noise_te)
    if o["cond"] > 1e4:
        res.update(nontrivial=False, n=0)
        return res
    import linear_operator
    tm, tc = tolerances(torch, exp["mean"], exp["cov"], o, float(linear_operator.settings.tridiagonal_jitter.value()))
    if tm is None and tc is None:
        res.update(nontrivial=False, n=0, nopromise=True)
        return res
    sig = sig_of(cell, exp)
    lk = {"noise": noise_te} if fam["lik"] == "fixed" else {}

    def go(probe_seed=None):
        torch.manual_seed(seed if probe_seed is None else probe_seed)      # the Lanczos probe vector is drawn from the global generator
        model.train()
        model.eval()                                                       # no caches from an earlier probe
        with torch.no_grad(), ExitStack() as st:
            for cm in contexts(settings, cell, n):
                st.enter_context(cm)
            post = model(Xs)
            mean, cov, var = post.mean.clone(), post.covariance_matrix.clone(), post.variance.clone()
            marg = lik(post, **lk)
            return mean, cov, var, marg.mean.clone(), marg.covariance_matrix.clone()
    ok, got = core.guarded(go)
    if not ok:
        res.update(ok=False, sig=sig + "/raises", detail="%s: %s" % (desc, got))
        return res
    mean, cov, var, mmean, mcov = got
    margins = {}
    if tm is not None:
        ok, why, margins["mean"] = within(torch, mean.reshape(o["mean"].shape), o["mean"], tm)
        if not ok:
            return res.update(ok=False, sig=sig + "/mean", detail="%s: posterior mean is not the Gaussian conditional at the precision the settings promise: %s" % (desc, why)) or res
        ok, why, _ = within(torch, mmean.reshape(o["mean"].shape), o["mean"], tm)
        if not ok:
            return res.update(ok=False, sig=sig + "/likelihood-noise", detail="%s: likelihood(posterior) mean: %s" % (desc, why)) or res
    if tc is not None:
        ok, why, margins["cov"] = within(torch, cov.reshape(o["cov"].shape), o["cov"], tc)
        if not ok and exp["cov"][0] == "fullrank":
            # a Lanczos root is exact for almost every probe vector only (early termination when a re-orthogonalisation fails): the cell
            # fails when PROBE_DRAWS independent probes all miss the tolerance - a truncated rank misses it for every probe
            for extra in range(1, PROBE_DRAWS):
                ok2, got2 = core.guarded(lambda: go(seed * 31 + extra))
                if not ok2:
                    break
                ok2, _, m2 = within(torch, got2[1].reshape(o["cov"].shape), o["cov"], tc)
                if ok2:
                    ok, res["probe_redrawn"], margins["cov"] = True, extra, m2
                    mean, cov, var, mmean, mcov = got2
                    break
        if not ok:
            return res.update(ok=False, sig=sig + "/covariance", detail="%s: posterior covariance is not the Gaussian conditional at the precision the settings promise: %s" % (desc, why)) or res
        dg = torch.diagonal(o["cov"], dim1=-1, dim2=-2)
        tv = (tc[0], torch.diagonal(tc[1], dim1=-1, dim2=-2) if hasattr(tc[1], "dim") and tc[1].dim() >= 2 else tc[1])
        ok, why, _ = within(torch, var.reshape(dg.shape), dg.clamp_min(0), tv)
        if not ok:
            return res.update(ok=False, sig=sig + "/variance", detail="%s: variance vs diagonal of the conditional covariance: %s" % (desc, why)) or res
        ok, why, _ = within(torch, mcov.reshape(o["marg"].shape), o["marg"], tc)
        if not ok:
            return res.update(ok=False, sig=sig + "/likelihood-noise", detail="%s: likelihood(posterior) is not posterior + observation noise: %s" % (desc, why)) or res
    res["margins"] = margins
    if seed % 7 == 0 and off_default(cell):
        res["sample"] = dict(case=desc)
    return res
