"""C12 - Gaussian-family likelihoods add exactly the specified noise, integrate exactly.
Spec: Noise.tla.  TLC enumerates the configuration lattice (class x learn_additional_noise x call-time noise x shapes x
multitask switches x layout x batch shapes x entry point x positional extras, and LikelihoodList argument routing); every
state carries the DECLARATIVE bag of noise terms (Expected) and the transcribed code's bag (Code).  The replay gives
every noise source a distinguishable magnitude, runs the real likelihood, decodes the bag of terms that was actually
added from likelihood(dist).covariance_matrix - dist.covariance_matrix (resp. from expected_log_prob / log_marginal /
the conditional's variance through the closed forms) and compares it, entry by entry, with the declarative bag."""
import itertools
import math
import os

from harness import core, tlc

LEVEL = "model_checking"
PID = "C12"

CLASSNAME = {"G": "GaussianLikelihood", "GM": "GaussianLikelihoodWithMissingObs", "F": "FixedNoiseGaussianLikelihood",
             "Dir": "DirichletClassificationLikelihood", "MT": "MultitaskGaussianLikelihood",
             "Het": "HeteroskedasticNoise", "List": "LikelihoodList"}
OPNAME = {"call": "marginal", "elp": "expected_log_prob", "lm": "log_marginal", "cond": "conditional"}
ALL_REPAIRS = ("second_kwargs", "list_kwargs", "dirichlet_eps")
# Which of the repairs suggested by this check are present in the tree under test: the code-shaped model Code() follows it.
# () models the pinned code.  After committing the corresponding fix to /repo add its name here, otherwise the check still
# passes but reports MODEL-DRIFT (the model then predicts failures the repaired code no longer has).
REPAIRS_IN_TREE = ("second_kwargs", "list_kwargs", "dirichlet_eps")  # the three fix: commits are in /repo
if os.environ.get("VERIF_C12_REPAIRS"):          # development override, e.g. VERIF_C12_REPAIRS=second_kwargs,list_kwargs
    REPAIRS_IN_TREE = tuple(x for x in os.environ["VERIF_C12_REPAIRS"].split(",") if x in ALL_REPAIRS)

FAMILIES = ["gauss", "fixed", "dirichlet", "multitask", "het", "list"]
ACTION = {"gauss": "PickGauss", "fixed": "PickFixed", "dirichlet": "PickDir", "multitask": "PickMT", "het": "PickHet", "list": "PickList"}


# ---------------------------------------------------------------------------------------------
# TLC side
def tla_shape(s):
    return "<<" + ", ".join(str(int(x)) for x in s) + ">>"


def write_mc(workdir, name, family, repairs, T, K, likb, inb, invariants):
    os.makedirs(workdir, exist_ok=True)
    mod = "MC_Noise_" + name
    with open(os.path.join(workdir, mod + ".tla"), "w") as f:
        f.write("---- MODULE %s ----\nEXTENDS Noise\nLikBatchesDef == {%s}\nInBatchesDef == {%s}\n====\n" % (
            mod, ", ".join(tla_shape(s) for s in likb), ", ".join(tla_shape(s) for s in inb)))
    cfg = os.path.join(workdir, mod + ".cfg")
    tlc.write_cfg(cfg, spec="Spec", constants={"Family": family, "Repairs": set(repairs), "T": T, "K": K,
                                               "LikBatches": "<- LikBatchesDef", "InBatches": "<- InBatchesDef"},
                  invariants=invariants)
    return os.path.join(workdir, mod + ".tla"), cfg


def bag(b):
    return {str(k): int(v) for k, v in dict(b).items() if int(v)}


def res_of(r):
    return dict(terms=bag(r["terms"]), batch=[int(x) for x in r["batch"]], err=str(r["err"]))


def cell_of(st):
    c = st["cfg"]
    if str(c["cls"]) == "List":
        cfg = dict(cls="List", members=[str(x) for x in c["members"]], op=str(c["op"]), noise=str(c["noise"]), argform=str(c["argform"]))
        return dict(cfg=cfg, exp=[res_of(r) for r in st["exp"]], code=[res_of(r) for r in st["code"]])
    cfg = {}
    for k, v in c.items():
        if isinstance(v, bool):
            cfg[str(k)] = v
        elif isinstance(v, int):
            cfg[str(k)] = int(v)
        elif isinstance(v, (tuple, list)):
            cfg[str(k)] = [int(x) for x in v]
        else:
            cfg[str(k)] = str(v)
    return dict(cfg=cfg, exp=res_of(st["exp"]), code=res_of(st["code"]))


# ---------------------------------------------------------------------------------------------
# numeric side: magnitudes (every source distinguishable, every batch element distinguishable)
def _prod(s):
    p = 1
    for x in s:
        p *= int(x)
    return p


def _lin(torch, batch):
    """linear index of the batch element, shaped like the batch"""
    return torch.arange(_prod(batch), dtype=torch.float64).reshape(tuple(batch)) if len(batch) else torch.zeros((), dtype=torch.float64)


def mag_homo(torch, lb, k=0):
    return (1.0 + 0.25 * (_lin(torch, lb) + k)).unsqueeze(-1)


def mag_second(torch, lb, k=0):
    return (0.3 + 0.0625 * (_lin(torch, lb) + k)).unsqueeze(-1)


def mag_global(torch, lb):
    return (7.0 + 0.5 * _lin(torch, lb)).unsqueeze(-1)


def mag_fixed(torch, fbatch, n, k=0):
    return 10.0 * (torch.arange(n, dtype=torch.float64) + 1) + (_lin(torch, fbatch) + k).unsqueeze(-1)


def mag_call(torch, cbatch, n, k=0):
    return 1000.0 * (torch.arange(n, dtype=torch.float64) + 1) + 100.0 * (_lin(torch, cbatch) + k).unsqueeze(-1)


def mag_task(torch, lb, t):
    return 1e5 * (torch.arange(t, dtype=torch.float64) + 1) + 1e4 * _lin(torch, lb).unsqueeze(-1)


def mag_factor(torch, lb, t, r):
    a = torch.arange(t, dtype=torch.float64).unsqueeze(-1) + 1
    k = torch.arange(r, dtype=torch.float64).unsqueeze(0)
    w = a ** (k + 1) / (k + 1)
    return 300.0 * (1.0 + 0.1 * _lin(torch, lb)).reshape(*lb, 1, 1) * w


def dirichlet_sigma2(torch, targets, K, eps):
    """Milios et al. as documented in the class: alpha = eps + [label == c]; sigma2 = log(1/alpha + 1); K x n"""
    alpha = torch.full((K, targets.shape[-1]), eps, dtype=torch.float64)
    alpha[targets, torch.arange(targets.shape[-1])] += 1.0
    return torch.log(1.0 / alpha + 1.0)


def dir_targets(torch, K, n, shift):
    return torch.tensor([(K - 1 - i + shift) % K for i in range(n)], dtype=torch.long)


def make_dist(torch, gen, ib, n, t, inter):
    from gpytorch.distributions import MultitaskMultivariateNormal, MultivariateNormal
    m = n * (t or 1)
    A = torch.randn(*ib, m, m, generator=gen, dtype=torch.float64)
    C = A @ A.transpose(-1, -2) / m + 0.5 * torch.eye(m, dtype=torch.float64)
    if t:
        mean = torch.randn(*ib, n, t, generator=gen, dtype=torch.float64)
        d = MultitaskMultivariateNormal(mean, C, interleaved=inter)
        pos = [[(i * t + a) if inter else (a * n + i) for a in range(t)] for i in range(n)]
        c = torch.diagonal(C, dim1=-1, dim2=-2)[..., torch.tensor(pos)]          # variance of output (i, a), read from C by layout
        y = torch.randn(*ib, n, t, generator=gen, dtype=torch.float64)
    else:
        mean = torch.randn(*ib, n, generator=gen, dtype=torch.float64)
        d = MultivariateNormal(mean, C)
        c = torch.diagonal(C, dim1=-1, dim2=-2).clone()
        y = torch.randn(*ib, n, generator=gen, dtype=torch.float64)
    return d, mean, C, c, y


def diag_m(torch, v):
    return torch.diag_embed(v)


def closed_elp(torch, y, m, c, r):
    """E_{N(m, diag c)}[log N(y | f, diag r)], elementwise"""
    return -0.5 * torch.log(2 * math.pi * r) - ((y - m) ** 2 + c) / (2 * r)


def closed_lm(torch, y, m, c, r):
    """log N(y | m, c + r), elementwise"""
    return -0.5 * torch.log(2 * math.pi * (c + r)) - (y - m) ** 2 / (2 * (c + r))


class Built:
    """one likelihood with its term tensors.  M[name]: (*param batch, m, m) covariance contribution;
    V[name]: (*param batch, n[, t]) per-output variance contribution"""

    def __init__(self):
        self.lik = None
        self.M = {}
        self.V = {}
        self.params = ()
        self.kw = {}
        self.kw_vec = {}      # keywords for the entry points that do not go through __call__ (Dirichlet)
        self.t = 0


def build_single(torch, cfg, N, T, K, k=0, other_call=None):
    """k: member index inside a LikelihoodList (shifts every magnitude)"""
    import gpytorch
    from gpytorch import likelihoods as L
    cls = cfg["cls"]
    lb, ib = tuple(cfg["lb"]), tuple(cfg["ib"])
    n = N
    b = Built()
    eye = torch.eye(n, dtype=torch.float64)

    def add_vec(name, v):
        b.V[name] = v
        b.M[name] = diag_m(torch, v)

    if cls in ("G", "GM"):
        lik = (L.GaussianLikelihood if cls == "G" else L.GaussianLikelihoodWithMissingObs)(batch_shape=torch.Size(lb)).double()
        lik.noise = mag_homo(torch, lb, k)
        add_vec("homo", lik.noise.detach().expand(*lb, n))
    elif cls == "F":
        n0 = n if cfg["nmatch"] else n + 1
        fbatch = lb if cfg["fb"] else ()
        fixed = mag_fixed(torch, fbatch, n0, k)
        lik = L.FixedNoiseGaussianLikelihood(noise=fixed.clone(), learn_additional_noise=cfg["lan"], batch_shape=torch.Size(lb)).double()
        if cfg["nmatch"]:
            add_vec("fixed", fixed)
        if cfg["lan"]:
            lik.second_noise = mag_second(torch, lb, k)
            add_vec("second", lik.second_noise.detach().expand(*lb, n))
    elif cls == "Dir":
        n0 = n if cfg["nmatch"] else n + 1
        eps = 0.01 if cfg["ae"] == "default" else 0.1
        stored = dir_targets(torch, K, n0, 0)
        lik = L.DirichletClassificationLikelihood(stored, alpha_epsilon=eps, learn_additional_noise=cfg["lan"], dtype=torch.float64).double()
        if cfg["nmatch"]:
            add_vec("fixed", dirichlet_sigma2(torch, stored, K, eps))
        if cfg["lan"]:
            lik.second_noise = mag_second(torch, (K,), 0)
            add_vec("second", lik.second_noise.detach().expand(K, n))
        if cfg["call"] == "kw":
            tg = dir_targets(torch, K, n, 1)
            add_vec("call", dirichlet_sigma2(torch, tg, K, eps))
            if cfg["ae"] != "default":
                add_vec("callDefEps", dirichlet_sigma2(torch, tg, K, 0.01))
            b.kw = dict(targets=tg)
            b.kw_vec = dict(noise=b.V["call"].clone())
    elif cls == "MT":
        t = T
        b.t = t
        rank = cfg["rank"]
        lik = L.MultitaskGaussianLikelihood(num_tasks=t, rank=rank, batch_shape=torch.Size(lb), has_global_noise=cfg["glob"],
                                            has_task_noise=cfg["task"]).double()
        eye_nt = torch.eye(n * t, dtype=torch.float64)
        if cfg["glob"]:
            lik.noise = mag_global(torch, lb)
            g = lik.noise.detach()
            b.M["global"] = g.unsqueeze(-1) * eye_nt
            b.V["global"] = g.unsqueeze(-1).expand(*lb, n, t)
        if cfg["task"]:
            if rank == 0:
                lik.task_noises = mag_task(torch, lb, t)
                Dt = torch.diag_embed(lik.task_noises.detach())
            else:
                with torch.no_grad():
                    lik.task_noise_covar_factor.copy_(mag_factor(torch, lb, t, rank))
                Dt = lik.task_noise_covar.detach()          # the task noise covariance as the likelihood reports it
            b.M["taskIxD"] = (eye[:, None, :, None] * Dt[..., None, :, None, :]).reshape(*lb, n * t, n * t)
            b.M["taskDxI"] = (Dt[..., :, None, :, None] * eye[None, :, None, :]).reshape(*lb, n * t, n * t)
            dd = torch.diagonal(Dt, dim1=-1, dim2=-2)
            b.V["taskNT"] = dd.unsqueeze(-2).expand(*lb, n, t)
            b.V["taskMis"] = torch.diagonal(b.M["taskDxI"], dim1=-1, dim2=-2).reshape(*lb, n, t)
    elif cls == "Het":
        x = (2.0 * (torch.arange(n, dtype=torch.float64) + 1) + 0.5).unsqueeze(-1)

        class NoiseModel(gpytorch.Module):
            def forward(self, xx):
                from gpytorch.distributions import MultivariateNormal
                return MultivariateNormal(xx[..., 0] * 1.0, torch.eye(xx.shape[-2], dtype=torch.float64))

        lik = L._GaussianLikelihoodBase(noise_covar=L.HeteroskedasticNoise(NoiseModel())).double()
        add_vec("het", torch.nn.functional.softplus(x[:, 0]) + 1e-4)          # GreaterThan(1e-4): lower bound + softplus
        b.hetx = x
    else:
        raise core.Machinery("unknown class %r" % cls)
    if cfg["call"] == "kw" and cls != "Dir":
        cbatch = ib if cfg["cb"] else ()
        v = mag_call(torch, cbatch, n, k)
        add_vec("call", v)
        b.kw = dict(noise=v.clone())
        b.kw_vec = b.kw
    if other_call is not None and cls != "Dir":
        add_vec("callOther", other_call)
    b.lik = lik
    return b


def extras(torch, cfg, gen, N, built):
    p = cfg["params"]
    ib = tuple(cfg["ib"])
    if p == "none":
        return ()
    if cfg["cls"] == "Het":
        return (built.hetx,) if p == "x" else ([built.hetx],)
    x = torch.randn(N, 2, generator=gen, dtype=torch.float64)
    if p == "x":
        return (x,)
    if p == "xb":
        return (torch.randn(*ib, N, 2, generator=gen, dtype=torch.float64),)
    if p == "x1":
        return (x[:, 0].clone(),)
    if p == "xlist":
        return ([x],)
    raise core.Machinery("unknown params %r" % p)


def bcast_shape(torch, *shapes):
    return tuple(torch.broadcast_shapes(*[tuple(s) for s in shapes]))


def sum_terms(torch, terms, counts, tail):
    """sum of count * term, each broadcast over batch; tail = number of trailing non-batch dims"""
    out = None
    for name, cnt in counts.items():
        if not cnt:
            continue
        if name not in terms:
            return None
        x = terms[name] * float(cnt)
        out = x if out is None else _badd(torch, out, x, tail)
    return out


def _badd(torch, a, b, tail):
    ba, bb = a.shape[:a.dim() - tail], b.shape[:b.dim() - tail]
    bs = bcast_shape(torch, ba, bb)
    return a.expand(*bs, *a.shape[a.dim() - tail:]) + b.expand(*bs, *b.shape[b.dim() - tail:])


def entry_close(torch, obs, want, atol, rtol):
    if tuple(obs.shape) != tuple(want.shape):
        return False, "shape %s vs %s" % (list(obs.shape), list(want.shape))
    if obs.numel() == 0:
        return True, ""
    if not bool(torch.isfinite(obs).all()):
        return False, "non-finite values"
    err = (obs - want).abs()
    tol = atol + rtol * want.abs()
    bad = err > tol
    if bool(bad.any()):
        idx = bad.nonzero()[0].tolist()
        return False, "entry %s is %.12g, documented value %.12g (|diff| %.3e)" % (idx, float(obs[tuple(idx)]), float(want[tuple(idx)]), float(err[tuple(idx)]))
    return True, ""


def candidates(names, maxc=2):
    names = sorted(names)
    combos = [dict(zip(names, c)) for c in itertools.product(range(maxc + 1), repeat=len(names))]
    combos.sort(key=lambda d: (sum(d.values()), sorted(d.items())))
    return combos


def decode(torch, obs, terms, term_tail, obs_tail, value_of, atol, rtol, full_batch):
    """the bag of terms (multiplicities 0..2) whose documented value reproduces the observation; None if there is none"""
    try:
        ob = obs.expand(*bcast_shape(torch, obs.shape[:obs.dim() - obs_tail], full_batch), *obs.shape[obs.dim() - obs_tail:])
    except RuntimeError:
        return None
    for cand in candidates(terms.keys()):
        val = value_of(sum_terms(torch, terms, cand, term_tail) if any(cand.values()) else None)
        if val is None:
            continue
        try:
            vb = val.expand(*bcast_shape(torch, val.shape[:val.dim() - obs_tail], ob.shape[:ob.dim() - obs_tail]), *val.shape[val.dim() - obs_tail:])
            o2 = ob.expand(*vb.shape)
        except RuntimeError:
            continue
        if entry_close(torch, o2, vb, atol, rtol)[0]:
            return {k: v for k, v in cand.items() if v}
    return None


def dealias(torch, terms, keep):
    """terms that denote the same tensor (layouts coincide for n = 1 or t = 1) are one term: returns (terms without the
    duplicates, alias map name -> canonical name); names in `keep` are preferred as canonical"""
    names = sorted(terms, key=lambda k: (k not in keep, k))
    canon, out = {}, {}
    for k in names:
        for c in out:
            if tuple(out[c].shape) == tuple(terms[k].shape) and bool(torch.equal(out[c], terms[k])):
                canon[k] = c
                break
        else:
            out[k] = terms[k]
            canon[k] = k
    return out, canon


def rename_bag(b, canon):
    if b is None:
        return None
    out = {}
    for k, v in b.items():
        out[canon.get(k, k)] = out.get(canon.get(k, k), 0) + v
    return out


def check_distinguishable(torch, terms, tail):
    """machinery guard: no two candidate bags may denote (nearly) the same R"""
    if not terms:
        return
    cands = candidates(terms.keys())
    vals = []
    for c in cands:
        s = sum_terms(torch, terms, c, tail)
        vals.append(s)
    fb = ()
    for v in vals:
        if v is not None:
            fb = bcast_shape(torch, fb, v.shape[:v.dim() - tail])
    flat = []
    for v in vals:
        if v is None:
            any_t = next(iter(terms.values()))
            v = torch.zeros(any_t.shape[any_t.dim() - tail:], dtype=torch.float64)
        flat.append(v.expand(*fb, *v.shape[v.dim() - tail:]).reshape(-1))
    X = torch.stack(flat)
    dist = torch.cdist(X.unsqueeze(0), X.unsqueeze(0), p=float("inf")).squeeze(0) + torch.eye(len(flat), dtype=torch.float64)
    if float(dist.min()) < 1e-2:
        i, j = divmod(int(dist.argmin()), len(flat))
        raise core.Machinery("noise magnitudes are not distinguishable: %s vs %s" % (cands[i], cands[j]))


def delta(decoded, want):
    """canonical '+extra-missing' string of decoded - documented"""
    if decoded is None:
        return "undecodable"
    plus, minus = [], []
    for k in sorted(set(decoded) | set(want)):
        d = decoded.get(k, 0) - want.get(k, 0)
        if d > 0:
            plus.append("+%s%s" % (d if d > 1 else "", k))
        elif d < 0:
            minus.append("-%s%s" % (-d if d > 1 else "", k))
    return "".join(plus + minus) or "value"


def switches(cfg):
    cls = cfg["cls"]
    if cls in ("G", "GM", "Het"):
        return "noise=%s" % cfg["call"]
    if cls == "F":
        return "lan=%d,noise=%s" % (cfg["lan"], cfg["call"])
    if cls == "Dir":
        return "lan=%d,targets=%s,eps=%s" % (cfg["lan"], cfg["call"], cfg["ae"])
    if cls == "MT":
        return "glob=%d,task=%d,rank=%d,il=%d" % (cfg["glob"], cfg["task"], cfg["rank"], cfg["inter"])
    return "-"


def describe(cfg, N, T):
    cls = cfg["cls"]
    s = "%s" % CLASSNAME[cls]
    if cls in ("G", "GM"):
        s += "(batch_shape=%s)" % cfg["lb"]
    elif cls == "F":
        s += "(noise=%s x %d, learn_additional_noise=%s, batch_shape=%s)" % (cfg["lb"] if cfg["fb"] else [], N if cfg["nmatch"] else N + 1, cfg["lan"], cfg["lb"])
    elif cls == "Dir":
        s += "(targets of %d points, alpha_epsilon=%s, learn_additional_noise=%s)" % (N if cfg["nmatch"] else N + 1, cfg["ae"], cfg["lan"])
    elif cls == "MT":
        s += "(num_tasks=%d, rank=%d, has_global_noise=%s, has_task_noise=%s, batch_shape=%s)" % (T, cfg["rank"], cfg["glob"], cfg["task"], cfg["lb"])
    args = "dist[batch %s, n=%d%s]" % (cfg["ib"], N, (", t=%d, %s" % (T, "interleaved" if cfg["inter"] else "non-interleaved")) if cls == "MT" else "")
    if cfg["params"] != "none":
        args += ", " + cfg["params"]
    if cfg["call"] == "kw":
        args += ", %s=<%s>" % ("targets" if cls == "Dir" and cfg["op"] in ("call", "cond") else "noise", "batch x n" if cfg.get("cb") else "n")
    return "%s . %s(%s)" % (s, OPNAME[cfg["op"]], args)


def nontrivial(cfg):
    if cfg["cls"] == "List":
        return True
    return bool(cfg["call"] != "none" or cfg["params"] != "none" or cfg["lan"] or cfg["lb"] or cfg["ib"] or cfg["op"] != "call"
                or not cfg["inter"] or cfg["rank"] or not cfg["nmatch"] or not cfg["glob"] and cfg["cls"] == "MT")


# ---------------------------------------------------------------------------------------------
def observe(torch, built, cfg, d, mean, c, y, params):
    """run the entry point; returns (ok, obs, aux) with obs the observed noise projection"""
    lik, op = built.lik, cfg["op"]
    if op == "call":
        ok, out = core.guarded(lambda: lik(d, *params, **built.kw))
        if not ok:
            return False, out, None
        ok, info = core.guarded(lambda: (out.mean.detach(), out.covariance_matrix.detach(), d.covariance_matrix.detach()))
        if not ok:
            return False, info, None
        return True, info[1] - info[2], dict(out=out, mean=info[0])
    if op == "elp":
        ok, out = core.guarded(lambda: lik.expected_log_prob(y, d, *params, **built.kw_vec))
    elif op == "lm":
        ok, out = core.guarded(lambda: lik.log_marginal(y, d, *params, **built.kw_vec))
    else:
        ok, out = core.guarded(lambda: lik(y, *params, **built.kw))
        if ok:
            ok, out2 = core.guarded(lambda: (out.mean.detach(), out.variance.detach()))
            if not ok:
                return False, out2, None
            return True, out2[1], dict(mean=out2[0])
    if not ok:
        return False, out, None
    aux = None
    if op in ("elp", "lm") and not cfg.get("nan") and not bool(torch.isnan(y).any()):
        # Noise.tla PolicyNeutral: with fully observed targets the value does not depend on settings.observation_nan_policy
        from gpytorch import settings
        fn = lik.expected_log_prob if op == "elp" else lik.log_marginal
        for pol in POLICIES:
            with settings.observation_nan_policy(pol):
                ok2, out2 = core.guarded(lambda: fn(y, d, *params, **built.kw_vec))
            if not ok2:
                aux = dict(policy=pol, why="raises %s" % out2)
                break
            # (under 'mask' the multitask likelihoods return one term per observed (point, task) entry instead of one per point:
            # the documented quantity is the sum over the event)
            a2, a1 = out2.detach(), out.detach()
            if a2.shape != a1.shape:
                a2, a1 = a2.sum(-1), a1.sum(-1)
            good, why = core.close(a2, a1, 1e-9, 1e-11)
            if not good:
                aux = dict(policy=pol, why=why)
                break
    return True, out.detach(), aux


POLICIES = ("mask", "fill")      # Noise.tla Policies \ {"ignore"} (the default, under which the cell itself is evaluated)


def run_cell(torch, cell, N, T, K, seed):
    cfg, exp, code = cell["cfg"], cell["exp"], cell["code"]
    if cfg["cls"] == "List":
        return run_list_cell(torch, cell, N, T, K, seed)
    cls, op = cfg["cls"], cfg["op"]
    t = T if cls == "MT" else 0
    gen = torch.Generator().manual_seed(1000003 * seed + int(core.digest(cfg), 16) % 1000003)
    built = build_single(torch, cfg, N, T, K)
    ib = tuple(cfg["ib"])
    d, mean, C, c, y = make_dist(torch, gen, ib, N, t, cfg["inter"])
    params = extras(torch, cfg, gen, N, built)
    desc = describe(cfg, N, T)
    key = dict(cfg=cfg, N=N, T=T)
    res = dict(key=key, ok=True, nontrivial=nontrivial(cfg), sample=None)
    base = "C12/%s/%s/%s" % (CLASSNAME[cls], switches(cfg), OPNAME[op])
    case = dict(cell=cell, N=N, T=T, K=K, seed=seed)

    def fail(kind, detail):
        res.update(ok=False, sig=base + "/" + kind, detail="%s: %s" % (desc, detail), case=case)
        return res

    if cfg.get("nan") and N > 1:          # (a single, missing target leaves nothing to decode)
        y = y.clone()
        y[..., 1] = float("nan")
    want = exp["terms"]
    matrix = op == "call"
    terms = built.M if matrix else built.V
    tail = 2 if matrix else (2 if t else 1)
    for name in want:
        if name not in terms:
            raise core.Machinery("spec expects term %r which the driver cannot build for %s" % (name, desc))
    terms, canon = dealias(torch, terms, want)
    code = dict(code, terms=rename_bag(code["terms"], canon))
    check_distinguishable(torch, terms, tail)
    full_batch = ib
    for v in terms.values():
        full_batch = bcast_shape(torch, full_batch, v.shape[:v.dim() - tail])
    R = sum_terms(torch, terms, want, tail)            # documented noise: matrix R or per-output variances r

    # documented observation and the map bag-value -> observation used for decoding
    if op == "call":
        ev = (N * t if t else N,) * 2

        def value_of(s):
            return torch.zeros(ev, dtype=torch.float64) if s is None else s
        atol, rtol = 1e-8, 1e-9
    elif op == "cond":
        def value_of(s):
            return s
        atol, rtol = 1e-9, 1e-9
    else:
        form = closed_elp if op == "elp" else closed_lm
        obsd = torch.isnan(y)

        def value_of(s):
            if s is None:
                return None
            yy = torch.where(obsd, torch.zeros_like(y), y)
            tl = 2 if t else 1
            bs = bcast_shape(torch, s.shape[:s.dim() - tl], yy.shape[:yy.dim() - tl])
            v = form(torch, yy.expand(*bs, *yy.shape[yy.dim() - tl:]), mean.expand(*bs, *mean.shape[mean.dim() - tl:]),
                     c.expand(*bs, *c.shape[c.dim() - tl:]), s.expand(*bs, *s.shape[s.dim() - tl:]))
            v = torch.where(obsd.expand(*v.shape), torch.zeros_like(v), v)      # missing targets do not contribute
            return v.sum(-1) if t else v
        atol, rtol = 1e-9, 1e-9
    want_val = value_of(R)
    out_tail = 2 if op == "call" else (1 if op in ("elp", "lm") else tail)
    exp_batch = tuple(exp["batch"])
    if want_val is not None:
        wv_tail = want_val.shape[want_val.dim() - out_tail:]
        want_val = want_val.expand(*bcast_shape(torch, want_val.shape[:want_val.dim() - out_tail], exp_batch), *wv_tail)
        if tuple(want_val.shape[:want_val.dim() - out_tail]) != exp_batch:
            raise core.Machinery("driver and spec disagree on the documented batch shape for %s: %s vs %s" % (desc, list(want_val.shape), list(exp_batch)))

    ok, obs, aux = observe(torch, built, cfg, d, mean, c, y, params)
    real = None
    if not ok:
        real = dict(terms={}, batch=[], err=obs.split(":")[0])
        res["drift"] = drift_msg(desc, code, real)
        fail("raises-" + obs.split(":")[0], "raised %s; documented R = %s with batch shape %s" % (obs, want or "0", list(exp_batch)))
        return res
    if aux and aux.get("policy"):
        return fail("value-depends-on-observation_nan_policy/" + aux["policy"],
                    "with fully observed targets the result under observation_nan_policy(%r) differs from the default policy: %s" % (aux["policy"], aux["why"]))
    dec = decode(torch, obs, terms, tail, out_tail, value_of, atol, rtol, full_batch)
    obs_batch = tuple(obs.shape[:obs.dim() - out_tail])
    real = dict(terms=dec, batch=list(obs_batch), err="none")
    res["drift"] = drift_msg(desc, code, real)
    res["sample"] = dict(case=desc, documented_terms=want, decoded_terms=dec, batch=list(obs_batch))
    good, why = entry_close(torch, obs, want_val, atol, rtol) if tuple(obs.shape) == tuple(want_val.shape) else (False, "")
    if not good:
        if dec is not None and dec == want and obs_batch != exp_batch:
            return fail("batch-shape", "result has batch shape %s, documented broadcast batch shape %s (terms %s)" % (list(obs_batch), list(exp_batch), dec))
        dl = delta(dec, want)
        return fail(dl, "noise terms actually applied %s (result batch %s); documented %s (batch %s). %s" % (
            dec if dec is not None else "<not a sum of the likelihood's noise terms>", list(obs_batch), want or "{}", list(exp_batch), why))
    if aux is not None and "mean" in aux:
        m_obs = aux["mean"]
        m_want = (y if op == "cond" else mean)
        tl = 2 if t else 1
        m_want = m_want.expand(*bcast_shape(torch, m_want.shape[:m_want.dim() - tl], exp_batch), *m_want.shape[m_want.dim() - tl:])
        if not same_mean(torch, m_obs, m_want):
            return fail("mean", "the mean of the result is not the mean of the input")
    if op == "call":
        out = aux["out"]
        if type(out) is not type(d) or (t and bool(out._interleaved) != bool(cfg["inter"])):
            return fail("class", "result is %s(interleaved=%s) for an input %s(interleaved=%s)" % (
                type(out).__name__, getattr(out, "_interleaved", None), type(d).__name__, getattr(d, "_interleaved", None)))
    return res


def same_mean(torch, m_obs, m_want):
    """the mean is unchanged (an un-expanded mean that broadcasts to the result's batch shape is the same mean)"""
    try:
        return bool(torch.equal(m_obs.expand(*m_want.shape), m_want))
    except RuntimeError:
        return False


def drift_msg(desc, code, real):
    """code-shaped model vs real code (never a verdict)"""
    if real["err"] != "none" or code["err"] != "none":
        if real["err"] != code["err"]:
            return "Noise.tla Code() predicts %s, real code %s on %s" % (code["err"] if code["err"] != "none" else code["terms"], real["err"] if real["err"] != "none" else real["terms"], desc)
        return None
    if real["terms"] is None:
        return "Noise.tla Code() predicts %s, real result is not decodable on %s" % (code["terms"], desc)
    if real["terms"] != code["terms"] or list(real["batch"]) != list(code["batch"]):
        return "Noise.tla Code() predicts %s batch %s, real code %s batch %s on %s" % (code["terms"], code["batch"], real["terms"], real["batch"], desc)
    return None


# ---------------------------------------------------------------------------------------------
def run_list_cell(torch, cell, N, T, K, seed):
    from gpytorch.likelihoods import LikelihoodList
    cfg, exp, code = cell["cfg"], cell["exp"], cell["code"]
    op = cfg["op"]
    gen = torch.Generator().manual_seed(1000003 * seed + int(core.digest(cfg), 16) % 1000003)
    n = N
    noise = [mag_call(torch, (), n, k) for k in range(2)]
    builts, dists = [], []
    for k, kind in enumerate(cfg["members"]):
        given = cfg["noise"] == "list" or (cfg["noise"] == "list_vN" and k == 0) or (cfg["noise"] == "list_Nv" and k == 1)
        mcfg = dict(cls="G" if kind == "G" else "F", op=op, lan=kind == "FL", call="kw" if given else "none", nmatch=True,
                    cb=False, fb=False, params="none", glob=False, task=False, rank=0, inter=True, ae="default", nan=False, lb=[], ib=[])
        builts.append(build_single(torch, mcfg, N, T, K, k=k, other_call=noise[1 - k] if cfg["noise"] != "none" else None))
        dists.append(make_dist(torch, gen, (), n, 0, True))
    ll = LikelihoodList(*[b.lik for b in builts])
    xs = [torch.randn(n, 2, generator=gen, dtype=torch.float64) for _ in range(2)]
    entry = {"list": (True, True), "list_vN": (True, False), "list_Nv": (False, True), "list_NN": (False, False)}.get(cfg["noise"])
    kwargs = dict(noise=[v.clone() if g else None for v, g in zip(noise, entry)]) if entry else {}
    desc = "LikelihoodList(%s).%s(%s%s)" % (", ".join(cfg["members"]), OPNAME[op],
                                            "d0, d1" if cfg["argform"] == "bare" else ("(d0, x0), (d1, x1)" if op == "call" else "(y0, d0), (y1, d1)"),
                                            (", noise=[%s]" % ", ".join("v%d" % i if g else "None" for i, g in enumerate(entry))) if kwargs else "")
    key = dict(cfg=cfg, N=N)
    res = dict(key=key, ok=True, nontrivial=True, sample=None)
    base = "C12/LikelihoodList/%s/%s" % (("noise-kwarg" if cfg["noise"] == "list" else "noise-kwarg-" + cfg["noise"][5:]) if kwargs else "plain", OPNAME[op])
    case = dict(cell=cell, N=N, T=T, K=K, seed=seed)

    def fail(kind, detail):
        res.update(ok=False, sig=base + "/" + kind, detail="%s: %s" % (desc, detail), case=case)
        return res

    entries = []
    if op == "call":
        args = [dd[0] if cfg["argform"] == "bare" else (dd[0], x) for dd, x in zip(dists, xs)]
        entries.append(("__call__", lambda: ll(*args, **kwargs)))
    elif op == "cond":
        args = [dd[4] for dd in dists]
        entries.append(("__call__", lambda: ll(*args, **kwargs)))
        entries.append(("forward", lambda: ll.forward(*args, **kwargs)))
    else:
        args = [(dd[4], dd[0]) for dd in dists]
        entries.append(("expected_log_prob", lambda: ll.expected_log_prob(*args, **kwargs)))
    drifts = []
    for ename, fn in entries:
        ok, outs = core.guarded(fn)
        if not ok:
            exc = outs.split(":")[0]
            if all(cc["err"] == "none" for cc in code):
                drifts.append("Noise.tla Code() predicts no exception, real code raised %s on %s" % (outs, desc))
            if not res["ok"]:
                continue
            fail("raises-" + exc, "%s raised %s; documented: member k is applied to its own arguments (noise v_k in place of its stored noise)" % (ename, outs))
            continue
        if not isinstance(outs, (list, tuple)) or len(outs) != 2:
            if res["ok"]:
                fail("arity", "%s returned %s instead of one result per member" % (ename, type(outs).__name__))
            continue
        for k in range(2):
            b, (d, mean, C, c, y) = builts[k], dists[k]
            want = exp[k]["terms"]
            if op == "call":
                terms, tail = b.M, 2
                ok2, info = core.guarded(lambda: (outs[k].mean.detach(), outs[k].covariance_matrix.detach() - d.covariance_matrix.detach()))
                if not ok2:
                    if res["ok"]:
                        fail("raises-" + info.split(":")[0], "member %d result cannot be evaluated: %s" % (k, info))
                    continue
                m_obs, obs = info
                m_want = mean

                def value_of(s):
                    return torch.zeros(n, n, dtype=torch.float64) if s is None else s
                atol = 1e-8
            elif op == "cond":
                terms, tail = b.V, 1
                ok2, info = core.guarded(lambda: (outs[k].mean.detach(), outs[k].variance.detach()))
                if not ok2:
                    if res["ok"]:
                        fail("raises-" + info.split(":")[0], "member %d result cannot be evaluated: %s" % (k, info))
                    continue
                m_obs, obs = info
                m_want = y

                def value_of(s):
                    return s
                atol = 1e-9
            else:
                terms, tail = b.V, 1
                obs, m_obs, m_want = outs[k].detach(), None, None

                def value_of(s):
                    return None if s is None else closed_elp(torch, y, mean, c, s)
                atol = 1e-9
            check_distinguishable(torch, terms, tail)
            R = sum_terms(torch, terms, want, tail)
            want_val = value_of(R)
            dec = decode(torch, obs, terms, tail, tail, value_of, atol, 1e-9, ())
            if code[k]["err"] == "none" and (dec is None or dec != code[k]["terms"]):
                drifts.append("Noise.tla Code() predicts %s for member %d, real code %s on %s" % (code[k]["terms"], k, dec, desc))
            elif code[k]["err"] != "none":
                drifts.append("Noise.tla Code() predicts %s for member %d, real code %s on %s" % (code[k]["err"], k, dec, desc))
            good, why = entry_close(torch, obs, want_val, atol, 1e-9)
            if not good and res["ok"]:
                fail("%s/%s" % (CLASSNAME["G" if cfg["members"][k] == "G" else "F"], delta(dec, want)),
                     "member %d (%s) via %s: noise terms actually applied %s; documented %s. %s" % (k, cfg["members"][k], ename, dec, want, why))
            elif good and m_want is not None and res["ok"] and not same_mean(torch, m_obs, m_want):
                fail("mean", "member %d via %s: the mean of the result is not the mean of ITS input" % (k, ename))
    res["sample"] = dict(case=desc, documented_terms=[e["terms"] for e in exp])
    if drifts:
        res["drift"] = drifts[0]
    return res


def _worker(item):
    torch = core.setup_torch()
    out = []
    for cell in item["cells"]:
        r = run_cell(torch, cell, item["N"], item["T"], item["K"], item["seed"])
        if r.get("drift") is None:
            r.pop("drift", None)
        else:
            c = cell["cfg"]
            r["driftkey"] = "%s/%s/%s" % (CLASSNAME[c["cls"]], switches(c) if c["cls"] != "List" else ("noise-kwarg" if c["noise"] != "none" else "plain"), OPNAME[c["op"]])
        r["predicted"] = cell["code"] != cell["exp"]
        out.append(r)
    return out


# ---------------------------------------------------------------------------------------------
def lattice(thorough):
    """(name, T, K, likelihood batch shapes, input batch shapes, event sizes N replayed, seeds)"""
    if not thorough:
        return [dict(name="t2", T=2, K=3, likb=[(), (2,), (2, 1)], inb=[(), (2,), (3, 2)], sizes=[3], seeds=1)]     # (2, 1): a non-leading unit dimension
    return [dict(name="t2", T=2, K=3, likb=[(), (2,)], inb=[(), (2,), (3, 2)], sizes=[3, 2, 5], seeds=3),
            dict(name="t3", T=3, K=4, likb=[(), (2,), (1,), (2, 1)], inb=[(), (2,), (3, 1), (1,), (2, 2)], sizes=[2, 4], seeds=2),
            dict(name="t1", T=1, K=2, likb=[(), (3,)], inb=[(), (3,), (2, 3)], sizes=[1, 3], seeds=2)]


def run(ck):
    thorough = ck.tier == "thorough"
    core.setup_torch()
    ck.rule = ("cases = cells of the Noise.tla lattice (class x learn_additional_noise x call-time noise given / its shape / same or other n "
               "x positional extras x has_global_noise x has_task_noise x rank 0..t x layout x likelihood batch x input batch x entry point "
               "marginal / expected_log_prob / log_marginal / conditional, LikelihoodList member kinds x noise list x argument form) x event "
               "sizes replayed; non-trivial = any switch away from the class default (call-time noise, extras, learned noise, a batch shape, "
               "non-interleaved, rank > 0, another entry point than the marginal, other n); distinct = distinct (cell, n, t)")
    ck.assumptions = [
        "float64; noise magnitudes: sigma2 = 1 + b/4, fixed 10(i+1)+b, call-time 1000(i+1)+100b, learned second 0.3 + b/16, task 1e5(a+1) + 1e4 b "
        "(rank > 0: 300 w w^T read back through task_noise_covar), global 7 + b/2; all above settings.min_fixed_noise and the 1e-4 constraint bound",
        "entrywise tolerance 1e-8 + 1e-9 |R| on (C + R) - C (one float64 add and subtract), 1e-9 + 1e-9 |v| on the closed forms",
        "FixedNoiseGaussianLikelihood applied to a different number of points without noise=: the documentation (the class docstring speaks of "
        "noise 'for each training example', the GPInputWarning says 'treated as a no-op') is read as R = 0 [+ learned sigma2 I]; "
        "expected_log_prob / log_marginal are not evaluated for R = 0",
        "GaussianLikelihood / HeteroskedasticNoise with noise=v: the noise models document 'this noise is used directly', read as R = diag(v) "
        "in place of the learned noise",
        "MultitaskGaussianLikelihood: call-time noise is not documented and not enumerated; with has_task_noise the likelihood batch shape must "
        "be expandable to the input's batch shape (the code expands the task noise to it); expected_log_prob / log_marginal use the per-output "
        "diagonal of the task noise covariance (rank > 0 included), as the code documents",
        "positional extras (train inputs) are enumerated on the marginal / log_marginal path only (where the library passes them)",
        "LikelihoodList: per-member noise is defined for __call__ and forward (the code comment says so); expected_log_prob is replayed without "
        "noise; LikelihoodList defines no marginal / log_marginal of its own",
        "DirichletClassificationLikelihood: targets= at call time is transformed with the likelihood's own alpha_epsilon (as the constructor "
        "and get_fantasy_likelihood do); dtype=torch.float64",
    ]
    ck.exhaustive = True
    wd = os.path.join(tlc.BUILD, PID, "mc")
    jobs, meta = [], []
    for lat in lattice(thorough):
        common = (lat["T"], lat["K"], lat["likb"], lat["inb"])
        for fam in FAMILIES:
            if fam in ("het", "list") and lat["name"] != "t2":
                continue
            mod, cfg = write_mc(wd, "gen_%s_%s" % (lat["name"], fam), fam, REPAIRS_IN_TREE, *common, invariants=["ExpectedSane"])
            jobs.append(((mod, cfg), dict(name="%s/gen_%s_%s" % (PID, lat["name"], fam), timeout=900, dump=True, check=False, workers=2)))
            meta.append(("gen", lat, fam))
        mod, cfg = write_mc(wd, "mc_%s_current" % lat["name"], "all", REPAIRS_IN_TREE, *common, invariants=["NoiseExact", "AddedOnce", "ExpectedSane"])
        jobs.append(((mod, cfg), dict(name="%s/mc_%s_current" % (PID, lat["name"]), timeout=900, check=False, workers=2, coverage=False)))
        meta.append(("current", lat, "all"))
        mod, cfg = write_mc(wd, "mc_%s_repaired" % lat["name"], "all", ALL_REPAIRS, *common, invariants=["NoiseExact", "AddedOnce", "ExpectedSane"])
        jobs.append(((mod, cfg), dict(name="%s/mc_%s_repaired" % (PID, lat["name"]), timeout=900, check=False, workers=2)))
        meta.append(("repaired", lat, "all"))
    results = tlc.run_many(jobs, parallel=8)
    items = []
    predicted_cells = {}
    first_cex = {}
    for (kind, lat, fam), res in zip(meta, results):
        label = "%s_%s_%s" % (kind, lat["name"], fam)
        ck.add_tlc(res, label)
        if kind == "current":
            if res.violation is None:
                if res.rc != 0:
                    raise tlc.TLCError("TLC failed on %s:\n%s" % (label, res.stdout[-1500:]))
            else:
                tr = res.violation.get("trace") or []
                cex = ""
                if tr:
                    try:
                        cex = describe(cell_of(tr[-1][1])["cfg"], lat["sizes"][0], lat["T"]) if str(tr[-1][1]["cfg"]["cls"]) != "List" else str(cell_of(tr[-1][1])["cfg"])
                    except Exception:  # noqa
                        cex = ""
                first_cex[lat["name"]] = (res.violation["name"], cex)
            continue
        if kind == "repaired":
            if res.violation is not None:
                ck.model_drift("Noise.tla with all three repairs still violates %s on lattice %s: the suggested repairs do not establish the property in the model" % (
                    res.violation["name"], lat["name"]))
            elif res.rc != 0:
                raise tlc.TLCError("TLC failed on %s:\n%s" % (label, res.stdout[-1500:]))
            ck.require_coverage(res, [ACTION[f] for f in FAMILIES])
            continue
        if res.violation is not None or res.rc != 0:
            raise tlc.TLCError("TLC failed on %s (%s):\n%s" % (label, (res.violation or {}).get("name"), res.stdout[-1500:]))
        ck.require_coverage(res, [ACTION[fam]])
        cells = [cell_of(st) for st in res.states() if str(st["cfg"]["cls"]) != "none"]
        if not cells:
            ck.vacuous("generation run %s produced no cells" % label)
        npred = sum(1 for c in cells if c["code"] != c["exp"])
        predicted_cells[lat["name"]] = predicted_cells.get(lat["name"], 0) + npred
        ck.section("gen_" + fam, cells=len(cells), predicted_to_fail=npred)
        sizes = lat["sizes"] if fam != "dirichlet" else [n for n in lat["sizes"] if n >= 2]
        if fam in ("het", "list"):
            sizes = [n for n in sizes if n >= 2][:2]
        for N in sizes:
            for seed in range(lat["seeds"]):
                for i in range(0, len(cells), 40):
                    items.append(dict(cells=cells[i:i + 40], N=N, T=lat["T"], K=lat["K"], seed=ck.seed * 7919 + seed))
    for name, (inv, cex) in first_cex.items():
        ck.model_drift("Noise.tla (model of the current code, lattice %s) violates %s; %d cells of the lattice are predicted to fail; first "
                       "counterexample: %s" % (name, inv, predicted_cells.get(name, 0), cex))
    results = core.pmap(_worker, items, chunksize=1)
    confirmed = sum(1 for r in results if r.get("predicted") and not r.get("ok", True))
    refuted = sum(1 for r in results if r.get("predicted") and r.get("ok", True))
    unpredicted = sum(1 for r in results if not r.get("predicted") and not r.get("ok", True) and not r.get("machinery"))
    ck.extra["predictions"] = dict(predicted_cells_replayed=confirmed + refuted, confirmed_on_real_code=confirmed, refuted=refuted,
                                   failures_not_predicted_by_model=unpredicted)
    if refuted:
        ck.model_drift("%d cells predicted to fail by Noise.tla (REPAIRS_IN_TREE = %s) pass on the real code: a repair is in the tree, add its "
                       "name to REPAIRS_IN_TREE in checks/c12.py" % (refuted, list(REPAIRS_IN_TREE)))
    # code-shaped model vs real code, one line per (class, switches, entry point) instead of one per cell
    groups = {}
    for r in results:
        d = r.pop("drift", None)
        if d:
            k = r.get("driftkey") or d[:60]
            g = groups.setdefault(k, [0, d])
            g[0] += 1
    for k in sorted(groups):
        ck.model_drift("%s (%d cell(s) of %s)" % (groups[k][1], groups[k][0], k))
    ck.extra["model_vs_code"] = dict(cells_where_Code_differs_from_real_code=sum(g[0] for g in groups.values()), groups=len(groups))
    # one representative of every failing cell signature first (the harness keeps replay files for the first 50 failures)
    seen, first, rest = set(), [], []
    for r in results:
        if not r.get("ok", True) and r.get("sig") not in seen:
            seen.add(r.get("sig"))
            first.append(r)
        else:
            rest.append(r)
    # evidence samples: one passing cell per class
    sampled = set()
    for r in first + rest:
        cls = (r.get("key") or {}).get("cfg", {}).get("cls")
        if r.get("ok", True) and cls not in sampled and r.get("sample") and (r["key"]["cfg"].get("op") != "call" or cls in ("List", "Het")):
            sampled.add(cls)
        else:
            r["sample"] = None
    ck.absorb(first + rest)
    ck.absorb(assignment_forms(core.setup_torch()))
    ck.extra["domain_probe"] = domain_probe()


ASSIGN_FORMS = ("float", "scalar", "t", "1xt", "bx1", "bxt")


def run_assign_cell(torch, b, t, form, n=3):
    """the FORM of an assignment: `task_noises = v` with v of every shape that broadcasts against batch_shape x num_tasks (python
    float, 0-d tensor, t, 1 x t, b x 1, b x t), for batch sizes equal to and different from the number of tasks.  Documented value:
    v broadcast to b x t (the rule of every parameter assignment); the reference is built from the ASSIGNED value, not from the getter."""
    from gpytorch.likelihoods import MultitaskGaussianLikelihood
    D = torch.float64
    full = 0.5 + 0.25 * torch.arange(b, dtype=D).unsqueeze(-1) + 0.01 * (torch.arange(t, dtype=D) + 1) ** 2
    v = dict(float=0.75, scalar=torch.tensor(0.75, dtype=D), t=full[0].clone(), bx1=full[:, :1].clone(), bxt=full.clone())
    v["1xt"] = full[:1].clone()
    val = v[form]
    want = torch.broadcast_to(torch.as_tensor(val, dtype=D), (b, t)).clone()
    cell = dict(assign=dict(b=b, t=t, form=form))
    r = dict(key=dict(cfg=dict(cls="MTassign", op="assign", b=b, t=t, form=form)), ok=True, nontrivial=form not in ("float", "scalar"),
             sig="C12/assign/task_noises/%s/%s" % (form, "b=t" if b == t else "b!=t"), case=dict(cell=cell, N=n, T=t, K=0, seed=0), sample=None)

    def go():
        lik = MultitaskGaussianLikelihood(num_tasks=t, rank=0, batch_shape=torch.Size([b]), has_global_noise=False).double()
        lik.task_noises = val
        got = lik.task_noises.detach().clone()
        gen = torch.Generator().manual_seed(5)
        d = make_dist(torch, gen, (b,), n, t, True)[0]
        with torch.no_grad():
            added = lik(d).covariance_matrix - d.covariance_matrix
        return got, added
    ok, res = core.guarded(go)
    if not ok:
        r.update(ok=False, sig=r["sig"] + "/raises", detail="task_noises = <%s value> on a batch-%d likelihood with %d tasks raised %s" % (form, b, t, res))
        return r
    got, added = res
    eye = torch.eye(n, dtype=D)
    ref = (eye[:, None, :, None] * torch.diag_embed(want)[..., None, :, None, :]).reshape(b, n * t, n * t)
    good, why = entry_close(torch, got, want, 1e-9, 1e-9)
    if good:
        good, why = entry_close(torch, added, ref, 1e-9, 1e-9)
        why = "noise added to an interleaved %d x %d-task distribution: %s" % (n, t, why)
    else:
        why = "task_noises read back: %s" % why
    if not good:
        r.update(ok=False, detail="task_noises = <%s value> on a batch-%d likelihood with %d tasks; documented value = the assigned value broadcast to %d x %d; %s" % (form, b, t, b, t, why))
    return r


def run_assign_noise_cell(torch, b, t, form, n=3):
    """the same for the global noise of a batched multitask likelihood: `noise = v`, v a float / 0-d tensor / 1 / b x 1 (parameter shape b x 1)"""
    from gpytorch.likelihoods import MultitaskGaussianLikelihood
    D = torch.float64
    full = 0.3 + 0.2 * torch.arange(b, dtype=D).unsqueeze(-1)
    val = dict(float=0.45, scalar=torch.tensor(0.45, dtype=D), one=torch.tensor([0.45], dtype=D), bx1=full.clone())[form]
    want = torch.broadcast_to(torch.as_tensor(val, dtype=D), (b, 1)).clone()
    cell = dict(assign=dict(b=b, t=t, form=form, param="noise"))
    r = dict(key=dict(cfg=dict(cls="MTassign", op="assign-noise", b=b, t=t, form=form)), ok=True, nontrivial=form == "bx1",
             sig="C12/assign/noise/%s/%s" % (form, "b=t" if b == t else "b!=t"), case=dict(cell=cell, N=n, T=t, K=0, seed=0), sample=None)

    def go():
        lik = MultitaskGaussianLikelihood(num_tasks=t, rank=0, batch_shape=torch.Size([b]), has_global_noise=True, has_task_noise=False).double()
        lik.noise = val
        got = lik.noise.detach().clone()
        d = make_dist(torch, torch.Generator().manual_seed(5), (b,), n, t, True)[0]
        with torch.no_grad():
            return got, lik(d).covariance_matrix - d.covariance_matrix
    ok, res = core.guarded(go)
    if not ok:
        r.update(ok=False, sig=r["sig"] + "/raises", detail="noise = <%s value> on a batch-%d multitask likelihood with %d tasks raised %s" % (form, b, t, res))
        return r
    got, added = res
    ref = want.unsqueeze(-1) * torch.eye(n * t, dtype=D)
    good, why = entry_close(torch, got, want, 1e-9, 1e-9)
    if good:
        good, why = entry_close(torch, added, ref, 1e-9, 1e-9)
        why = "noise added to an interleaved %d x %d-task distribution: %s" % (n, t, why)
    else:
        why = "noise read back: %s" % why
    if not good:
        r.update(ok=False, detail="noise = <%s value> on a batch-%d multitask likelihood with %d tasks; documented value = the assigned value broadcast to %d x 1; %s" % (form, b, t, b, why))
    return r


def assignment_forms(torch):
    return [run_assign_cell(torch, b, t, f) for b in (2, 3) for t in (2, 3) for f in ASSIGN_FORMS] + \
           [run_assign_noise_cell(torch, b, t, f) for b in (2, 3) for t in (2, 3) for f in ("float", "scalar", "one", "bx1")]


def domain_probe():
    """informational, never a verdict: cells outside the assumed domain"""
    torch = core.setup_torch()
    from gpytorch.likelihoods import MultitaskGaussianLikelihood
    out = {}
    gen = torch.Generator().manual_seed(0)
    for rank in (0, 1):
        lik = MultitaskGaussianLikelihood(num_tasks=2, rank=rank, batch_shape=torch.Size([2])).double()
        d = make_dist(torch, gen, (), 3, 2, True)[0]
        ok, r = core.guarded(lambda: tuple(lik(d).covariance_matrix.shape))
        out["MultitaskGaussianLikelihood(rank=%d, batch_shape=[2]) on a non-batched distribution" % rank] = str(r)
    return out


def replay(rep):
    torch = core.setup_torch()
    case = rep["case"]
    if "assign" in case["cell"]:
        a = case["cell"]["assign"]
        r = (run_assign_noise_cell if a.get("param") == "noise" else run_assign_cell)(torch, a["b"], a["t"], a["form"])
    else:
        r = run_cell(torch, case["cell"], case["N"], case["T"], case["K"], case["seed"])
    if r.get("machinery"):
        print("MACHINERY-FAILURE", r["machinery"])
        return 2
    if not r["ok"]:
        print("VIOLATION property=C12 replay=- :: %s :: %s" % (r["sig"], r["detail"]))
        return 1
    print("replay passed")
    return 0
