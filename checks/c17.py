"""C17 - constraints, parameter setters and priors: bounds, bijection, round trips.

Spec: Constraint.tla (state machine of one constrained parameter: code-shaped con/raw next to the semantic machine
allowed/sem) and ConstraintPriors.tla (lattice of rational prior evaluation points with the exact parts of the
documented densities; HSpec: the history of a prior object - assign / load / load through the owning module / copy /
dtype conversion - with the hyper-parameters the object must report and use after every step).  Binding: every TLC-generated history is replayed step by step into every constrained
parameter of every exported kernel / likelihood / mean class found by introspection; the transform contract is swept
over the float range; prior densities are compared with mpmath (checks/c17_priors.py)."""
import ast
import copy
import inspect
import math
import os
import pickle
import random
import re

from harness import core, tlc

LEVEL = "model_checking"
PID = "C17"

NAN, ANYV, NOIV = 13, 99, 99
OPS = {1: "Set", 2: "InitRaw", 3: "ByName", 4: "OptStep", 5: "Register", 6: "Sample", 7: "Closure",
       8: "Load", 9: "Bound", 10: "Convert", 11: "Copy"}
SETTERS = (1, 3, 6, 7)
CONTRACT_SWEEP = True              # transform contract of the live constraint object after every such operation
BOUND_OPS = (5, 8, 9, 10, 11)      # operations after which the constraint's bounds / object may have changed
RAWNAME = {-1: "-inf", 1: "very negative", 2: "moderate", 3: "very positive", 9: "+inf", 13: "nan"}

# ---------------------------------------------------------------------------------------------
# TLC side
# ---------------------------------------------------------------------------------------------
# constraint records (lo, hi, iv, tf); entry 1 is the constraint the module is constructed with
CONS = {
    "GT": [(2, 12, NOIV, "softplus"), (4, 12, NOIV, "softplus"), (4, 8, 6, "sigmoid"), (0, 10, NOIV, "softplus"), (2, 10, 2, "sigmoid"), (4, 12, 6, "exp")],
    "IV": [(2, 10, NOIV, "sigmoid"), (4, 8, NOIV, "sigmoid"), (4, 8, 6, "sigmoid"), (2, 12, NOIV, "softplus"), (0, 8, NOIV, "softplus"), (4, 12, 5, "exp")],
    "LT": [(0, 10, NOIV, "softplus"), (0, 8, NOIV, "softplus"), (4, 8, 6, "sigmoid"), (2, 12, NOIV, "softplus"), (0, 8, 7, "exp"), (2, 10, NOIV, "sigmoid")],
}
ALLV = list(range(14))
ALLBOUND = [(0, 2), (0, 4), (1, 8), (1, 10)]
FULL = dict(SetV=ALLV, RawA=[-1, 1, 2, 3, 9, 13], NameA=[(v, p) for v in ALLV for p in (0, 1)], OptK=[1, 2, 3],
            RegA=[(1, 1)] + [(i, r) for i in range(2, 7) for r in (0, 1)], SampV=[1, 3, 5, 6, 7, 9, 11], ClosV=ALLV,
            LoadA=[(i, v) for i in range(1, 7) for v in (3, 6, 9, ANYV)], BoundA=ALLBOUND, ConvA=[0, 1], CopyA=[0])
EMPTY = dict(SetV=[], RawA=[], NameA=[], OptK=[], RegA=[], SampV=[], ClosV=[], LoadA=[], BoundA=[], ConvA=[], CopyA=[])
ALPH_KEYS = ("SetV", "RawA", "NameA", "OptK", "RegA", "SampV", "ClosV", "LoadA", "BoundA", "ConvA", "CopyA")
# name -> (alphabet, length quick, length thorough (0 = not run), needs a prior closure)
GEN_RUNS = {
    "vals": (FULL, 2, 2, True),
    "setopt": (dict(EMPTY, SetV=[1, 2, 6, 10, 11, 13], OptK=[1, 3], RawA=[-1]), 4, 4, False),
    "init": (dict(EMPTY, RawA=[-1, 2, 9, 13], NameA=[(1, 0), (6, 1), (11, 1)], SetV=[7], OptK=[2]), 4, 4, False),
    "register": (dict(EMPTY, RegA=[(2, 1), (3, 1), (4, 1), (3, 0), (5, 1)], SetV=[1, 5, 11], OptK=[3]), 4, 4, False),
    "prior": (dict(EMPTY, SampV=[1, 6, 11], ClosV=[1, 2, 6, 13], SetV=[6], RegA=[(3, 1)]), 4, 4, True),
    # the bounds of the EXISTING constraint object change (load_state_dict with other bounds, assignment to the bound buffers,
    # dtype conversion, deepcopy, register_constraint) and the setter / rejection / optimiser steps follow against the current bounds
    "bounds": (dict(EMPTY, LoadA=[(i, 6) for i in range(1, 7)] + [(1, ANYV)], BoundA=ALLBOUND, ConvA=[0, 1], CopyA=[0],
                    SetV=[3, 9], OptK=[1, 3], RegA=[(3, 1)], RawA=[9]), 3, 3, False),
    "bounds4": (dict(EMPTY, LoadA=[(1, 5), (2, 6), (3, 7), (5, 3), (6, ANYV)], BoundA=[(0, 4), (1, 8), (1, 10)], ConvA=[1], CopyA=[0],
                     SetV=[9], OptK=[3], RegA=[(3, 1)]), 0, 4, False),
    "setopt5": (dict(EMPTY, SetV=[1, 2, 6, 11], OptK=[1, 3], RawA=[-1]), 0, 5, False),
    "init5": (dict(EMPTY, RawA=[-1, 2, 13], NameA=[(1, 0), (6, 1)], SetV=[7], OptK=[2]), 0, 5, False),
    "register5": (dict(EMPTY, RegA=[(2, 1), (3, 1), (4, 1), (3, 0)], SetV=[1, 5], OptK=[3]), 0, 5, False),
    "prior5": (dict(EMPTY, SampV=[1, 6], ClosV=[2, 11, 13], SetV=[6], RegA=[(3, 1)]), 0, 5, True),
}


def _set(xs):
    return "{" + ", ".join("<<%d, %d>>" % x if isinstance(x, tuple) else str(x) for x in xs) + "}"


def write_mc(workdir, name, cons, alph, maxlen, record, intersect_raises=True):
    os.makedirs(workdir, exist_ok=True)
    mod = "MC_Constraint_" + name
    src = ["---- MODULE %s ----" % mod, "EXTENDS Constraint",
           "ConsDef == << " + ", ".join('[lo |-> %d, hi |-> %d, iv |-> %d, tf |-> "%s"]' % c for c in cons) + " >>"]
    for k in ALPH_KEYS:
        src.append("%sDef == %s" % (k, _set(alph[k])))
    src.append("====")
    with open(os.path.join(workdir, mod + ".tla"), "w") as f:
        f.write("\n".join(src) + "\n")
    cfg = os.path.join(workdir, mod + ".cfg")
    consts = {k: "<- %sDef" % k for k in ("Cons",) + ALPH_KEYS}
    consts.update(MaxLen=maxlen, RecordHist=record, IntersectRaises=intersect_raises)
    tlc.write_cfg(cfg, spec="Spec", constants=consts, invariants=["TypeOK", "InBounds", "Agree", "ContractNow"],
                  properties=["SetThenRead", "RejectIffOutside", "RawInitChecked", "LoadRestores", "BoundsFollow"])
    return os.path.join(workdir, mod + ".tla"), cfg


_HIST = re.compile(r"/\\ hist = (.*?)(?=\n/\\ |\n\s*\n|\Z)", re.S)


def read_histories(dump_path, maxlen):
    """All histories of length maxlen in a -dump file (the shorter ones are their prefixes)."""
    with open(dump_path) as f:
        text = f.read()
    out = []
    for m in _HIST.finditer(text):
        s = m.group(1).strip()
        if s == "<<>>":
            continue
        h = ast.literal_eval(s.replace("<<", "(").replace(">>", ",)"))
        if len(h) == maxlen:
            out.append(h)
    return out


# ---------------------------------------------------------------------------------------------
# discovery of the exported modules with constrained parameters
# ---------------------------------------------------------------------------------------------
def _recipes(torch, gp):
    K, L, M = gp.kernels, gp.likelihoods, gp.means
    return dict(
        base_kernel=lambda: K.RBFKernel(), radial_base_kernel=lambda: K.RBFKernel(), data_covar_module=lambda: K.RBFKernel(),
        base_kernels=lambda: [K.RBFKernel(), K.MaternKernel()], num_dims=lambda: 2, num_tasks=lambda: 2,
        num_angular_weights=lambda: 3, vocab_size=lambda: 4, power=lambda: 2, num_samples=lambda: 4,
        grid=lambda: torch.linspace(0, 1, 5, dtype=torch.float64).unsqueeze(-1), grid_size=lambda: 8,
        inducing_points=lambda: torch.linspace(0, 1, 4, dtype=torch.float64).unsqueeze(-1), likelihood=lambda: L.GaussianLikelihood(),
        distance_function=lambda: (lambda a, b: (a - b).pow(2).sum(-1)), targets=lambda: torch.tensor([0, 1, 2, 1]),
        noise=lambda: torch.full((4,), 0.1, dtype=torch.float64), input_size=lambda: 2,
        base_means=lambda: [M.ConstantMean(), M.ZeroMean()], num_classes=lambda: 3, num_features=lambda: 2, num_mixtures=lambda: 2,
    )


FORCED = ("num_mixtures", "num_classes", "num_features", "num_dims")


def instantiate(torch, gp, cls, extra=None):
    sig = inspect.signature(cls.__init__)
    tab = _recipes(torch, gp)
    args, kw = [], {}
    for n, p in list(sig.parameters.items())[1:]:
        if p.kind is p.VAR_POSITIONAL:
            if n == "kernels":
                args += [gp.kernels.RBFKernel(), gp.kernels.MaternKernel()]
            elif n == "likelihoods":
                args += [gp.likelihoods.GaussianLikelihood(), gp.likelihoods.GaussianLikelihood()]
            continue
        if p.kind is p.VAR_KEYWORD:
            continue
        if p.default is p.empty or (n in FORCED and p.default is None):
            f = tab.get(n)
            v = f() if f is not None else None
            if v is None:
                raise TypeError("no recipe for constructor argument %s" % n)
            kw[n] = v
    if extra:
        kw.update(extra)
    return cls(*args, **kw)


CTOR_CONSTRAINTS = {  # variant -> factory of the constraint handed to every <x>_constraint constructor argument
    "cI0": lambda torch, C: C.Interval(0.1, 5.0),
    "cI1": lambda torch, C: C.Interval(-1.0, 0.3),
    "cI2": lambda torch, C: C.Interval(1e-3, 1e3),
    "cL0": lambda torch, C: C.LessThan(2.0),
    "cL1": lambda torch, C: C.LessThan(-0.5),
    "cE0": lambda torch, C: C.GreaterThan(0.01, transform=torch.exp, inv_transform=torch.log),
    "cG0": lambda torch, C: C.GreaterThan(-3.0),
}


def _accepts(cls, name):
    ps = inspect.signature(cls.__init__).parameters
    return name in ps or any(p.kind is p.VAR_KEYWORD for p in ps.values())


def _constrained(root):
    """[(dotted raw path, owner, raw name, public name, constraint)] of the constrained parameters with a public setter."""
    out = []
    for pn, _, con in root.named_parameters_and_constraints():
        if con is None or not con.enforced:
            continue
        parts = pn.split(".")
        owner = root
        for q in parts[:-1]:
            owner = getattr(owner, q)
        rawn = parts[-1]
        if not rawn.startswith("raw_"):
            continue
        pub = rawn[4:]
        prop = getattr(type(owner), pub, None)
        if not isinstance(prop, property) or prop.fset is None:
            continue
        out.append((pn, owner, rawn, pub, con))
    return out


_PLANS = {}


def variant_plan(torch, gp, cls, variant):
    """Names of the constructor keyword arguments of a variant (None when the class does not offer it); cached."""
    key = (cls, variant)
    if key in _PLANS:
        return _PLANS[key]
    _PLANS[key] = plan = _variant_plan(torch, gp, cls, variant)
    return plan


def plan_kwargs(torch, gp, plan, variant):
    """Fresh keyword arguments for a plan."""
    kw = {}
    for n, what in plan.items():
        if what == "batch":
            kw[n] = torch.Size([2])
        elif what == "constraint":
            kw[n] = CTOR_CONSTRAINTS[variant](torch, gp.constraints)
        elif what == "prior":
            kw[n] = placeholder_prior(gp)
        else:
            kw[n] = what
    return kw


def placeholder_prior(gp):
    # full support, so that Module.initialize's "value is in the support of the prior" validation never interferes
    return gp.priors.NormalPrior(0.0, 10.0)


def _variant_plan(torch, gp, cls, variant):
    plan = {}
    ps = inspect.signature(cls.__init__).parameters
    if variant == "b":
        if not _accepts(cls, "batch_shape"):
            return None
        plan["batch_shape"] = "batch"
    elif variant == "a":
        if not _accepts(cls, "ard_num_dims"):
            return None
        plan["ard_num_dims"] = 3
    elif variant == "l":
        if "learn_additional_noise" not in ps:
            return None
        plan["learn_additional_noise"] = True
    elif variant == "ba":
        if not (_accepts(cls, "batch_shape") and _accepts(cls, "ard_num_dims")):
            return None
        plan.update(batch_shape="batch", ard_num_dims=2)
    elif variant in CTOR_CONSTRAINTS:
        names = [n for n in ps if n.endswith("_constraint")]
        if any(p.kind is p.VAR_KEYWORD for p in ps.values()) and issubclass(cls, gp.kernels.Kernel) and "lengthscale_constraint" not in names:
            names.append("lengthscale_constraint")
        for n in names:
            try:
                instantiate(torch, gp, cls, plan_kwargs(torch, gp, {n: "constraint"}, variant))
                plan[n] = "constraint"
            except Exception:
                pass
        if not plan:
            return None
    try:
        probe = instantiate(torch, gp, cls, plan_kwargs(torch, gp, plan, variant))
    except Exception:
        return None
    for pub in sorted({pub for _, _, _, pub, _ in _constrained(probe)}):
        n = pub + "_prior"
        if not _accepts(cls, n):
            continue
        try:
            m = instantiate(torch, gp, cls, plan_kwargs(torch, gp, dict(plan, **{n: "prior"}), variant))
            if any(n in getattr(o, "_priors", {}) for _, o, _, pb, _ in _constrained(m) if pb == pub):
                plan[n] = "prior"
        except Exception:
            pass
    return plan


VARIANTS = ["d", "b", "a", "ba", "l"] + sorted(CTOR_CONSTRAINTS)
_NS = ("kernels", "likelihoods", "means")


def build_root(torch, gp, desc):
    cls = getattr(getattr(gp, desc["ns"]), desc["cls"])
    plan = variant_plan(torch, gp, cls, desc["variant"])
    if plan is None:
        raise core.Machinery("variant %s of %s is no longer constructible" % (desc["variant"], desc["cls"]))
    return instantiate(torch, gp, cls, plan_kwargs(torch, gp, plan, desc["variant"]))


def init_kind(torch, con):
    lo_inf = bool(torch.isinf(con.lower_bound).all())
    hi_inf = bool(torch.isinf(con.upper_bound).all())
    if lo_inf and hi_inf:
        return None
    return "LT" if lo_inf else ("GT" if hi_inf else "IV")


def discover(torch, gp):
    """Cells = (exported class, variant, dotted parameter path).  Returns (cells, report)."""
    cells, skipped, classes = [], [], {}
    for ns in _NS:
        mod = getattr(gp, ns)
        for n in mod.__all__:
            cls = getattr(mod, n)
            if not inspect.isclass(cls) or not issubclass(cls, torch.nn.Module) or n.startswith("_"):
                continue
            seen_default = None
            try:
                instantiate(torch, gp, cls)
            except Exception as e:
                skipped.append("%s.%s: %s: %s" % (ns, n, type(e).__name__, str(e)[:80]))
                continue
            for variant in VARIANTS:
                try:
                    plan = variant_plan(torch, gp, cls, variant)
                    if plan is None:
                        continue
                    root = instantiate(torch, gp, cls, plan_kwargs(torch, gp, plan, variant))
                except Exception:
                    continue
                rows = _constrained(root)
                sig = [(pn, tuple(getattr(o, pub).shape), type(c).__name__, c.lower_bound.tolist(), c.upper_bound.tolist()) for pn, o, _, pub, c in rows]
                if variant == "d":
                    seen_default = sig
                elif sig == seen_default and not variant.startswith("c"):
                    continue  # the variant changes nothing about the constrained parameters
                for pn, owner, rawn, pub, con in rows:
                    kind = init_kind(torch, con)
                    if kind is None:
                        continue
                    if variant.startswith("c") and seen_default is not None and \
                            any(pn == s[0] and con.lower_bound.tolist() == s[3] and con.upper_bound.tolist() == s[4] for s in seen_default):
                        continue  # this parameter did not receive the constructor constraint
                    own_prior = (pub + "_prior") in getattr(owner, "_priors", {})
                    cells.append(dict(ns=ns, cls=n, variant=variant, path=pn, owner=type(owner).__name__, pub=pub, kind=kind,
                                      own_prior=own_prior, ctype=type(con).__name__, shape=list(getattr(owner, pub).shape)))
                    classes.setdefault(n, set()).add(pn)
    return cells, dict(skipped=skipped, classes={k: sorted(v) for k, v in classes.items()})


# ---------------------------------------------------------------------------------------------
# concrete realisation of the abstract grid
# ---------------------------------------------------------------------------------------------
class Grid:
    """Concrete float64 tensors (broadcast to the value shape) for the grid points 2, 4, 8, 10 and families for the gaps."""

    DELTAS = [(0.5, 4.0, 10.0), (1e-3, 0.1, 1.0), (10.0, 1e3, 1e6), (0.25, 0.75, 3.0)]

    def __init__(self, torch, con, shape, rnd):
        self.torch = torch
        self.shape = tuple(shape)
        t64 = dict(dtype=torch.float64)
        lo = con.lower_bound.detach().to(**t64)
        hi = con.upper_bound.detach().to(**t64)
        d1, d2, d3 = rnd.choice(self.DELTAS)
        # elementwise factors for tensor-valued alternative bounds
        self.tensor_bounds = rnd.random() < 0.5
        last = self.shape[-1] if self.shape else 1
        if self.tensor_bounds and self.shape:
            fac = torch.tensor([1.0, 2.0, 0.5, 1.5, 3.0][:last] * (last // 5 + 1), **t64)[:last]
        else:
            fac = torch.ones((), **t64)
        self.bshape = tuple(fac.shape)
        B = {}
        if bool(torch.isinf(lo).all()):      # LessThan: everything hangs below H1
            B[10] = hi + 0 * fac
            B[8], B[4], B[2] = B[10] - d1 * fac, B[10] - d2 * fac, B[10] - d3 * fac
        elif bool(torch.isinf(hi).all()):    # GreaterThan / Positive
            B[2] = lo + 0 * fac
            B[4], B[8], B[10] = B[2] + d1 * fac, B[2] + d2 * fac, B[2] + d3 * fac
        else:
            w = hi - lo
            B[2], B[10] = lo + 0 * fac, hi + 0 * fac
            f2 = (fac / fac.max()) if fac.dim() else fac
            B[4], B[8] = lo + 0.2 * w * f2, hi - 0.25 * w * f2
        self.B = B
        self.mid = (B[4] + B[8]) / 2
        inf = torch.tensor(math.inf, **t64)
        for a, b in ((2, 4), (4, 8), (8, 10)):
            if not bool((B[a] < B[b]).all()):
                raise core.Machinery("grid not ordered: %s" % {k: v.tolist() for k, v in B.items()})
        if not bool(((B[4] < self.mid) & (self.mid < B[8])).all()):
            raise core.Machinery("grid midpoint not strictly inside")
        self.B[0], self.B[12] = -inf, inf

    def full(self, x):
        return (x + self.torch.zeros(self.shape, dtype=self.torch.float64)).clone()

    def bound(self, v):
        return self.full(self.B[v])

    def family(self, v):
        """List of elementwise candidate tensors (bound-shaped) for gap class v."""
        t = self.torch
        B, mid = self.B, self.mid
        def na(x, up):
            # 1 ulp next to a bound; next to 0 that is a subnormal number, which no transform represents: use +-1e-300 there
            y = t.nextafter(x, t.full_like(x, math.inf if up else -math.inf))
            return t.where(y.abs() < 1e-300, t.full_like(y, 1e-300 if up else -1e-300), y)

        if v == 1:
            L = B[2]
            out = [L - 1 - L.abs() / 2, na(L, False), t.full_like(L, -1e300), L - 1e-3 * t.clamp(L.abs(), min=1.0)]
            if bool((L == 0).all()):
                out += [t.full_like(L, -1e-300)]
            return out
        if v == 3:
            out = [(B[2] + B[4]) / 2, na(B[2], True), na(B[4], False), B[2] + 0.25 * (B[4] - B[2])]
            if bool((B[2] == 0).all()):
                out += [t.full_like(B[2], 1e-300)]
            return out
        if v == 5:
            return [(B[4] + mid) / 2, na(B[4], True), na(mid, False)]
        if v == 6:
            return [mid + 0 * B[4]]
        if v == 7:
            return [(mid + B[8]) / 2, na(B[8], False), na(mid, True)]
        if v == 9:
            return [(B[8] + B[10]) / 2, na(B[8], True), na(B[10], False)]
        if v == 11:
            H = B[10]
            return [H + 1 + H.abs() / 2, na(H, True), t.full_like(H, 1e300), H + 1e-3 * t.clamp(H.abs(), min=1.0), H + 1e10 * t.clamp(H.abs(), min=1.0)]
        raise core.Machinery("no family for grid point %r" % v)

    def conc(self, v, rnd, mix=True):
        """A full-shape tensor in class v; elements may come from different family members."""
        t = self.torch
        if v == NAN:
            return self.full(t.tensor(math.nan, dtype=t.float64))
        if v in (0, 2, 4, 8, 10, 12):
            return self.bound(v)
        fam = [self.full(x) for x in self.family(v)]
        base = rnd.choice(fam)
        if mix and base.numel() > 1 and rnd.random() < 0.5:
            flat = base.clone().reshape(-1)
            for i in range(flat.numel()):
                flat[i] = rnd.choice(fam).reshape(-1)[i]
            base = flat.reshape(self.shape)
        return base

    def sub_interval(self, v):
        """(low, high) of a prior concentrated strictly inside gap class v."""
        B, mid = self.B, self.mid
        if v == 1:
            L = B[2]
            a, b = L - 2 - L.abs() / 2, L - 1 - L.abs() / 2
        elif v == 11:
            H = B[10]
            a, b = H + 1 + H.abs() / 2, H + 2 + H.abs() / 2
        else:
            lo, hi = {3: (B[2], B[4]), 5: (B[4], mid), 6: (mid - (mid - B[4]) / 4, mid + (B[8] - mid) / 4), 7: (mid, B[8]), 9: (B[8], B[10])}[v]
            a, b = lo + 0.25 * (hi - lo), lo + 0.75 * (hi - lo)
        return self.full(a), self.full(b)

    def as_bound(self, v, rnd):
        """A bound in the form the user passes it: python float when uniform (sometimes), else a tensor of the bound shape."""
        x = self.B[v]
        if x.dim() == 0 and rnd.random() < 0.5:
            return float(x)
        return x.clone()


def make_constraint(torch, gp, grid, c, rnd, ivval=None):
    """Constraint object for the spec record c = (lo, hi, iv, tf); ivval = full-shape tensor of the initial value."""
    C = gp.constraints
    lo, hi, iv, tf = c
    kw = {}
    if iv != NOIV:
        val = ivval.reshape(-1)[0] if not grid.bshape else ivval.reshape(-1, *grid.bshape)[0]
        kw["initial_value"] = float(val) if (val.dim() == 0 and rnd.random() < 0.5) else val.clone()
    if tf == "exp":
        kw.update(transform=torch.exp, inv_transform=torch.log)
    if lo == 0:
        return C.LessThan(grid.as_bound(hi, rnd), **kw)
    if hi == 12:
        if tf != "exp" and bool((grid.B[lo] == 0).all()) and rnd.random() < 0.5:
            return C.Positive(**kw)
        return C.GreaterThan(grid.as_bound(lo, rnd), **kw)
    return C.Interval(grid.as_bound(lo, rnd), grid.as_bound(hi, rnd), **kw)


# ---------------------------------------------------------------------------------------------
# the driver: one history on one constrained parameter
# ---------------------------------------------------------------------------------------------
class Fail(Exception):
    def __init__(self, clause, what, step=0):
        super().__init__(what)
        self.clause, self.what, self.step = clause, what, step


class Stop(Exception):
    """The implementation took the other branch of a step the property leaves open."""


def vclass(v, lo, hi):
    if v == NAN:
        return "nan"
    if v in (0, 12) and v not in (lo, hi):
        return "-inf" if v == 0 else "+inf"
    return "below" if v < lo else "lo" if v == lo else "hi" if v == hi else "above" if v > hi else "inside"


def _same(torch, a, b):
    return a.shape == b.shape and bool(((a == b) | (torch.isnan(a) & torch.isnan(b))).all())


def fmt(x):
    x = x.detach().reshape(-1)
    return "[" + ", ".join(repr(float(v)) for v in x[:4]) + (", ..." if x.numel() > 4 else "") + "]"


def run_history(torch, gp, desc, hist, seed, trace=None, notes=None):
    cur = [0]
    try:
        return _run_history(torch, gp, desc, hist, seed, trace, cur, notes)
    except Fail as f:
        f.step = cur[0]
        raise


def _run_history(torch, gp, desc, hist, seed, trace, cur, notes):
    """Replays hist (tuple of <<op, a, b, sem, acc, allowed', lo', hi'>>) into a fresh module.  Returns the number of
    steps compared; raises Fail at the first property-level mismatch."""
    rnd = random.Random(seed)
    root = build_root(torch, gp, desc)
    owner = root
    parts = desc["path"].split(".")
    for q in parts[:-1]:
        owner = getattr(owner, q)
    rawn, pub = parts[-1], desc["pub"]
    pubpath = ".".join(parts[:-1] + [pub])
    cname = rawn + "_constraint"
    con0 = owner._constraints[cname]
    read = lambda: getattr(owner, pub).detach().to(torch.float64)
    rawp = lambda: getattr(owner, rawn)
    grid = Grid(torch, con0, read().shape, rnd)
    cons = CONS[desc["kind"]]
    lo, hi = cons[0][0], cons[0][1]
    expected = None           # concrete tensor the property requires to be read, or None (closed interval only)
    expect_clause = ["SetThenRead"]
    last_conc = {}
    pname = pub + "_prior"
    holder = None
    say = trace.append if trace is not None else (lambda s: None)

    def tol_scale(lo_i, hi_i):
        s = torch.zeros(grid.shape, dtype=torch.float64)
        for b in (grid.B[lo_i], grid.B[hi_i]):
            s = torch.maximum(s, torch.where(torch.isfinite(b), b.abs(), torch.zeros_like(b)) + torch.zeros_like(s))
        return s

    def live():
        return owner._constraints[cname]

    def check_bounds_reported(i, what, lo_i, hi_i, deep):
        """The constraint's attributes (and, deep, the module's state_dict) report the bounds the history has arrived at."""
        c = live()
        srcs = [("attribute", c.lower_bound, c.upper_bound)]
        if deep:
            sd = root.state_dict()
            pre = ".".join(parts[:-1] + [cname])
            if pre + ".lower_bound" in sd and pre + ".upper_bound" in sd:
                srcs.append(("state_dict entry", sd[pre + ".lower_bound"], sd[pre + ".upper_bound"]))
        for nm, Lr, Hr in srcs:
            for side, got, want in (("lower_bound", Lr, grid.B[lo_i]), ("upper_bound", Hr, grid.B[hi_i])):
                got = got.detach().to(torch.float64)
                try:
                    g, w = torch.broadcast_tensors(got, want)
                    same = bool((g == w).all())
                except RuntimeError:
                    same = False
                if not same:
                    raise Fail("BoundsReported", "after step %d (%s) the %s %s is %s, the bound in force is %s" % (i, what, nm, side, fmt(got), fmt(want)))

    def check_contract(i, what, lo_i, hi_i):
        """Transform contract of the LIVE constraint object against the bounds now in force (ContractNow)."""
        c = live()
        L, H = grid.full(grid.B[lo_i]), grid.full(grid.B[hi_i])
        scale = tol_scale(lo_i, hi_i)
        slack = 4e-15 * scale
        R = _SWEEP(torch).reshape(-1, *([1] * len(grid.shape))) + torch.zeros(grid.shape, dtype=torch.float64)
        ok_, T = core.guarded(lambda: c.transform(R))
        if not ok_:
            raise Fail("RangeClosed", "after step %d (%s) transform raised %s" % (i, what, T))
        T = T.detach().to(torch.float64)
        bad = torch.isnan(T) | (T < L - slack) | (T > H + slack)
        if bool(bad.any()):
            j = bad.nonzero()[0].tolist()
            raise Fail("RangeClosed", "after step %d (%s) transform(%r) = %r is outside the closed interval [%r, %r] the constraint reports" % (
                i, what, float(R[tuple(j)]), float(T[tuple(j)]), float(L[tuple(j[1:])]), float(H[tuple(j[1:])])))
        d = T[1:] - T[:-1]
        tolm = 1e-9 * torch.maximum(torch.maximum(T[1:].abs(), T[:-1].abs()).clamp(max=1e300), scale)
        badm = ((d < -tolm) & torch.isfinite(T[1:]) & torch.isfinite(T[:-1])) | (torch.isinf(T[:-1]) & (T[1:] < T[:-1]))
        if bool(badm.any()):
            j = badm.nonzero()[0].tolist()
            raise Fail("Monotone", "after step %d (%s) transform(%r) = %r > transform(%r) = %r" % (
                i, what, float(R[tuple(j)]), float(T[tuple(j)]), float(R[tuple([j[0] + 1] + j[1:])]), float(T[tuple([j[0] + 1] + j[1:])])))
        vals = torch.stack([grid.full(x) for v in (5, 6, 7) for x in grid.family(v)])       # strictly inside every constraint of the lattice
        ok_, back = core.guarded(lambda: c.transform(c.inverse_transform(vals)))
        if not ok_:
            raise Fail("InverseOnInterior", "after step %d (%s) inverse_transform / transform raised %s" % (i, what, back))
        back = back.detach().to(torch.float64)
        badi = ~((back - vals).abs() <= 1e-10 * torch.maximum(vals.abs(), scale))
        if bool(badi.any()):
            j = badi.nonzero()[0].tolist()
            raise Fail("InverseOnInterior", "after step %d (%s) transform(inverse_transform(%r)) = %r with bounds [%r, %r]" % (
                i, what, float(vals[tuple(j)]), float(back[tuple(j)]), float(L[tuple(j[1:])]), float(H[tuple(j[1:])])))

    def check_state(i, what, lo_i, hi_i, bounds_op=False):
        check_bounds_reported(i, what, lo_i, hi_i, bounds_op)
        if bounds_op and CONTRACT_SWEEP:
            check_contract(i, what, lo_i, hi_i)
        val = read()
        L, H = grid.full(grid.B[lo_i]), grid.full(grid.B[hi_i])
        slack = 4e-15 * tol_scale(lo_i, hi_i)      # rounding of sigmoid(x) * (hi - lo) + lo at saturation
        if val.shape != L.shape:
            raise Fail("Shape", "after step %d (%s) the value has shape %s, it had %s" % (i, what, tuple(val.shape), tuple(L.shape)))
        bad = torch.isnan(val) | (val < L - slack) | (val > H + slack)
        if bool(bad.any()):
            j = int(bad.reshape(-1).nonzero()[0])
            raise Fail("InBounds", "after step %d (%s) the parameter reads %r outside [%r, %r] (raw %r)" % (
                i, what, float(val.reshape(-1)[j]), float(L.reshape(-1)[j]), float(H.reshape(-1)[j]), float(rawp().detach().reshape(-1)[j])))
        if expected is not None:
            tol = 1e-9 * torch.maximum(expected.abs(), tol_scale(lo_i, hi_i))
            fin = torch.isfinite(expected)
            ok = torch.where(fin, (val - expected).abs() <= tol, val == expected)
            if not bool(ok.all()):
                j = int((~ok).reshape(-1).nonzero()[0])
                raise Fail(expect_clause[0], "after step %d (%s) the parameter reads %r, the value stored was %r" % (
                    i, what, float(val.reshape(-1)[j]), float(expected.reshape(-1)[j])))
        if pname in owner._priors:
            cl = owner._priors[pname][1](owner).detach().to(torch.float64)
            if not _same(torch, cl.reshape(val.shape) if cl.numel() == val.numel() else cl, val):
                raise Fail("PriorClosureReadsConstrained", "after step %d (%s) the prior closure returns %s, the parameter reads %s" % (i, what, fmt(cl), fmt(val)))
        return val

    def unpositive(new_lo):
        """Positive is the class `lower bound = 0` (its transform does not read the buffer): a history that gives the parameter
        another lower bound is the history of a GreaterThan - exchanged through register_constraint, value unchanged."""
        lc = live()
        if isinstance(lc, gp.constraints.Positive) and not bool((grid.B[new_lo] == 0).all()):
            owner.register_constraint(rawn, gp.constraints.GreaterThan(lc.lower_bound.clone(), transform=lc._transform, inv_transform=lc._inv_transform))

    check_state(0, "construction", lo, hi)
    steps = 0
    for i, (op, a, b, sem, acc, al, nlo, nhi) in enumerate(hist, 1):
        opn = OPS[op]
        cur[0] = i
        raw_before = rawp().detach().clone()
        con_before = owner._constraints[cname]
        concrete = None
        clear_out = True
        near_bound = False
        if op in SETTERS:
            concrete = grid.conc(a, rnd)
            if sem == 0 and a != NAN and concrete.numel() > 1 and rnd.random() < 0.3:
                # only one element is outside
                inside = grid.conc(6 if lo <= 6 <= hi else (3 if hi < 6 else 9), rnd)
                j = rnd.randrange(concrete.numel())
                flat = inside.reshape(-1).clone()
                flat[j] = concrete.reshape(-1)[j]
                concrete = flat.reshape(grid.shape)
            if sem == 0:
                L, H = grid.full(grid.B[lo]), grid.full(grid.B[hi])
                m = 1e-6 * torch.clamp(tol_scale(lo, hi), min=1.0)
                clear_out = bool((torch.isnan(concrete) | (concrete < L - m) | (concrete > H + m)).any())
            form = rnd.choice(("tensor", "tensor", "scalar", "float"))
            uniform = bool((concrete == concrete.reshape(-1)[0]).all()) or bool(torch.isnan(concrete).all())
            if form != "tensor" and uniform and op != 6:
                box = [float(concrete.reshape(-1)[0]) if form == "float" else concrete.reshape(-1)[0].clone()]
            else:
                form = "tensor"
                box = [concrete.clone()]
        what = "%s(%s)" % (opn, vclass(a, lo, hi) if op in SETTERS else RAWNAME.get(a, a) if op in (2, 4) else
                           "%s, replace=%s" % (cons[a - 1], bool(b)) if op == 5 else _argname(op, a, b, cons))
        if op == 1:
            call = lambda: setattr(owner, pub, box[0])
        elif op == 3:
            if b == 0:
                call = lambda: owner.initialize(**{pub: box[0]})
            else:
                if holder is None:
                    holder = gp.Module()
                    holder.sub = root
                call = lambda: holder.initialize(**{"sub." + pubpath: box[0]})
        elif op in (6, 7):
            if pname not in owner._priors:
                owner.register_prior(pname, placeholder_prior(gp), lambda m: getattr(m, pub), lambda m, v: setattr(m, pub, v))
            _, closure, setting = owner._priors[pname]
            if op == 7:
                call = lambda: setting(owner, box[0])
            else:
                lowp, highp = grid.sub_interval(a)
                owner.register_prior(pname, gp.priors.UniformPrior(lowp, highp), closure, setting)
                s = rnd.randrange(1 << 30)
                torch.manual_seed(s)
                concrete = owner._priors[pname][0].sample().to(torch.float64)
                if concrete.shape != grid.shape:
                    raise core.Machinery("prior sample has shape %s" % (tuple(concrete.shape),))
                clear_out = True
                torch.manual_seed(s)
                call = lambda: owner.sample_from_prior(pname)
        elif op == 2:
            if a == -1:
                r = torch.full(grid.shape, -math.inf, dtype=torch.float64)
            elif a == 9:
                r = torch.full(grid.shape, math.inf, dtype=torch.float64)
            elif a == NAN:
                r = torch.full(grid.shape, math.nan, dtype=torch.float64)
                if r.numel() > 1 and rnd.random() < 0.4:
                    r = torch.zeros(grid.shape, dtype=torch.float64)
                    r.reshape(-1)[rnd.randrange(r.numel())] = math.nan
            else:
                pool = {1: [-800.0, -1e4, -1e300, -50.0, -37.0], 2: [0.0, 0.5, -0.5, 3.0, -3.0, 1e-300, 19.9999, 20.0001], 3: [40.0, 800.0, 1e4, 1e300, 37.0]}[a]
                r = torch.tensor([rnd.choice(pool) for _ in range(max(1, int(torch.zeros(grid.shape).numel())))], dtype=torch.float64).reshape(grid.shape)
            if rnd.random() < 0.3 and bool((r == r.reshape(-1)[0]).all()):
                r = r.reshape(-1)[0].clone()
            if rnd.random() < 0.5:
                call = lambda: owner.initialize(**{rawn: r})
            else:
                call = lambda: root.initialize(**{desc["path"]: r})
        elif op == 4:
            target = {1: [-800.0, -1e4, -60.0, -1e300], 2: [0.0, 1.0, -2.0], 3: [40.0, 800.0, 1e4, 1e300]}[a]
            p = rawp()
            tgt = torch.tensor([rnd.choice(target) for _ in range(max(1, p.numel()))], dtype=p.dtype).reshape(p.shape)

            def call():
                opt = torch.optim.SGD([p], lr=1.0)
                p.grad = torch.where(torch.isfinite(p.detach()), p.detach() - tgt, torch.zeros_like(tgt))
                opt.step()
                p.grad = None
        elif op == 5:
            if cons[a - 1][2] != NOIV:
                concrete = grid.conc(cons[a - 1][2], rnd, mix=False)
                concrete = grid.full(concrete.reshape(-1)[0] if not grid.bshape else concrete.reshape(-1, *grid.bshape)[0])
            newc = make_constraint(torch, gp, grid, cons[a - 1], rnd, concrete)
            call = lambda: owner.register_constraint(rawn, newc, replace=bool(b))
        elif op == 8:
            # load_state_dict from a model of the same architecture whose constraint was CONSTRUCTED with other bounds
            c_new = cons[b - 1]
            unpositive(c_new[0])
            lc = live()
            tgt = {}
            for side, gi in (("lower_bound", c_new[0]), ("upper_bound", c_new[1])):
                cur_b = getattr(lc, side)
                shp = torch.broadcast_shapes(tuple(cur_b.shape), tuple(grid.B[gi].shape))
                if tuple(cur_b.shape) != tuple(shp):
                    # state dicts restore buffers of equal shape: give the live bound its broadcast shape first (same values)
                    setattr(lc, side, cur_b.expand(shp).clone())
                tgt[side] = grid.B[gi].expand(shp).clone()
            src_root = build_root(torch, gp, desc)
            src_owner = _resolve(src_root, parts)
            srccon = fresh_like(torch, gp, lc, tgt["lower_bound"], tgt["upper_bound"])
            for cn in [cn for cn, cv in owner._constraints.items() if cv is lc]:
                # same architecture: parameters that share the constraint object in the live model share it in the saved one
                src_owner.register_constraint(cn[:-len("_constraint")], srccon)
            if a != ANYV:
                concrete = grid.conc(a, rnd)
                ok_s, info_s = core.guarded(lambda: setattr(src_owner, pub, concrete.clone()))
                if not ok_s:
                    raise Fail("RejectIffOutside", "step %d %s: on the model to be saved the assignment of %s (bounds [%s, %s]) was refused: %s" % (
                        i, what, fmt(concrete), fmt(tgt["lower_bound"]), fmt(tgt["upper_bound"]), info_s))
            whole = rnd.random() < 0.6
            state = (src_root if whole else src_owner).state_dict()
            pre = (".".join(parts[:-1]) + "." if (whole and len(parts) > 1) else "")
            for k in (pre + rawn, pre + cname + ".lower_bound", pre + cname + ".upper_bound"):
                if k not in state:
                    raise core.Machinery("state dict of %s has no key %s" % (desc["cls"], k))
            dest = root if whole else owner
            live_sd = dest.state_dict()
            for k, v in list(state.items()):
                # OTHER constraints whose bound buffers were given a broadcast shape earlier in this history (objects shared
                # between parameters): a state dict restores buffers of equal shape only, so save them in that shape
                if k.endswith("_bound") and k in live_sd and v.shape != live_sd[k].shape and cname + "." not in k:
                    try:
                        state[k] = v.expand(live_sd[k].shape).clone()
                    except RuntimeError:
                        pass
            call = lambda: dest.load_state_dict(state, strict=False)
        elif op == 9:
            if a == 0:
                unpositive(b)
            lc = live()
            side = "upper_bound" if a else "lower_bound"
            newb = grid.B[b].clone()
            cur_b = getattr(lc, side)
            how = rnd.choice(("assign", "assign", "copy_", "owner"))
            if how == "copy_" and tuple(torch.broadcast_shapes(tuple(cur_b.shape), tuple(newb.shape))) == tuple(cur_b.shape):
                call = lambda: cur_b.copy_(newb)
            elif how == "owner":
                call = lambda: setattr(getattr(owner, cname), side, newb)
            else:
                call = lambda: setattr(lc, side, newb)
        elif op == 10:
            f32 = False
            if a == 1:
                rb = {g: grid.B[g].to(torch.float32).to(torch.float64) for g in (2, 4, 8, 10)}
                rmid = grid.mid.to(torch.float32).to(torch.float64)
                f32 = all(bool(torch.isfinite(x).all()) for x in rb.values()) and bool(
                    ((rb[2] < rb[4]) & (rb[4] < rmid) & (rmid < rb[8]) & (rb[8] < rb[10]) & ((rmid - rb[4]) > 1e-3 * (rb[8] - rb[4])) & ((rb[8] - rmid) > 1e-3 * (rb[8] - rb[4]))).all())
            if f32:
                target = rnd.choice((root, root, owner))
                call = lambda: target.float().double()
            else:
                target, how = rnd.choice(((root, "double"), (root, "to"), (owner, "double"), (live(), "double"), (root, "cpu"), (owner, "type")))
                call = {"double": lambda: target.double(), "to": lambda: target.to(torch.float64), "cpu": lambda: target.to("cpu"),
                        "type": lambda: target.type(torch.float64)}[how]
        elif op == 11:
            box = [None]

            def call():
                # (a pickle round trip, a = 1, is not generated: most modules hold local lambdas as prior closures)
                box[0] = copy.deepcopy(root) if a == 0 else pickle.loads(pickle.dumps(root))
        else:
            raise core.Machinery("unknown op %r" % (op,))
        esem = sem
        if op in SETTERS and sem == 0 and not clear_out:
            esem = 2              # within rounding of a bound: the property decides rejection at clearly outside values
        if op in SETTERS and sem == 1 and op != 6:
            L, H = grid.full(grid.B[lo]), grid.full(grid.B[hi])
            if bool((torch.minimum(concrete - L, H - concrete) <= 4e-15 * tol_scale(lo, hi)).any()):
                # inside, but within the rounding of (hi - lo) + lo of a bound: acceptance is not decided by the property
                # (when accepted the value must read back); same slack as the closed-interval check
                esem = 2
                near_bound = True
        ok, info = core.guarded(call)
        if not ok and op in SETTERS and op != 6 and esem == 1 and form != "tensor" and _same(torch, rawp().detach(), raw_before):
            # some setters take tensors of the parameter's shape only; python floats / 0-d tensors are outside the claim
            first = info
            box[0] = concrete.clone()
            ok, info = core.guarded(call)
            if ok and notes is not None:
                notes.add("%s.%s = <%s>: %s" % (desc["owner"], pub, "python float" if form == "float" else "0-d tensor", first[:90]))
        if op == 6:
            owner.register_prior(pname, placeholder_prior(gp), closure, setting)    # do not leave a narrow support behind
        say("%d %s -> %s" % (i, what, "ok" if ok else info[:80]))
        steps += 1
        if op in (8, 9, 10, 11):
            if not ok:
                if op == 11:
                    # whether a module can be deep-copied at all is not a statement of C17
                    if notes is not None:
                        notes.add("%s(%s) raised: %s" % ("deepcopy" if a == 0 else "pickle round trip", desc["cls"], info[:90]))
                    raise Stop()
                raise Fail("Accepted", "step %d %s raised: %s" % (i, what, info))
            if op == 11:
                root = box[0]
                owner = _resolve(root, parts)
                holder = None
            if op == 10 and f32:
                for g in (2, 4, 8, 10):
                    grid.B[g] = rb[g]
                grid.mid = rmid
                last_conc.clear()
            if op == 8 and not isinstance(info, str) and info is not None:
                miss = [k for k in getattr(info, "missing_keys", []) if k.endswith(rawn) or cname + "." in k]
                if miss:
                    raise core.Machinery("load_state_dict did not find %s" % miss)
        # --- accepted / rejected against the semantic machine -------------------------------------
        if esem == 1 and not ok:
            raise Fail("RejectIffOutside" if op in (1, 3) else "ClosureStores" if op in (6, 7) else "Accepted", "step %d %s with %s was refused: %s" % (
                i, what, fmt(concrete) if concrete is not None else (a, b), info))
        if esem == 0 and ok:
            raise Fail("RejectIffOutside" if op in SETTERS else "RawInitChecked", "step %d %s with %s was accepted (bounds [%s, %s]); the parameter now reads %s" % (
                i, what, fmt(concrete) if concrete is not None else "a NaN raw value", fmt(grid.B[lo]), fmt(grid.B[hi]), fmt(read())))
        if not ok and (op in SETTERS or op == 2 or (op == 5 and b == 0)):
            # a rejected operation leaves the state unchanged
            if not _same(torch, rawp().detach(), raw_before) or owner._constraints[cname] is not con_before:
                raise Fail("RejectedUnchanged", "step %d %s was refused (%s) but changed the state: raw %s -> %s" % (i, what, info, fmt(raw_before), fmt(rawp())))
        if near_bound and not ok and notes is not None:
            notes.add("value within rounding of a bound refused: %s.%s" % (desc["owner"], pub))
        if esem == 2 and ok != bool(acc):
            # the property leaves the outcome open and the implementation took the branch the generated history does not follow
            if ok:
                expected = None
                if op == 5:
                    lo, hi = _intersection(cons, a, lo, hi)
            check_state(i, what, lo, hi)
            raise Stop()
        # --- semantic post-state -------------------------------------------------------------------
        lo, hi = nlo, nhi
        if ok:
            if al == ANYV:
                expected = None
                if op in (9, 10):
                    # BoundsFollow: a saturated parameter keeps reading the bound now in force
                    r_now = rawp().detach()
                    if bool((r_now == -math.inf).all()):
                        expected = grid.bound(lo)
                    elif bool((r_now == math.inf).all()):
                        expected = grid.bound(hi)
                    expect_clause[0] = "BoundsFollow"
            elif op in SETTERS or op in (5, 8):
                last_conc[al] = concrete
                expected = concrete
                expect_clause[0] = "LoadRestores" if op == 8 else "SetThenRead"
            elif op == 10 and expected is not None:
                pass                                  # identity conversion: the value required before is still required
            else:
                expected = last_conc.get(al)
        check_state(i, what, lo, hi, op in BOUND_OPS)
    return steps


_SWEEP_T = []


def _SWEEP(torch):
    if not _SWEEP_T:
        _SWEEP_T.append(torch.tensor([-1e300, -800.0, -40.0, -5.0, -1.0, -0.1, 0.0, 0.1, 1.0, 5.0, 40.0, 800.0, 1e300], dtype=torch.float64))
    return _SWEEP_T[0]


def _resolve(root, parts):
    owner = root
    for q in parts[:-1]:
        owner = getattr(owner, q)
    return owner


def fresh_like(torch, gp, con, lower, upper):
    """A constraint of the class / transform of `con`, constructed with the given bounds (tensors)."""
    C = gp.constraints
    kw = dict(transform=con._transform, inv_transform=con._inv_transform)
    if isinstance(con, C.LessThan):
        return C.LessThan(upper.clone(), **kw)
    if isinstance(con, C.GreaterThan):
        return C.GreaterThan(lower.clone(), **kw)
    return C.Interval(lower.clone(), upper.clone(), **kw)


def _intersection(cons, a, lo, hi):
    c = cons[a - 1]
    return max(lo, c[0]), min(hi, c[1])


def _argname(op, a, b, cons):
    if op == 8:
        return "bounds %s, value %s" % (cons[b - 1][:2], "default" if a == ANYV else a)
    if op == 9:
        return "%s := %d" % ("upper" if a else "lower", b)
    if op == 10:
        return "float32 round trip" if a else "to float64"
    return "pickle" if a else "deepcopy"


def describe(hist):
    out = []
    for op, a, b, sem, acc, al, lo, hi in hist:
        s = "%s(%s%s)" % (OPS[op], a, ",%d" % b if op in (3, 5, 8, 9) else "")
        s += {0: "!rej", 1: "", 2: "?"}[sem]
        out.append(s)
    return " ; ".join(out)


def nontrivial(hist):
    changed = any(acc and op in (1, 3, 5, 6, 7, 8) for op, a, b, sem, acc, al, lo, hi in hist)
    edge = any((sem != 1) or op in (4, 5, 8, 9, 10, 11) or (op == 2 and a != 2) for op, a, b, sem, acc, al, lo, hi in hist)
    return changed and edge


_GP = None


def _env():
    global _GP
    torch = core.setup_torch()
    if _GP is None:
        import gpytorch
        _GP = gpytorch
    torch.set_default_dtype(torch.float64)
    import logging
    logging.disable(logging.WARNING)
    return torch, _GP


def _replay_worker(item):
    """item = dict(desc, hists=[...], seed)"""
    torch, gp = _env()
    desc = item["desc"]
    out = []
    cellname = "%s.%s" % (desc["owner"], desc["pub"])
    for k, hist in enumerate(item["hists"]):
        seed = item["seed"] + k
        r = dict(key=[desc["cls"], desc["variant"], desc["path"], [list(s[:3]) for s in hist]], ok=True, nontrivial=nontrivial(hist), n=len(hist))
        notes = set()
        try:
            r["n"] = run_history(torch, gp, desc, hist, seed, None, notes)
        except Stop:
            r["stopped"] = 1
        except Fail as f:
            bad = f.what
            step = f.step
            op = hist[step - 1] if step else None
            lo, hi = (hist[step - 2][6], hist[step - 2][7]) if step >= 2 else (CONS[desc["kind"]][0][0], CONS[desc["kind"]][0][1])
            cell = "construct" if op is None else "%s:%s" % (OPS[op[0]], vclass(op[1], lo, hi) if op[0] in SETTERS else RAWNAME.get(op[1], op[1]) if op[0] in (2, 4) else "%d,%d" % (op[1], op[2]))
            r.update(ok=False, sig="C17/replay/%s/%s/%s" % (cellname, f.clause, cell),
                     detail="%s(%s) %s, history %s: %s" % (desc["cls"], desc["variant"], desc["path"], describe(hist), bad),
                     case=dict(kind="history", desc=desc, hist=[list(s) for s in hist], seed=seed))
        except core.Machinery:
            raise
        if notes:
            r["notes"] = sorted(notes)
        if k == 0 and item.get("sample"):
            r["sample"] = dict(module="%s(%s).%s" % (desc["cls"], desc["variant"], desc["path"]), constraint=desc["ctype"], history=describe(hist))
        out.append(r)
    return out


# ---------------------------------------------------------------------------------------------
def run(ck):
    import time
    thorough = ck.tier == "thorough"
    rnd = random.Random(ck.seed)
    torch, gp = _env()
    t0, phases = time.time(), {}
    ck.extra["phase_s"] = phases
    ck.rule = ("histories = every sequence of Set / InitializeRaw / InitializeByName / OptStep / RegisterConstraint / SampleFromPrior / "
               "SetViaPriorClosure / LoadStateDict(other bounds) / AssignBound / Convert(dtype) / Deepcopy of the Constraint.tla machine up to the "
               "run's length (2 with the full value alphabet, 3-4 (quick) and 4-5 (thorough) with reduced alphabets), replayed on constrained parameters of every exported class; non-trivial = contains an accepted "
               "assignment and at least one of: rejected / exact-bound / non-finite value, optimiser step, constraint exchange, saturating raw "
               "value; distinct = distinct (class, variant, parameter, operation sequence).  Further cases: transform-contract cells, prior "
               "density points and histories of prior objects (every operation sequence of HSpec of length 3 per prior class, checked after "
               "every step; see sections)")
    ck.assumptions = [
        "float64 (default dtype set to float64 in the replay processes), single thread",
        "out-of-bounds assignments must be rejected at clearly outside values (further than 1e-6 * max(1, |bound|) from the interval, "
        "or NaN); assignments within rounding of a bound and assignments of exactly a bound (including +-inf for a half-open constraint) may "
        "be accepted or rejected as coded - when accepted the value read back must be the bound",
        "a value strictly inside the interval must be accepted and read back to 1e-9 relative to max(|value|, finite |bounds|); a value "
        "inside but within 4e-15 * max finite |bound| of a bound (the rounding of (hi - lo) + lo) may be refused as coded - when accepted "
        "it must read back",
        "the bounds in force are the ones the constraint's lower_bound / upper_bound attributes and the module's state_dict report; they "
        "must be the bounds last constructed / loaded / assigned, and every clause is checked against them after load_state_dict (from a "
        "model of the same architecture: same constraint class and transform, bound buffers of equal shape, strict=False because the "
        "history may have registered a prior), assignment to the bound buffers (attribute assignment and in-place copy_), "
        ".double() / .to(float64) / .cpu() / .float().double() (checked after the return to float64 against the float32-rounded bounds), "
        "copy.deepcopy and register_constraint",
        "Positive is the class `lower bound = 0` (its transform does not read the lower_bound buffer): a history that gives such a parameter "
        "another lower bound continues on an equivalent GreaterThan(0) exchanged through register_constraint",
        "the closed interval is checked with a slack of 4e-15 * max finite |bound| for the rounding of sigmoid(x)*(hi-lo)+lo at saturation",
        "register_constraint(replace=False): the property does not fix the outcome of Interval.intersect; either a refusal that leaves the "
        "state unchanged or the intersection is accepted",
        "composite convenience properties that are not the raw_<p>/<p> pair of a constrained parameter are outside the claim",
        "SmoothedBoxPrior: the docstring's exponent is read as the Gaussian tail exp(-d^2 / (2 sigma^2)) the normalisation constant _M documents",
        "LKJCholeskyFactorPrior is read as torch's documented LKJCholesky density over Cholesky factors",
        "history of a prior object (ConstraintPriors.tla, HSpec): the hyper-parameters a prior HAS are the ones last constructed / assigned "
        "through its public attributes / loaded (prior.load_state_dict, or load_state_dict of the module it is registered on, from a model "
        "of the same architecture); log_prob must be the documented density at them and the attributes and state_dict() must report them, "
        "also after copy.deepcopy / pickle and .double() / .float().double() (all lattice values are dyadic, so float32 keeps them).  "
        "Attributes assigned: the distribution's documented ones (loc, scale, concentration, rate, low, high, a, b); sigma of "
        "SmoothedBoxPrior (kept twice: sigma and tails.scale) and the covariance of MultivariateNormalPrior have no single public "
        "attribute and change by loading only.  UniformPrior and LKJ priors keep their hyper-parameters outside the state dict: loading "
        "leaves them as they are (the object still reports what log_prob uses)",
    ]
    from checks import c17_priors

    # (1) exhaustive model checking of the machine (no history variable, full alphabets)
    jobs, meta = [], []
    wd = os.path.join(tlc.BUILD, PID, "mc")
    for kind, cons in CONS.items():
        mod, cfg = write_mc(wd, "mc_" + kind, cons, FULL, 0, False)
        jobs.append(((mod, cfg), dict(name=PID + "/mc_" + kind, check=False, workers=2)))
        meta.append(("mc", kind, None, 0))
        mod, cfg = write_mc(wd, "mcx_" + kind, cons, FULL, 0, False, intersect_raises=False)
        jobs.append(((mod, cfg), dict(name=PID + "/mcx_" + kind, check=False, workers=2)))
        meta.append(("mc", kind + "(intersect works)", None, 0))
    # (2) generation runs
    gwd = os.path.join(tlc.BUILD, PID, "gen")
    for kind, cons in CONS.items():
        for name, (alph, lq, lt, needs_prior) in GEN_RUNS.items():
            L = lt if thorough else lq
            if not L:
                continue
            mod, cfg = write_mc(gwd, "%s_%s" % (name, kind), cons, alph, L, True)
            jobs.append(((mod, cfg), dict(name=PID + "/gen_%s_%s" % (name, kind), dump=True, check=False, workers=4, coverage=False, timeout=900)))
            meta.append(("gen", kind, name, L))
    pmod, pcfg, hcfg, rcfg = c17_priors.write_mc(os.path.join(tlc.BUILD, PID, "priors_mc"), thorough)
    jobs.append(((pmod, pcfg), dict(name=PID + "/priors", dump=True, check=False, workers=2, coverage=False)))
    meta.append(("priors", None, None, 0))
    jobs.append(((pmod, hcfg), dict(name=PID + "/priors_hist", dump=True, check=False, workers=2)))
    meta.append(("priors_hist", "as coded", None, 0))
    jobs.append(((pmod, rcfg), dict(name=PID + "/priors_hist_repaired", check=False, workers=2)))
    meta.append(("priors_hist", "other variant", None, 0))
    results = tlc.run_many(jobs, parallel=4)
    phases["tlc"] = round(time.time() - t0, 1)

    # (3) cells
    cells, report = discover(torch, gp)
    ck.extra["discovery"] = dict(classes=len(report["classes"]), cells=len(cells), not_instantiated=report["skipped"],
                                 parameters=sorted({"%s.%s" % (c["owner"], c["pub"]) for c in cells}))
    by_kind = {}
    for c in cells:
        by_kind.setdefault(c["kind"], []).append(c)
    for kind in CONS:
        if not by_kind.get(kind):
            ck.vacuous("no constrained parameter with an initial %s constraint was discovered" % kind)
    if len(report["classes"]) < 20:
        ck.vacuous("only %d classes with constrained parameters discovered" % len(report["classes"]))

    items = []
    taken = {}
    prior_points = prior_hists = None
    for (what, kind, name, L), res in zip(meta, results):
        ck.add_tlc(res, "%s %s %s" % (what, kind or "", name or ""))
        if what == "priors_hist" and kind == "other variant" and c17_priors.PRIOR_ALIAS_FIXED:
            # the pinned design (a conversion separates the buffers from base_dist) must violate HAgree
            if res.violation is None:
                ck.vacuous("ConstraintPriors.tla HSpec accepts the pinned design (alias lost by a dtype conversion)")
            continue
        if res.violation is not None:
            ck.model_drift("%s run %s/%s violates %s on the code-shaped model" % (what, kind, name, res.violation["name"]))
        elif res.rc != 0:
            raise tlc.TLCError("TLC failed on %s %s %s:\n%s" % (what, kind, name, res.stdout[-1500:]))
        if what == "mc":
            ck.require_coverage(res, ["Assign", "InitRaw", "OptStep", "Register", "LoadState", "AssignBound", "Convert", "Copy"])
            continue
        if what == "priors":
            prior_points = res.states()
            continue
        if what == "priors_hist":
            ck.require_coverage(res, ["HAssign", "HLoad", "HModLoad", "HCopy", "HConv"])
            if kind == "as coded":
                prior_hists = res.states()
            continue
        hists = read_histories(res.dump_path, L)
        if not hists:
            ck.vacuous("generation run %s/%s produced no history" % (kind, name))
            continue
        for h in hists:
            for s in h:
                taken[s[0]] = taken.get(s[0], 0) + 1
        pool = by_kind.get(kind, [])
        if GEN_RUNS[name][3]:
            pass  # prior steps register a prior through the public API where the class does not offer one
        ck.section("gen", runs=1, histories=len(hists))
        rnd.shuffle(hists)
        per = (2 if thorough else 1)
        # every history on `per` cells, rotating so that every cell receives histories of every run
        assign = {}
        for j, h in enumerate(hists):
            for q in range(per):
                ci = (j * per + q) % len(pool)
                assign.setdefault(ci, []).append(h)
        for ci, hs in assign.items():
            for k in range(0, len(hs), 40):
                items.append(dict(desc=pool[ci], hists=hs[k:k + 40], seed=ck.seed * 1000003 + len(items) * 97, sample=(k == 0 and ci == 0 and (kind, name) in (("GT", "vals"), ("GT", "register"), ("IV", "setopt"), ("IV", "prior"), ("IV", "bounds")))))
    for op, nm in OPS.items():
        if not taken.get(op):
            ck.vacuous("no generated history contains the action %s" % nm)
    phases["parse"] = round(time.time() - t0, 1)
    results_r = core.pmap(_replay_worker, items, chunksize=2)
    phases["replay"] = round(time.time() - t0, 1)
    stopped = sum(r.pop("stopped", 0) for r in results_r)
    forms = set()
    for r in results_r:
        forms.update(r.pop("notes", ()))
    ck.extra["setter_value_forms_refused"] = sorted(forms)      # python floats / 0-d tensors some setters do not take; retried as tensors
    ck.absorb(results_r)
    ck.section("replay", histories=len(results_r), steps=sum(r.get("n", 0) for r in results_r), open_branch_not_followed=stopped,
               cells_driven=len({(i["desc"]["cls"], i["desc"]["variant"], i["desc"]["path"]) for i in items}))
    driven = {"%s.%s" % (i["desc"]["owner"], i["desc"]["pub"]) for i in items}
    missing = sorted({"%s.%s" % (c["owner"], c["pub"]) for c in cells} - driven)
    if missing:
        ck.vacuous("constrained parameters never driven through a history: %s" % missing)

    # (4) transform contract on the float range, (5) priors
    c17_priors.run_transforms(ck, thorough)
    phases["transforms"] = round(time.time() - t0, 1)
    c17_priors.run_priors(ck, prior_points, thorough, cells)
    phases["priors"] = round(time.time() - t0, 1)
    c17_priors.run_prior_histories(ck, prior_hists, thorough)
    phases["prior_histories"] = round(time.time() - t0, 1)
    c17_priors.run_observations(ck)


def replay(rep):
    torch, gp = _env()
    case = rep["case"]
    if case.get("kind") != "history":
        from checks import c17_priors
        return c17_priors.replay(rep)
    trace = []
    hist = [tuple(s) for s in case["hist"]]
    try:
        run_history(torch, gp, case["desc"], hist, case["seed"], trace)
    except Stop:
        pass
    except Fail as f:
        print("\n".join(trace))
        print("VIOLATION property=C17 replay=- :: %s :: %s" % (f.clause, f.what))
        return 1
    print("\n".join(trace))
    print("replay passed: " + describe(hist))
    return 0
