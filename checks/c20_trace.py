"""C20, code -> spec: validate recorded executions against SettingsTrace.tla."""
import random

from harness import core, record, tracecheck

REPO_TESTS_QUICK = ["test/test_settings.py", "test/examples/test_simple_gp_regression.py", "test/examples/test_svgp_gp_regression.py",
                    "test/models/test_exact_gp.py"]
REPO_TESTS_THOROUGH = REPO_TESTS_QUICK + ["test/examples/test_sgpr_regression.py", "test/examples/test_kissgp_gp_regression.py",
                                          "test/examples/test_missing_data.py", "test/examples/test_model_list_gp_regression.py",
                                          "test/models/test_variational_gp.py", "test/kernels", "test/likelihoods", "test/variational"]


def split_classes(events, maxlen=4000):
    """One recorded pytest process is one long execution; the per-frame clauses only relate events of the same
    context object, so it is cut into consecutive chunks at points where no frame is open (keeps TLC states small)."""
    out, cur, open_objs = [], [], set()
    for e in events:
        cur.append(e)
        if e["ev"] == "s_enter":
            open_objs.add(e["obj"])
        elif e["ev"] == "s_exit":
            open_objs.discard(e["obj"])
        if len(cur) >= maxlen and not open_objs:
            out.append(cur)
            cur = []
    if cur:
        out.append(cur)
    return out


def validate(ck, real):
    thorough = ck.tier == "thorough"
    traces = list(ck.extra.pop("_replay_traces", []))
    # one TLC run validates all traces; keep it bounded (a deterministic stride over the replay traces, all repository-test chunks)
    cap = 60000
    if len(traces) > cap:
        stride = -(-len(traces) // cap)
        ck.extra["replay_traces_recorded"] = len(traces)
        traces = traces[::stride]
    n_replay = len(traces)
    events, summary = record.record_tests(REPO_TESTS_THOROUGH if thorough else REPO_TESTS_QUICK, "C20/rec")
    sev = [e for e in events if e["ev"].startswith("s_")]
    if len(sev) < 50:
        ck.vacuous("only %d settings events recorded from the repository's tests" % len(sev))
    classes = sorted(set(e["cls"] for e in sev))
    chunks = split_classes(sev)
    traces += chunks
    res, verdicts = tracecheck.validate("SettingsTrace", "SettingsTrace.cfg", traces, "C20/trace", workers=8, timeout=3600)
    ck.add_tlc(res, "SettingsTrace")
    ck.traces_validated += len(traces)
    nbad = skipped = 0
    for i, v in enumerate(verdicts):
        skipped += v["state"]["skipped"]
        for b in v["bad"]:
            nbad += 1
            src = "replay" if i < n_replay else "repo-tests"
            cls = b["cls"].split(".", 1)[1]
            ev = traces[i][b["l"] - 1]
            ck.violation("C20/%s/%s/%s" % (cls, b["clause"], ",".join(sorted(b.get("fields", [])))),
                         "recorded execution (%s): event %d %s of %s: before=%s after=%s req=%s" % (src, b["l"], ev["ev"], b["cls"], ev["before"], ev["after"], ev["req"]),
                         dict(trace=traces[i][max(0, b["l"] - 12):b["l"]], source=src))
    ck.section("trace", traces=len(traces), from_replays=n_replay, repo_test_events=len(sev), repo_test_classes=len(classes),
               failed_clauses=nbad, exits_not_judged=skipped, pytest=summary)
    ck.case(["trace", len(sev)], True, n=len(sev))
