"""C02 helpers: dense reference formulas (the definitions the property states, written with torch.linalg on dense
matrices) and the float64 replay of the cells of ExactObjective.tla part "lattice"."""
import math

from harness import core

H = 0.5 * math.log(2 * math.pi)


# ---------------------------------------------------------------------------------------------
# definitions
def _broadcast(torch, y, m, A):
    """y (*TB, N), m (*B, N), A (*B', N, N) with batch shapes that broadcast -> all three with the broadcast batch shape"""
    N = y.shape[-1]
    OB = torch.broadcast_shapes(y.shape[:-1], m.shape[:-1], A.shape[:-2])
    return y.expand(*OB, N), m.expand(*OB, N), A.expand(*OB, N, N)


def dense_logN(torch, y, m, A):
    """log N(y; m, A) per (broadcast) batch element: y (*TB, N), m (*B, N), A (*B, N, N)"""
    N = y.shape[-1]
    y, m, A = _broadcast(torch, y, m, A)
    L = torch.linalg.cholesky(A)
    z = torch.linalg.solve_triangular(L, (y - m).unsqueeze(-1), upper=False).squeeze(-1)
    return -0.5 * (z ** 2).sum(-1) - torch.log(torch.diagonal(L, dim1=-1, dim2=-2)).sum(-1) - N * H


def dense_loo_terms(torch, y, m, A):
    """log p(y_i | all other observations), i = 1..N, per batch element: the Gaussian conditional on the data set with
    point i deleted (N separate solves; nothing of the bordered-system shortcut)."""
    N = y.shape[-1]
    y, m, A = _broadcast(torch, y, m, A)
    out = []
    for i in range(N):
        o = torch.tensor([j for j in range(N) if j != i], dtype=torch.long)
        if N > 1:
            Aoo = A.index_select(-2, o).index_select(-1, o)
            k = A[..., i, :].index_select(-1, o)
            L = torch.linalg.cholesky(Aoo)
            rhs = torch.stack([(y - m).index_select(-1, o), k], -1)
            sol = torch.cholesky_solve(rhs, L)
            mu = m[..., i] + (k * sol[..., 0]).sum(-1)
            var = A[..., i, i] - (k * sol[..., 1]).sum(-1)
        else:
            mu, var = m[..., i], A[..., i, i]
        out.append(-0.5 * torch.log(var) - 0.5 * (y[..., i] - mu) ** 2 / var - H)
    return torch.stack(out, -1)


def log_density(torch, fam, p, x):
    """documented log densities of the prior families, elementwise"""
    a, b = p
    if fam == "gamma":      # concentration a, rate b
        return a * math.log(b) - math.lgamma(a) + (a - 1) * torch.log(x) - b * x
    if fam == "normal":     # mean a, standard deviation b
        return -0.5 * math.log(2 * math.pi * b * b) - (x - a) ** 2 / (2 * b * b)
    if fam == "lognormal":  # log x ~ N(a, b^2)
        return -torch.log(x) - 0.5 * math.log(2 * math.pi * b * b) - (torch.log(x) - a) ** 2 / (2 * b * b)
    raise core.Machinery("unknown prior family %r" % (fam,))


def per_batch_sum(t, B):
    """t: a term of a parameter with batch shape B -> one value per batch element of the parameter"""
    return t.reshape(*B, -1).sum(-1) if len(B) else t.sum()


def weights(torch, shape):
    """distinct weights of the batch elements of the objective: the compared gradient is that of sum_q w_q * objective_q, so a
    batch element with a wrong gradient is not hidden by another one"""
    nb = int(math.prod(shape))
    return (1.0 + 0.25 * torch.arange(nb, dtype=torch.float64)).reshape(tuple(shape))


# ---------------------------------------------------------------------------------------------
# models of the lattice cells
def _prior(gpytorch, fam, p):
    """prior with float64 tensor parameters (python floats would be held as float32 tensors: LogNormalPrior then evaluates
    log(scale) in single precision, which is the business of the prior classes, not of the objective)"""
    import torch
    P = gpytorch.priors
    t = lambda v: torch.tensor(v, dtype=torch.float64)
    return {"gamma": P.GammaPrior, "normal": P.NormalPrior, "lognormal": P.LogNormalPrior}[fam](t(p[0]), t(p[1]))


def _draw(fam, rnd):
    if fam == "gamma":
        return (round(rnd.uniform(1.5, 3.0), 3), round(rnd.uniform(1.0, 3.0), 3))
    if fam == "normal":
        return (round(rnd.uniform(0.5, 1.5), 3), round(rnd.uniform(0.3, 1.0), 3))
    return (round(rnd.uniform(-0.5, 0.5), 3), round(rnd.uniform(0.3, 1.0), 3))


def accessors(cell, model):
    """spec parameter name -> function returning the CONSTRAINED value of that parameter of THIS model object"""
    T = 2 if cell["lik"] in ("mt0", "mt1") else 1
    dk = model.covar_module.data_covar_module if T > 1 else model.covar_module
    parts = list(dk.kernels) if cell["kernel"] == "sum" else [dk]
    acc = {}
    for i, sk in enumerate(parts, 1):
        acc["lengthscale.%d" % i] = (lambda sk=sk: sk.base_kernel.lengthscale)
        acc["outputscale.%d" % i] = (lambda sk=sk: sk.outputscale)
    lik = model.likelihood
    if cell["lik"] != "fixed":
        acc["noise"] = lambda: lik.noise
    if cell["lik"] == "mt0":
        acc["task_noises"] = lambda: lik.task_noises
    return acc


def randomize(torch, model, g):
    D = torch.float64
    with torch.no_grad():
        for name, p in model.named_parameters():
            if "covar_factor" in name:
                p.copy_(0.5 * torch.randn(p.shape, generator=g, dtype=D))
            else:
                p.copy_(torch.rand(p.shape, generator=g, dtype=D) * 2 - 1)


def build_cell(torch, gpytorch, cell, seed):
    """real model of one lattice cell; returns dict(model, lik, x, y, acc) where acc maps the spec's parameter names to
    functions returning the CONSTRAINED value, and pp maps them to the prior parameters drawn for this instance.
    cell["reg"]: priors passed to the constructors ("ctor") or registered afterwards by parameter name ("name").
    cell["B"]: batch shape of every module (= of the marginal distribution); cell["tb"]: batch shape of the target;
    cell["xb"]: the inputs carry B too ("batched") or one set of inputs is shared by the batch of hyperparameter settings."""
    import random
    rnd = random.Random(seed)
    g = torch.Generator().manual_seed(seed)
    by_name = cell.get("reg", "ctor") == "name"
    later = []                       # (module, prior name, prior, parameter name) registered after construction
    D = torch.float64
    B = tuple(cell["B"])
    TB = tuple(cell.get("tb", B))
    XB = B if cell.get("xb", "batched") == "batched" else ()
    BS = torch.Size(B)
    lik_kind = cell["lik"]
    T = 2 if lik_kind in ("mt0", "mt1") else 1
    n = 4 + seed % 4
    d = 2
    fams = dict(lengthscale=cell["pri"][0], outputscale=cell["pri"][1], noise=cell["pri"][2])
    pp, acc = {}, {}

    def mk(site, name):
        fam = fams[site]
        if fam == "none":
            return None
        pr = _prior(gpytorch, fam, _draw(fam, rnd)).to(D)
        # the parameters the prior object really holds
        pp[name] = (fam, (float(pr.concentration), float(pr.rate)) if fam == "gamma" else (float(pr.loc), float(pr.scale)))
        return pr

    K = gpytorch.kernels

    def part(kind, i):
        name = str(i)
        lp = mk("lengthscale", "lengthscale." + name)
        if kind == "rbf":
            base = K.RBFKernel(ard_num_dims=d, batch_shape=BS, lengthscale_prior=None if by_name else lp)
        else:
            base = K.MaternKernel(nu=2.5 if i == 1 else 1.5, ard_num_dims=d, batch_shape=BS, lengthscale_prior=None if by_name else lp)
        op = mk("outputscale", "outputscale." + name)
        sk = K.ScaleKernel(base, batch_shape=BS, outputscale_prior=None if by_name else op)
        if by_name:
            later.extend([(base, "lengthscale_prior", lp, "lengthscale"), (sk, "outputscale_prior", op, "outputscale")])
        return sk

    if cell["kernel"] == "sum":
        data_kernel = part("rbf", 1) + part("matern", 2)
    else:
        data_kernel = part(cell["kernel"], 1)
    mean = gpytorch.means.ConstantMean(batch_shape=BS) if cell["mean"] == "const" else gpytorch.means.LinearMean(input_size=d, batch_shape=BS)
    x = torch.rand(*XB, n, d, generator=g, dtype=D) * 2 - 1
    yshape = (*TB, n, T) if T > 1 else (*TB, n)
    signal = torch.sin(2 * x.reshape(-1, n, d)[0].sum(-1, keepdim=T > 1))          # of the first set of inputs: broadcasts to every target shape
    y = signal.expand(yshape) + 0.3 * torch.randn(yshape, generator=g, dtype=D)
    fixed = None
    L = gpytorch.likelihoods
    if lik_kind == "homo":
        np_ = mk("noise", "noise")
        lik = L.GaussianLikelihood(noise_prior=None if by_name else np_, batch_shape=BS)
        later.append((lik.noise_covar, "noise_prior", np_, "noise"))
    elif lik_kind == "fixed":
        fixed = 0.1 + 0.3 * torch.rand(*B, n, generator=g, dtype=D)
        lik = L.FixedNoiseGaussianLikelihood(noise=fixed, learn_additional_noise=False)
    else:
        np_ = mk("noise", "noise")
        if np_ is not None and lik_kind == "mt0":
            pp["task_noises"] = pp["noise"]        # the constructor registers the same prior on both parameters
        lik = L.MultitaskGaussianLikelihood(num_tasks=T, rank=0 if lik_kind == "mt0" else 1, noise_prior=None if by_name else np_, batch_shape=BS)
        later.append((lik, "raw_noise_prior", np_, "noise"))
        if lik_kind == "mt0":
            later.append((lik, "raw_task_noises_prior", np_, "task_noises"))
    if by_name:
        for mod_, pname, pr, attr in later:
            if pr is not None:
                mod_.register_prior(pname, pr, attr)

    class Model(gpytorch.models.ExactGP):
        def __init__(s):
            super().__init__(x, y, lik)
            if T > 1:
                s.mean_module = gpytorch.means.MultitaskMean(mean, num_tasks=T)
                s.covar_module = K.MultitaskKernel(data_kernel, num_tasks=T, rank=1)   # task kernel shared by the batch (a batched IndexKernel cannot be used with batched inputs)
            else:
                s.mean_module = mean
                s.covar_module = data_kernel

        def forward(s, inp):
            m_, k_ = s.mean_module(inp), s.covar_module(inp)
            if T > 1:
                return gpytorch.distributions.MultitaskMultivariateNormal(m_, k_)
            return gpytorch.distributions.MultivariateNormal(m_, k_)

    model = Model().to(D)
    randomize(torch, model, g)
    model.train()
    lik.train()
    return dict(model=model, lik=lik, x=x, y=y, acc=accessors(cell, model), pp=pp, T=T, n=n, B=B, TB=TB, fixed=fixed, gen=g)


def build_with_history(torch, gpytorch, cell, seed):
    """the object whose objective is evaluated, after the history the cell names:
    fresh: built, hyperparameters set; copy_set: copy.deepcopy of such a model, then OTHER hyperparameters (the original keeps
    its own); load: a model built the same way that loads the state_dict of a model with other hyperparameters"""
    import copy
    hist = cell.get("hist", "fresh")
    b = build_cell(torch, gpytorch, cell, seed)
    if hist == "fresh":
        return b
    if hist == "copy_set":
        model = copy.deepcopy(b["model"])
        randomize(torch, model, b["gen"])
    elif hist == "load":
        src = b["model"]
        randomize(torch, src, b["gen"])
        b = build_cell(torch, gpytorch, cell, seed)          # same data, same priors, its own hyperparameters
        model = b["model"]
        model.load_state_dict(src.state_dict())
    else:
        raise core.Machinery("unknown history %r" % (hist,))
    model.train()
    b.update(model=model, lik=model.likelihood, acc=accessors(cell, model))
    return b


def noise_matrix(torch, b, cell):
    """S of the statement, built from the likelihood's constrained parameters as documented"""
    lik, n, T, B = b["lik"], b["n"], b["T"], b["B"]
    D = torch.float64
    kind = cell["lik"]
    if kind == "homo":
        return lik.noise.unsqueeze(-1) * torch.eye(n, dtype=D)
    if kind == "fixed":
        return torch.diag_embed(b["fixed"])
    if kind == "mt0":
        v = lik.task_noises + lik.noise                                  # (*B, T)
        return torch.diag_embed(v.unsqueeze(-2).expand(*B, n, T).reshape(*B, n * T))
    F = lik.task_noise_covar_factor                                      # (*B, T, r)
    Dt = F @ F.transpose(-1, -2) + lik.noise.unsqueeze(-1) * torch.eye(T, dtype=D)
    S = torch.einsum("ij,...tu->...itju", torch.eye(n, dtype=D), Dt)     # I_n (x) D_t, point-major (interleaved)
    return S.reshape(*B, n * T, n * T)


def reference(torch, b, cell, exp):
    """the dense definition for this cell: (main term + log prior densities of the spec's term list) / observations, one value
    per element of the broadcast of the distribution's and the target's batch shapes; the number of observations is that of
    ONE batch element (n x tasks)"""
    model, x, y, B, n, T = b["model"], b["x"], b["y"], b["B"], b["n"], b["T"]
    Kd = model.covar_module(x).to_dense()
    m = model.mean_module(x)
    A = Kd + noise_matrix(torch, b, cell)
    yy, mm = y.reshape(*b["TB"], n * T), m.reshape(*m.shape[:-2], n * T) if T > 1 else m
    if cell["obj"] == "mll":
        main = dense_logN(torch, yy, mm, A)
        div = n * exp["tasks"]
    else:
        main = dense_loo_terms(torch, yy, mm, A).sum(-1)
        div = n
    total = main
    for name, fam in exp["terms"]:
        if name not in b["acc"] or name not in b["pp"]:
            raise core.Machinery("spec term %s has no parameter / prior in the built model for cell %s" % (name, cell))
        if b["pp"][name][0] != fam:
            raise core.Machinery("spec term %s family %s but the model was built with %s" % (name, fam, b["pp"][name][0]))
        # the parameter has batch shape B: its term goes to the batch elements of the objective that read that batch element
        total = total + per_batch_sum(log_density(torch, fam, b["pp"][name][1], b["acc"][name]()), B)
    if tuple(total.shape) != tuple(exp["shape"]):
        raise core.Machinery("dense definition has shape %s, the spec's objective %s for cell %s" % (list(total.shape), exp["shape"], cell))
    return total / div, A


def run_cell(torch, gpytorch, case):
    cell, exp, seed = case["cell"], case["exp"], case["seed"]
    B = tuple(cell["B"])
    TB, xb = tuple(cell.get("tb", B)), cell.get("xb", "batched")
    OB, pattern = tuple(exp.get("shape", B)), exp.get("pattern", "equal")
    reg, hist = cell.get("reg", "ctor"), cell.get("hist", "fresh")
    desc = "%s kernel=%s mean=%s lik=%s batch=%s%s priors(ls,os,noise)=%s path=%s%s seed=%d" % (
        cell["obj"], cell["kernel"], cell["mean"], cell["lik"], list(B),
        "" if (TB, xb) == (B, "batched") else " target batch=%s (%s) inputs=%s" % (list(TB), pattern, xb), list(cell["pri"]), cell["path"],
        "" if (reg, hist) == ("ctor", "fresh") else " registered=%s history=%s" % (reg, hist), seed)
    base = "C02/dense/%s/%s/B%d" % (cell["obj"], cell["lik"], len(B)) + ("" if (reg, hist) == ("ctor", "fresh") else "/%s-%s" % (reg, hist)) \
        + ("" if pattern == "equal" else "/target-" + pattern) + ("" if xb == "batched" else "/shared-inputs")
    # LeaveOneOutPseudoLikelihood reshapes the mean to the target's shape (ExactObjective.tla LooShapeOK; repair "loo_broadcast")
    loo_shape = cell["obj"] == "loo" and not exp.get("looAligned", True)
    key = [cell[k] for k in ("obj", "kernel", "mean", "lik", "B", "pri", "path")] + [reg, hist, list(TB), xb]
    res = dict(key=key, ok=True, nontrivial=True, sample=dict(cell=desc))

    def fail(sym, detail):
        sig = "C02/loo-mean-reshaped-to-target/dense/%s/%s" % (pattern, sym) if loo_shape and sym in ("raises", "value", "grad") else base + "/" + sym
        res.update(ok=False, sig=sig, detail=desc + ": " + detail, case=case)
        return res

    ok, b = core.guarded(build_with_history, torch, gpytorch, cell, seed)
    if not ok:
        if "Machinery" in str(b):
            raise core.Machinery(str(b))
        return fail("raises", "building the model / its history raised %s" % b)
    if sorted(n for n, _ in exp["terms"]) != sorted(b["pp"]):
        raise core.Machinery("priors built %s differ from the spec's term list %s" % (sorted(b["pp"]), exp["terms"]))
    model, lik, x, y = b["model"], b["lik"], b["x"], b["y"]
    named = list(model.named_parameters())
    params = [p for _, p in named]
    ref, A = reference(torch, b, cell, exp)
    ev = torch.linalg.eigvalsh(A.detach())
    if float(ev.min()) <= 0 or float((ev.max(-1).values / ev.min(-1).values).max()) > 1e4:
        raise core.Machinery("generated instance is not well conditioned: %s" % desc)
    w = weights(torch, OB)
    gref = torch.autograd.grad((w * ref).sum(), params, allow_unused=True)
    cls = gpytorch.mlls.ExactMarginalLogLikelihood if cell["obj"] == "mll" else gpytorch.mlls.LeaveOneOutPseudoLikelihood
    obj = cls(lik, model)

    def code():
        if cell["path"] == "chol_setting":
            with gpytorch.settings.fast_computations(log_prob=False):
                v = obj(model(x), y)
                return v, torch.autograd.grad((w * v).sum() if tuple(v.shape) == OB else v.sum(), params, allow_unused=True)
        v = obj(model(x), y)
        return v, torch.autograd.grad((w * v).sum() if tuple(v.shape) == OB else v.sum(), params, allow_unused=True)

    ok, r = core.guarded(code)
    if not ok:
        return fail("raises", "objective raised %s" % r)
    val, gcode = r
    if tuple(val.shape) != OB:
        return fail("shape", "objective has shape %s, the batch shapes of the distribution %s and of the target %s broadcast to %s" % (
            list(val.shape), list(B), list(TB), list(OB)))
    g, why = core.close(val.detach(), ref.detach(), 1e-7, 1e-9)
    if not g:
        return fail("value", "objective %s differs from the dense definition [log N + log priors] / %d observations = %s: %s" % (
            val.detach().tolist(), b["n"] * (exp["tasks"] if cell["obj"] == "mll" else 1), ref.detach().tolist(), why))
    for (name, p), gc, gr in zip(named, gcode, gref):
        gc = torch.zeros_like(p) if gc is None else gc
        gr = torch.zeros_like(p) if gr is None else gr
        g, why = core.close(gc, gr, 1e-6, 1e-9)
        if not g:
            return fail("grad", "gradient (of the weighted sum over the batch elements) w.r.t. %s differs from autograd of the dense definition: %s" % (name, why))
    res["n"] = 1 + len(named)
    res["sample"]["value"] = val.detach().reshape(-1).tolist()
    res["sample"]["raw_hyperparameters_compared"] = [nm for nm, _ in named]
    return res


# ---------------------------------------------------------------------------------------------
# part "zoo" of ExactObjective.tla: noise structure x forwarded arguments, and every library class with *_prior arguments
def _chain(obj, dotted):
    for a in dotted.split("."):
        obj = getattr(obj, a)
    return obj


def zoo_value(torch, rank, shape, name):
    """pairwise distinct constrained values: element e (row-major over batch and own dimensions, e <= 11) of the parameter of
    rank r gets 0.3 + 0.17 r + 0.0137 e; ArcKernel.angle lives in (0.1, 0.9)"""
    nel = int(math.prod(shape))
    if nel > 12:
        raise core.Machinery("parameter %s has %d elements: the value grids of two ranks would meet" % (name, nel))
    v = (0.3 + 0.17 * rank + 0.0137 * torch.arange(nel, dtype=torch.float64)).reshape(tuple(shape))
    if name.endswith(".angle"):
        v = 0.1 + 0.8 * v / 3.0
    return v


def _zoo_kernel(torch, gpytorch, kind, BS, pri):
    """the library class with every *_prior constructor argument given; pri: public property name -> prior object"""
    K = gpytorch.kernels
    d = 2
    kw = {name + "_prior": pr for name, pr in pri.items() if "." not in name}
    if kind == "rbf":
        return K.RBFKernel(ard_num_dims=d, batch_shape=BS, **kw)
    if kind == "matern":
        return K.MaternKernel(nu=1.5, ard_num_dims=d, batch_shape=BS, **kw)
    if kind == "rq":
        return K.RQKernel(ard_num_dims=d, batch_shape=BS, **kw)
    if kind == "pp":
        return K.PiecewisePolynomialKernel(q=2, ard_num_dims=d, batch_shape=BS, **kw)
    if kind == "periodic":
        return K.PeriodicKernel(ard_num_dims=d, batch_shape=BS, **kw)
    if kind == "cosine":
        return K.CosineKernel(batch_shape=BS, active_dims=(0,), **kw)       # cos(pi |r| / p) is positive definite on the line only
    if kind == "linear":
        return K.LinearKernel(ard_num_dims=d, batch_shape=BS, **kw)
    if kind == "poly":
        return K.PolynomialKernel(power=2, batch_shape=BS, **kw)
    if kind == "constk":
        return K.ConstantKernel(batch_shape=BS, **kw)
    if kind == "cyl":
        inner = K.RBFKernel(batch_shape=BS, lengthscale_prior=pri.get("radial_base_kernel.lengthscale"))
        return K.CylindricalKernel(num_angular_weights=3, radial_base_kernel=inner, batch_shape=BS, **kw)
    if kind == "arc":
        return K.ArcKernel(K.MaternKernel(nu=2.5, batch_shape=BS), ard_num_dims=d, batch_shape=BS, **kw)
    raise core.Machinery("unknown zoo class %r" % (kind,))


class ZooPriorsNotRegistered(Exception):
    pass


def build_zoo(torch, gpytorch, cell, exp, seed):
    import random
    rnd = random.Random(seed)
    g = torch.Generator().manual_seed(seed)
    D = torch.float64
    B = tuple(cell["B"])
    BS = torch.Size(B)
    n, d = cell["n"], 2
    KPRE = "covar_module.base_kernel."
    # priors with their own (pairwise different) parameters, by public name
    pp, pri = {}, {}
    for name, fam, _rank in exp["terms"]:
        pr = _prior(gpytorch, fam, _draw(fam, rnd)).to(D)
        pp[name] = (fam, (float(pr.concentration), float(pr.rate)) if fam == "gamma" else (float(pr.loc), float(pr.scale)))
        pri[name] = pr
    kpri = {nm[len(KPRE):]: pr for nm, pr in pri.items() if nm.startswith(KPRE)}
    base = _zoo_kernel(torch, gpytorch, cell["kernel"], BS, kpri)
    covar = gpytorch.kernels.ScaleKernel(base, batch_shape=BS, outputscale_prior=pri.get("covar_module.outputscale"))
    mean = gpytorch.means.ConstantMean(batch_shape=BS, constant_prior=pri.get("mean_module.constant"))
    x = (torch.rand(*B, n, d, generator=g, dtype=D) * 2 - 1) * 0.7            # inside the unit ball (CylindricalKernel)
    y = torch.sin(2 * x.sum(-1)) + 0.8 + 0.3 * torch.randn(*B, n, generator=g, dtype=D)
    stored = 0.15 + 0.3 * torch.rand(*B, n, generator=g, dtype=D)
    call = 0.55 + 0.4 * torch.rand(*B, n, generator=g, dtype=D)                # differs from the stored noise in every entry
    L = gpytorch.likelihoods
    if cell["lik"] == "homo":
        lik = L.GaussianLikelihood(batch_shape=BS, noise_prior=pri.get("likelihood.noise"))
    elif cell["lik"] == "fixed":
        lik = L.FixedNoiseGaussianLikelihood(noise=stored, learn_additional_noise=False)
    else:
        lik = L.FixedNoiseGaussianLikelihood(noise=stored, learn_additional_noise=True, batch_shape=BS, noise_prior=pri.get("likelihood.second_noise"))

    class Model(gpytorch.models.ExactGP):
        def __init__(s):
            super().__init__(x, y, lik)
            s.mean_module = mean
            s.covar_module = covar

        def forward(s, inp):
            return gpytorch.distributions.MultivariateNormal(s.mean_module(inp), s.covar_module(inp))

    model = Model().to(D)
    got_priors = sorted(nm for nm, *_ in model.named_priors())
    if len(got_priors) != len(exp["terms"]):
        raise ZooPriorsNotRegistered("every *_prior constructor argument was given (%s), named_priors() of the model lists %s" % ([t[0] for t in exp["terms"]], got_priors))
    # every parameter at a value of its own, through the public setters, read back through the public properties
    for name, rank in exp["params"]:
        owner, attr = name.rsplit(".", 1)
        mod = _chain(model, owner)
        want = zoo_value(torch, rank, tuple(getattr(mod, attr).shape), name)
        setattr(mod, attr, want)
        got = getattr(mod, attr)
        if tuple(got.shape) != tuple(want.shape) or float((got.detach() - want).abs().max()) > 1e-9:
            raise core.Machinery("could not set %s to %s (reads back %s)" % (name, want.tolist(), got.tolist()))
    allv = torch.cat([_chain(model, nm).detach().reshape(-1) for nm, _ in exp["params"]])
    if len(torch.unique((allv * 1e6).round())) != allv.numel():
        raise core.Machinery("parameter values are not pairwise distinct: %s" % sorted(allv.tolist()))
    model.train()
    lik.train()
    return dict(model=model, lik=lik, x=x, y=y, pp=pp, stored=stored, call=call, n=n, B=B)


NOISE_WORDS = dict(call="the noise given at the call", stored="the noise the likelihood was built with", learned="the learned homoskedastic noise",
                   second="the learned additional noise")


def zoo_reference(torch, b, cell, exp):
    """[log N(y; m, K + S) + closed-form log prior densities at the PUBLIC parameter properties] / n, S summed from the components
    the specification lists"""
    model, lik, x, y, n, B = b["model"], b["lik"], b["x"], b["y"], b["n"], b["B"]
    D = torch.float64
    eye = torch.eye(n, dtype=D)
    comp = dict(call=lambda: torch.diag_embed(b["call"]), stored=lambda: torch.diag_embed(b["stored"]),
                learned=lambda: lik.noise.unsqueeze(-1) * eye, second=lambda: lik.second_noise.unsqueeze(-1) * eye)
    A = model.covar_module(x).to_dense()
    for k, cnt in exp["noise"].items():
        for _ in range(int(cnt)):
            A = A + comp[k]()
    m = model.mean_module(x)
    main = dense_logN(torch, y, m, A) if cell["obj"] == "mll" else dense_loo_terms(torch, y, m, A).sum(-1)
    total = main
    for name, fam, _rank in exp["terms"]:
        if b["pp"][name][0] != fam:
            raise core.Machinery("spec term %s family %s but the model was built with %s" % (name, fam, b["pp"][name][0]))
        total = total + per_batch_sum(log_density(torch, fam, b["pp"][name][1], _chain(model, name)), B)
    if tuple(total.shape) != tuple(exp["shape"]):
        raise core.Machinery("dense definition has shape %s, the spec's objective %s for cell %s" % (list(total.shape), exp["shape"], cell))
    return total / exp["div"], A


def run_zoo(torch, gpytorch, case):
    cell, exp, seed = case["cell"], case["exp"], case["seed"]
    B = tuple(cell["B"])
    S = " + ".join(NOISE_WORDS[k] for k, c in exp["noise"].items() for _ in range(int(c)))
    call = "%s(output, target%s%s)" % (cell["obj"], ", train_inputs" if cell["args"] == "inputs" else "", ", noise=v" if cell["kw"] == "noise" else "")
    desc = "%s kernel=ScaleKernel(%s) likelihood=%s batch=%s N=%d priors=%s seed=%d" % (
        call, cell["kernel"], cell["lik"], list(B), cell["n"], {nm: fam for nm, fam, _ in exp["terms"]}, seed)
    plain_cell = (cell["lik"], cell["kw"], cell["args"]) == ("homo", "none", "none")
    base = "C02/zoo/%s/%s" % (cell["obj"], ("class-" + cell["kernel"]) if plain_cell else "%s/kw-%s/args-%s" % (cell["lik"], cell["kw"], cell["args"]))
    key = ["zoo"] + [cell[k] for k in ("obj", "kernel", "lik", "kw", "args", "B", "n", "rot")]
    res = dict(key=key, ok=True, nontrivial=True, sample=dict(cell=desc, S=S))

    def fail(sym, detail):
        res.update(ok=False, sig=base + "/" + sym, detail=desc + ": " + detail, case=case)
        return res

    ok, b = core.guarded(build_zoo, torch, gpytorch, cell, exp, seed)
    if not ok:
        if "Machinery" in str(b):
            raise core.Machinery(str(b))
        if "ZooPriorsNotRegistered" in str(b):
            return fail("prior-argument-not-registered", str(b))
        return fail("raises", "building the model raised %s" % b)
    model, lik, x, y = b["model"], b["lik"], b["x"], b["y"]
    named = [(nm, p) for nm, p in model.named_parameters() if p.requires_grad]
    params = [p for _, p in named]
    ref, A = zoo_reference(torch, b, cell, exp)
    ev = torch.linalg.eigvalsh(A.detach())
    if float(ev.min()) <= 0 or float((ev.max(-1).values / ev.min(-1).values).max()) > 1e4:
        raise core.Machinery("generated instance is not well conditioned: %s" % desc)
    w = weights(torch, B)
    gref = torch.autograd.grad((w * ref).sum(), params, allow_unused=True)
    cls = gpytorch.mlls.ExactMarginalLogLikelihood if cell["obj"] == "mll" else gpytorch.mlls.LeaveOneOutPseudoLikelihood
    obj = cls(lik, model)
    args = (x,) if cell["args"] == "inputs" else ()
    kwargs = dict(noise=b["call"]) if cell["kw"] == "noise" else {}

    def code():
        v = obj(model(x), y, *args, **kwargs)
        return v, torch.autograd.grad((w * v).sum() if tuple(v.shape) == B else v.sum(), params, allow_unused=True)

    ok, r = core.guarded(code)
    if not ok:
        return fail("raises", "objective raised %s" % r)
    val, gcode = r
    if tuple(val.shape) != B:
        return fail("shape", "objective has shape %s, batch shape %s" % (list(val.shape), list(B)))
    g, why = core.close(val.detach(), ref.detach(), 1e-7, 1e-9)
    if not g:
        return fail("value", "objective %s differs from the dense definition [log N(y; m, K + S) + log priors at the public parameter properties] / %d "
                    "with S = %s: %s (%s)" % (val.detach().tolist(), exp["div"], S, ref.detach().tolist(), why))
    for (name, p), gc, gr in zip(named, gcode, gref):
        gc = torch.zeros_like(p) if gc is None else gc
        gr = torch.zeros_like(p) if gr is None else gr
        g, why = core.close(gc, gr, 1e-6, 1e-9)
        if not g:
            return fail("grad", "gradient (of the weighted sum over the batch elements) w.r.t. %s differs from autograd of the dense definition "
                        "(S = %s): %s" % (name, S, why))
    res["n"] = 1 + len(named)
    res["sample"]["value"] = val.detach().reshape(-1).tolist()
    return res
