"""C06 helpers: replay of KernelPure.tla - "deriving an object from a kernel is pure" (history: evaluate -> derive ->
evaluate the ORIGINAL again) and the diag layout of the derivative kernels, decoded through pairwise distinct parameters.

TLC enumerates, per kernel structure (plain, Scale, Additive, Product, nested compositions, with and without an unbatched
member) and parameter batch shape, every derivation (kernel[idx], expand_batch, K[batch idx(, rows, cols)], K[..., r, c],
K.mT, repeat, unsqueeze, diagonal, evaluate_kernel) and checks Pure / DerivedAgree on the heap model of the code; the
states of the mutant models (a shallow copy at one copy site, a point-major flatten) certify that the enumerated
histories tell the difference.  The replay runs every history on
  * the label composition: the real ScaleKernel / AdditiveKernel / ProductKernel classes over label stub leaves whose
    raw parameters ARE the labels of the spec - the parameters of the derived kernel and of the original object are read
    back and compared EXACTLY with TLC's record (dexp / orig), and
  * a composition of real kernels (seeded, pairwise distinct hyperparameters), 1e-10 against the evaluation made
    BEFORE the derivation: K.to_dense() of the lazy tensor created before the derivation, kernel(x1, x2) eager,
    kernel(x1, diag=True), K2[0] of a new lazy tensor, and the parameter / buffer fingerprint of the kernel object."""
import os

from harness import core, tlc, tlaval

PID = "C06"
TOL = 1e-10
NONE = 99

STRUCTS_QUICK = ["leaf", "scale(leaf)", "add(leaf,leaf)", "prod(leaf,leaf)", "add(leaf,leaf0)", "scale(add(leaf,prod(leaf,leaf)))",
                 "add(scale(leaf),prod(leaf,leaf0))"]
STRUCTS_ALL = STRUCTS_QUICK + ["prod(leaf0,leaf)", "scale(add(leaf,leaf))", "prod(add(leaf,leaf),scale(leaf))", "add(add(leaf,leaf),leaf)"]
SITES = ["kernel.getitem", "kernel.expand", "add.getitem", "add.expand", "prod.getitem", "prod.expand", "lay.flatten"]
TREES = {
    "leaf": "L", "scale(leaf)": ("S", "L"), "add(leaf,leaf)": ("A", "L", "L"), "prod(leaf,leaf)": ("P", "L", "L"), "add(leaf,leaf0)": ("A", "L", "0"),
    "prod(leaf0,leaf)": ("P", "0", "L"), "scale(add(leaf,leaf))": ("S", ("A", "L", "L")), "scale(add(leaf,prod(leaf,leaf)))": ("S", ("A", "L", ("P", "L", "L"))),
    "add(scale(leaf),prod(leaf,leaf0))": ("A", ("S", "L"), ("P", "L", "0")), "prod(add(leaf,leaf),scale(leaf))": ("P", ("A", "L", "L"), ("S", "L")),
    "add(add(leaf,leaf),leaf)": ("A", ("A", "L", "L"), "L"),
}


def tla(v):
    if isinstance(v, (tuple, list)):
        return "<<" + ", ".join(tla(x) for x in v) + ">>"
    if isinstance(v, (set, frozenset)):
        return "{" + ", ".join(sorted(tla(x) for x in v)) + "}"
    if isinstance(v, str):
        return '"%s"' % v
    return str(v)


def plan(thorough):
    R = [dict(name="pure", structs=STRUCTS_ALL if thorough else STRUCTS_QUICK, pbs=[(2,), (2, 1)], muts=["code"] + SITES, steps=1,
              lay=[(n, d, g) for n in (1, 2, 3) for d in (1, 2, 3) for g in (1, 2)])]
    if thorough:  # two derivations from the same original (K[1] then K[0], kernel[idx] then expand_batch, ...)
        R.append(dict(name="pure2", structs=["add(leaf,leaf)", "scale(add(leaf,prod(leaf,leaf)))"], pbs=[(2,)], muts=["code"], steps=2, lay=[]))
    return R


def write_mc(wd, r):
    os.makedirs(wd, exist_ok=True)
    mod = "MC_KP_" + r["name"]
    with open(os.path.join(wd, mod + ".tla"), "w") as f:
        f.write("---- MODULE %s ----\nEXTENDS KernelPure\nStructsDef == %s\nPBsDef == %s\nMutsDef == %s\nLayDef == %s\n====\n" % (
            mod, tla(set(r["structs"])), "{" + ", ".join(tla(p) for p in r["pbs"]) + "}", tla(set(r["muts"])), "{" + ", ".join(tla(c) for c in r["lay"]) + "}"))
    cfg = os.path.join(wd, mod + ".cfg")
    tlc.write_cfg(cfg, spec="Spec", constants={"Structs": "<- StructsDef", "PBs": "<- PBsDef", "Muts": "<- MutsDef", "MaxDerive": r["steps"], "Lay": "<- LayDef"},
                  invariants=["Pure", "DerivedAgree", "LayoutOK", "ParamsDistinct"])
    return os.path.join(wd, mod + ".tla"), cfg


def jobs(thorough):
    wd = os.path.join(tlc.BUILD, PID, "mc", "pure")
    P = plan(thorough)
    return P, [(write_mc(wd, r), dict(name=PID + "/kp_" + r["name"], timeout=1500, dump=True, check=False, workers=4, coverage=False, heap="2g",
                                      java_opts=("-XX:ParallelGCThreads=2", "-XX:CICompilerCount=2"))) for r in P]


# ------------------------------------------------------------------------------------------------------------------
def to_py(v):
    if isinstance(v, dict):
        return {k: to_py(x) for k, x in v.items()}
    if isinstance(v, (tuple, list)):
        return [to_py(x) for x in v]
    if isinstance(v, tlaval.Sym):
        return str(v)
    return v


def py_index(torch, idx):
    out = []
    for it in idx:
        k = it["k"]
        if k == "int":
            out.append(int(it["v"]))
        elif k == "slice":
            out.append(slice(*[None if x == NONE else int(x) for x in (it["a"], it["b"], it["s"])]))
        else:
            out.append(torch.tensor([int(x) for x in it["v"]], dtype=torch.long))
    return tuple(out)


def show_index(idx):
    parts = []
    for it in idx:
        if it["k"] == "int":
            parts.append(str(it["v"]))
        elif it["k"] == "slice":
            a, b, s = ["" if x == NONE else str(x) for x in (it["a"], it["b"], it["s"])]
            parts.append("%s:%s" % (a, b) + (":" + s if s else ""))
        else:
            parts.append("tensor(%s)" % list(it["v"]))
    return "[" + ", ".join(parts) + "]"


def show_op(h):
    op = h["op"]
    if op == "kgetitem":
        return "kernel" + show_index(h["idx"])
    if op == "kexpand":
        return "kernel.expand_batch(%s)" % list(h["arg"])
    if op == "lgetitem":
        return "K" + show_index(h["idx"])[:-1] + (", 0:2, 1:]" if h["arg"] == [1] else "]")
    return dict(lrows="K[..., 0:1, :]", transpose="K.mT", repeat="K.repeat(.., 2, 1)", unsqueeze="K.unsqueeze(0)", diagonal="K.diagonal()", evaluate="K.evaluate_kernel()")[op]


# ------------------------------------------------------------------------------------------------------------------
# real objects of a structure
N1, N2, DX = 3, 2, 3


def fingerprint(torch, k, clone=True):
    """Everything an evaluation of the kernel object can depend on that is visible from outside: structure, batch shapes,
    parameters and buffers (shape and values)."""
    mods = [(n, type(m).__name__, tuple(getattr(m, "_batch_shape", ())) if hasattr(m, "_batch_shape") else None) for n, m in k.named_modules()]
    ten = [(n, tuple(p.shape), p.detach().clone() if clone else p.detach()) for n, p in list(k.named_parameters()) + list(k.named_buffers())]
    okb, bs = core.guarded(lambda: tuple(k.batch_shape))
    return mods, ten, bs if okb else "raises " + str(bs)


def fp_diff(torch, a, b):
    """None when the two fingerprints agree, else a description of the first difference"""
    if a[2] != b[2]:
        return "batch_shape was %s, is now %s" % (a[2], b[2])
    if [m[:2] for m in a[0]] != [m[:2] for m in b[0]]:
        return "the module tree changed: %s -> %s" % ([m[0] for m in a[0]][:8], [m[0] for m in b[0]][:8])
    for x, y in zip(a[0], b[0]):
        if x[2] != y[2]:
            return "_batch_shape of %r was %s, is now %s" % (x[0] or "the kernel", x[2], y[2])
    if [t[0] for t in a[1]] != [t[0] for t in b[1]]:
        return "the parameters / buffers changed: %s -> %s" % ([t[0] for t in a[1]][:8], [t[0] for t in b[1]][:8])
    for x, y in zip(a[1], b[1]):
        if x[1] != y[1]:
            return "%s had shape %s, has now %s" % (x[0], list(x[1]), list(y[1]))
        if not torch.equal(x[2], y[2]):
            return "the values of %s changed" % x[0]
    return None


def build_struct(torch, struct, pb, variant, labels, seed):
    """-> (kernel, [parameter-bearing modules in the pre-order of KernelPure!Flat]).  variant 'stub': label leaves whose raw
    parameters are `labels` (the Flat record of the spec); 'real': real kernel classes, seeded distinct hyperparameters."""
    import gpytorch.kernels as gk
    from checks import c06_kernels as kz
    PB = torch.Size(pb)
    order, count = [], [0]
    real_leaf = [lambda bs: gk.RBFKernel(batch_shape=bs), lambda bs: gk.MaternKernel(nu=2.5, ard_num_dims=DX, batch_shape=bs),
                 lambda bs: gk.PeriodicKernel(batch_shape=bs), lambda bs: gk.LinearKernel(batch_shape=bs), lambda bs: gk.RQKernel(batch_shape=bs)]

    def mk(t):
        if t in ("L", "0"):
            bs = PB if t == "L" else torch.Size([])
            if variant == "stub":
                k = kz.LabelKernel(t=1, tails=((1, 1),), batch_shape=bs)
            else:
                k = real_leaf[count[0] % len(real_leaf)](bs)
                count[0] += 1
            order.append(k)
            return k
        if t[0] == "S":
            slot = len(order)
            order.append(None)
            base = mk(t[1])
            k = gk.ScaleKernel(base, batch_shape=PB)
            order[slot] = k
            return k
        a, b = mk(t[1]), mk(t[2])
        return gk.AdditiveKernel(a, b) if t[0] == "A" else gk.ProductKernel(a, b)
    k = mk(TREES[struct]).double()
    if variant == "stub":
        if len(labels) != len(order):
            raise core.Machinery("KernelPure.tla records %d parameters for %s, the composition has %d" % (len(labels), struct, len(order)))
        for m, (c, shape, data) in zip(order, labels):
            p = m.raw_outputscale if isinstance(m, gk.ScaleKernel) else m.raw_p0
            if list(p.shape) != list(shape):
                raise core.Machinery("parameter shape of the %s stub is %s, KernelPure.tla has %s" % (c, list(p.shape), list(shape)))
            p.data = torch.tensor([float(x) for x in data], dtype=torch.float64).reshape(tuple(shape))
    else:
        kz.randomise(k, torch.Generator().manual_seed(seed))
        kz.assert_distinct(k)
    return k, order


def read_flat(torch, order):
    import gpytorch.kernels as gk
    out = []
    for m in order:
        p = m.raw_outputscale if isinstance(m, gk.ScaleKernel) else m.raw_p0
        out.append((list(p.shape), [float(x) for x in p.detach().reshape(-1)]))
    return out


def derived_order(torch, struct, k2):
    """parameter-bearing modules of a derived kernel of the same structure, pre-order (None when the structure is not kept)"""
    import gpytorch.kernels as gk
    order = []

    def walk(t, m):
        if t in ("L", "0"):
            order.append(m)
            return not isinstance(m, (gk.ScaleKernel, gk.AdditiveKernel, gk.ProductKernel))
        if t[0] == "S":
            if not isinstance(m, gk.ScaleKernel):
                return False
            order.append(m)
            return walk(t[1], m.base_kernel)
        cls = gk.AdditiveKernel if t[0] == "A" else gk.ProductKernel
        if not isinstance(m, cls) or len(m.kernels) != 2:
            return False
        return walk(t[1], m.kernels[0]) and walk(t[2], m.kernels[1])
    return order if walk(TREES[struct], k2) else None


def dense_of(r):
    return r.to_dense() if hasattr(r, "to_dense") else r


def replay_pure(torch, struct, pb, hist, variant, seed):
    """-> one result dict"""
    import gpytorch
    from checks import c06_kernels as kz
    from gpytorch.lazy import LazyEvaluatedKernelTensor
    pb = tuple(pb)
    desc = "%s %s param-batch=%s x1:%s x2:%s: " % ("label composition" if variant == "stub" else "real composition", struct, list(pb), list(pb) + [N1, DX], list(pb) + [N2, DX]) + \
        " then ".join(show_op(h) for h in hist)
    key = ["pure", struct, list(pb), [[h["op"], h["idx"], list(h["arg"])] for h in hist], variant]
    last = hist[-1]
    sig = "C06/pure/%s/%s" % (last["op"], struct)
    res = dict(key=key, ok=True, nontrivial=True)
    case = dict(kind="pure", struct=struct, pb=list(pb), hist=hist, variant=variant, seed=seed)
    sd = kz.seed_of("pure", struct, pb, seed)
    k, order = build_struct(torch, struct, pb, variant, hist[-1]["orig"], sd)
    g = torch.Generator().manual_seed(sd + 1)
    if variant == "stub":
        x1, x2 = kz.label_inputs(pb, N1), kz.label_inputs(pb, N2)
    else:
        x1 = torch.rand(*pb, N1, DX, generator=g, dtype=torch.float64) * 2 - 1
        x2 = torch.rand(*pb, N2, DX, generator=g, dtype=torch.float64) * 2 - 1
    # ---- evaluate
    fp0 = fingerprint(torch, k)
    with gpytorch.settings.lazily_evaluate_kernels(False):
        E = dense_of(k(x1, x2))
        Exx = dense_of(k(x1, x1))
        dg0 = dense_of(k(x1, x1, diag=True))
    flat0 = read_flat(torch, order) if variant == "stub" else None

    def fail(what, sg=None):
        res.update(ok=False, sig=sg or sig, detail=desc + ": " + what, case=case)
        return res

    for h in hist:
        op, arg = h["op"], [int(a) for a in h["arg"]]
        idx = py_index(torch, h["idx"])
        sel = idx + (slice(None),) * (len(pb) - len(idx))
        # ---- derive (the lazy tensor is created BEFORE the derivation and not evaluated yet)
        with gpytorch.settings.lazily_evaluate_kernels(True):
            K = k(x1, x2)
            Kxx = k(x1, x1)
        with gpytorch.settings.lazily_evaluate_kernels(True):
            if op == "kgetitem":
                ok, d = core.guarded(lambda: k[idx if len(idx) != 1 else idx[0]])
                want = E[sel]
                val = (lambda: dense_of(d(x1[sel], x2[sel])))
            elif op == "kexpand":
                ok, d = core.guarded(lambda: k.expand_batch(torch.Size(arg)))
                want = E.expand(*arg, *E.shape[-2:])
                val = (lambda: dense_of(d(x1, x2)))
            elif op == "lgetitem":
                full = idx + ((slice(0, 2), slice(1, None)) if arg == [1] else ())
                ok, d = core.guarded(lambda: K[full])
                want = E[full]
                val = (lambda: dense_of(d))
            elif op == "lrows":
                ok, d = core.guarded(lambda: K[..., 0:1, :])
                want, val = E[..., 0:1, :], (lambda: dense_of(d))
            elif op == "transpose":
                ok, d = core.guarded(lambda: K.mT)
                # (the label stub is not a symmetric function of its arguments: the value of its transpose is LazyKernel.tla's business)
                want, val = (E.mT if variant == "real" else None), (lambda: dense_of(d))
            elif op == "repeat":
                reps = [1] * len(pb) + [2, 1]
                ok, d = core.guarded(lambda: K.repeat(*reps))
                want, val = E.repeat(*reps), (lambda: dense_of(d))
            elif op == "unsqueeze":
                ok, d = core.guarded(lambda: K.unsqueeze(0))
                want, val = None, None  # (the value of K.unsqueeze with a parameter batch is LazyKernel.tla's class 'param-batch')
            elif op == "diagonal":
                ok, d = core.guarded(lambda: Kxx.diagonal())
                want, val = Exx.diagonal(dim1=-1, dim2=-2), (lambda: d)
            elif op == "evaluate":
                ok, d = core.guarded(lambda: K.evaluate_kernel())
                want, val = E, (lambda: dense_of(d))
            else:
                raise core.Machinery("unknown operation %r" % op)
            if want is not None:
                if not ok:
                    return fail("the derivation raised %s" % d, "C06/pure-derived/%s/%s" % (op, struct))
                okv, got = core.guarded(val)
                if not okv:
                    return fail("the derived object cannot be evaluated: %s" % got, "C06/pure-derived/%s/%s" % (op, struct))
                okc, msg = (tuple(got.shape) == tuple(want.shape)), "shape %s, expected %s" % (list(got.shape), list(want.shape))
                if okc and want.numel():
                    okc, msg = core.close(got, want, TOL, TOL)
                if not okc:
                    return fail("the derived object differs from the same operation on the matrix evaluated before: %s" % msg, "C06/pure-derived/%s/%s" % (op, struct))
        # the parameters of the derived kernel are the family TLC expects (exact, label composition only)
        if variant == "stub" and ok and not h["eerr"]:
            dk = d if op in ("kgetitem", "kexpand") else (d.kernel if isinstance(d, LazyEvaluatedKernelTensor) else None)
            if dk is not None:
                same = dk is k
                if same != bool(h["same"]):
                    res["drift"] = "KernelPure.tla: %s %s the kernel object itself, the code %s" % (show_op(h), "returns / shares" if h["same"] else "copies", "shares it" if same else "copies it")
                do = derived_order(torch, struct, dk)
                if do is None:
                    return fail("the derived kernel does not have the structure of the original", "C06/pure-derived/%s/%s" % (op, struct))
                es = [int(x) for x in h["eshape"]]
                if list(dk.batch_shape) != es:
                    return fail("the derived kernel has batch_shape %s, expected %s" % (list(dk.batch_shape), es), "C06/pure-derived/%s/%s" % (op, struct))
                for (shape, data), (c, eshape, edata) in zip(read_flat(torch, do), h["dexp"]):
                    tail = [] if c == "scale" else [1, 1]
                    got = torch.tensor(data).reshape(shape)
                    okx, got = core.guarded(lambda: got.expand(tuple(es) + tuple(tail)))
                    if not okx or [float(x) for x in got.reshape(-1)] != [float(x) for x in edata]:
                        return fail("the %s parameter of the derived kernel holds the labels %s (shape %s), KernelPure.tla expects %s (shape %s)" % (
                            c, data[:8], shape, list(edata)[:8], list(eshape)), "C06/pure-derived/%s/%s" % (op, struct))
        # ---- evaluate the ORIGINAL again
        bad = []
        d1 = fp_diff(torch, fp0, fingerprint(torch, k))
        if d1:
            bad.append("the kernel object changed (%s)" % d1)
        if variant == "stub":
            now = read_flat(torch, order)
            exp = [(list(s), [float(x) for x in dd]) for (c, s, dd) in h["orig"]]
            if now != flat0 or now != exp:
                bad.append("the parameters of the original composition read %s, before the derivation (and in KernelPure.tla) %s" % (now[:3], exp[:3]))
        # (the forms that derive nothing first; K2[0] - itself a derivation - last, so that a failure is attributed to `op`)
        checks = [("K.to_dense() [K = kernel(x1, x2) created before the derivation]", True, lambda: dense_of(K), E),
                  ("kernel(x1, x2) eager", False, lambda: dense_of(k(x1, x2)), E),
                  ("kernel(x1, diag=True)", False, lambda: dense_of(k(x1, x1, diag=True)), dg0),
                  ("kernel(x1, x1).diagonal() lazy", True, lambda: k(x1, x1).diagonal(), dg0),
                  ("kernel(x1, x2)[0] lazy", True, lambda: dense_of(k(x1, x2)[0]), E[0])]
        for name, lz, fn, want in checks:
            with gpytorch.settings.lazily_evaluate_kernels(lz):
                okv, got = core.guarded(fn)
            if not okv:
                bad.append("%s raised %s" % (name, got))
            elif tuple(got.shape) != tuple(want.shape):
                bad.append("%s has shape %s, before the derivation %s" % (name, list(got.shape), list(want.shape)))
            else:
                okc, msg = core.close(got, want, TOL, TOL)
                if not okc:
                    bad.append("%s differs from its value before the derivation: %s" % (name, msg))
            if bad:
                break
        if bad:
            return fail("after %s the ORIGINAL is not what it was: " % show_op(h) + "; ".join(bad[:4]))
    if variant == "stub":
        res["sample"] = dict(case=desc, expect_derived_parameters=[list(x[2])[:4] for x in last["dexp"]][:4], original_parameters=[list(x[2])[:4] for x in last["orig"]][:4])
    return res


# ------------------------------------------------------------------------------------------------------------------
# the diag layout of the derivative kernels, decoded through pairwise distinct parameters
def lay_kernels(D, G):
    """[(name, make(PB) -> kernel, ref(kernel, x) -> (..., n, T) closed-form diagonal entries per (point, output))]"""
    import torch
    import gpytorch.kernels as gk

    def ls_of(k, x):
        return k.lengthscale.expand(*k.lengthscale.shape[:-1], D)  # (*PB, 1, D)

    def rbf(k, x):
        l = ls_of(k, x)
        n = x.shape[-2]
        b = torch.broadcast_shapes(l.shape[:-2], x.shape[:-2])
        return torch.cat([torch.ones(*b, n, 1, dtype=x.dtype), l.pow(-2).expand(*b, n, D)], -1)

    def rbfgg(k, x):
        l = ls_of(k, x)
        n = x.shape[-2]
        b = torch.broadcast_shapes(l.shape[:-2], x.shape[:-2])
        return torch.cat([torch.ones(*b, n, 1, dtype=x.dtype), l.pow(-2).expand(*b, n, D), 3 * l.pow(-4).expand(*b, n, D)], -1)

    def mat(k, x):
        l = ls_of(k, x)
        n = x.shape[-2]
        b = torch.broadcast_shapes(l.shape[:-2], x.shape[:-2])
        return torch.cat([torch.ones(*b, n, 1, dtype=x.dtype), (5.0 / 3.0) * l.pow(-2).expand(*b, n, D)], -1)

    def poly(k, x):
        p = k.power
        base = (x * x).sum(-1, keepdim=True) + k.offset.view(*k.batch_shape, 1, 1)  # offset: (*PB, 1)
        return torch.cat([base.pow(p), p * (p - 1) * base.pow(p - 2) * x * x + p * base.pow(p - 1)], -1)

    def scaled(ref):
        def f(k, x):
            r = ref(k.base_kernel, x)
            return r * k.outputscale.reshape(*k.outputscale.shape, 1, 1)
        return f
    if G == 1:
        return [("RBFGrad-ard", lambda PB: gk.RBFKernelGrad(ard_num_dims=D, batch_shape=PB), rbf),
                ("Matern52Grad-ard", lambda PB: gk.Matern52KernelGrad(ard_num_dims=D, batch_shape=PB), mat),
                ("PolynomialGrad", lambda PB: gk.PolynomialKernelGrad(power=3, batch_shape=PB), poly),
                ("Scale(RBFGrad-ard)", lambda PB: gk.ScaleKernel(gk.RBFKernelGrad(ard_num_dims=D, batch_shape=PB), batch_shape=PB), scaled(rbf))]
    return [("RBFGradGrad-ard", lambda PB: gk.RBFKernelGradGrad(ard_num_dims=D, batch_shape=PB), rbfgg)]


LAY_PATTERNS = [((), ()), ((2,), (2,)), ((2,), ()), ((), (2,)), ((2, 1), (2, 2))]


def replay_lay(torch, n, D, G, dexp, seed, thorough):
    """-> list of result dicts: every request form of the diagonal decodes to the (point, order, dimension) sequence of TLC"""
    import gpytorch
    from checks import c06_kernels as kz
    T = 1 + G * D
    exp = [tuple(int(v) for v in e) for e in dexp]
    if len(exp) != n * T:
        raise core.Machinery("KernelPure.tla records %d diagonal entries for n=%d D=%d G=%d" % (len(exp), n, D, G))
    lab_of = [(0, 0)] + [(g, a) for g in range(1, G + 1) for a in range(1, D + 1)]  # output o -> (order, dimension)
    out = []
    for name, make, ref in lay_kernels(D, G):
        for PB, XB in (LAY_PATTERNS if thorough else LAY_PATTERNS[:4]):
            sd = kz.seed_of("lay", name, n, D, G, PB, XB, seed)
            k = make(torch.Size(PB)).double()
            kz.randomise(k, torch.Generator().manual_seed(sd))
            kz.assert_distinct(k)
            x = torch.rand(*XB, n, D, generator=torch.Generator().manual_seed(sd + 1), dtype=torch.float64) * 1.6 + 0.2
            desc = "%s d=%d param-batch=%s x:%s" % (name, D, list(PB), list(XB) + [n, D])
            key = ["lay", name, n, D, G, list(PB), list(XB)]
            case = dict(kind="lay", n=n, D=D, G=G, dexp=[list(e) for e in exp], seed=seed)
            with gpytorch.settings.lazily_evaluate_kernels(False):
                oke, Efull = core.guarded(lambda: dense_of(k(x)))
            if not oke:  # the eager evaluation itself raises on this batch pattern: outside the kernel's domain (batch-mode support is C08's question)
                out.append(dict(key=key + ["not-evaluable"], ok=True, nontrivial=False))
                continue
            with torch.no_grad():
                R = ref(k, x)  # (*B, n, T)
                B = tuple(R.shape[:-2])
                # non-vacuity: the outputs of one point are pairwise distinguishable
                gap = (R.unsqueeze(-1) - R.unsqueeze(-2)).abs() + torch.eye(T, dtype=R.dtype) * 1e9
                if T > 1 and float(gap.min()) < 1e-6 * max(1.0, float(R.abs().max())):
                    out.append(dict(key=key + ["symmetric"], ok=True, nontrivial=False, vacuous="%s: the parameters do not separate the outputs of a point (min gap %.2e): the layout cannot be decoded" % (desc, float(gap.min()))))
                    continue
                forms = []
                for lz in (True, False):
                    with gpytorch.settings.lazily_evaluate_kernels(lz):
                        forms.append(("kernel(x, diag=True) [lazy=%s]" % lz, core.guarded(lambda: dense_of(k(x, diag=True)))))
                        forms.append(("kernel(x).diagonal() [lazy=%s]" % lz, core.guarded(lambda: k(x).diagonal())))
                        forms.append(("kernel(x).to_dense().diagonal() [lazy=%s]" % lz, core.guarded(lambda: dense_of(k(x)).diagonal(dim1=-1, dim2=-2))))
            for fname, (okf, got) in forms:
                r = dict(key=key + [fname], ok=True, nontrivial=n > 1 and D > 1)
                sig = "C06/diag-layout/%s" % name
                if not okf:
                    r.update(ok=False, sig=sig, detail="%s: %s raised %s" % (desc, fname, got), case=case)
                elif tuple(got.shape) != B + (n * T,):
                    r.update(ok=False, sig=sig, detail="%s: %s has shape %s, expected %s" % (desc, fname, list(got.shape), list(B) + [n * T]), case=case)
                else:
                    G2 = got.reshape(*B, n, T)
                    # decode every entry against the closed forms of its point
                    dist = (G2.unsqueeze(-1) - R.unsqueeze(-2)).abs()  # (*B, n, T(position), T(candidate output))
                    tol = TOL * (1.0 + R.abs().unsqueeze(-2))
                    hit = dist <= tol
                    o = dist.argmin(-1)
                    flat_hit = hit.any(-1).reshape(-1, n * T)
                    flat_o = o.reshape(-1, n * T)
                    for b in range(flat_o.shape[0]):
                        dec = [((q // T,) + lab_of[int(flat_o[b, q])]) if bool(flat_hit[b, q]) else None for q in range(n * T)]
                        if dec != exp:
                            q = [i for i in range(n * T) if dec[i] != exp[i]][0]
                            r.update(ok=False, sig=sig, case=case, detail="%s: %s, batch element %d: entry %d decodes to %s, the diagonal of the full matrix has %s there "
                                     "((point, derivative order, input dimension); got %s, closed forms of the point %s)" % (
                                         desc, fname, b, q, "no output of this point" if dec[q] is None else str(dec[q]), exp[q],
                                         [round(float(v), 6) for v in got.reshape(-1, n * T)[b][:9]], [round(float(v), 6) for v in R.reshape(-1, n, T)[b, q // T]]))
                            break
                if r["ok"] and fname.startswith("kernel(x, diag=True) [lazy=True]") and PB == () and XB == () and n == 2 and D == 2:
                    r["sample"] = dict(case=desc, expect_layout=[list(e) for e in exp])
                out.append(r)
    return out


# ------------------------------------------------------------------------------------------------------------------
def worker(item):
    torch = core.setup_torch()
    out = []
    for _, st in tlaval.parse_dump(item["text"]):
        if str(st["phase"]) != "re-evaluated":
            continue
        hist = to_py(st["hist"])
        mut = str(st["mut"])
        if mut != "code":
            out.append(dict(cert=mut, broken=any((not h["pure"]) or (not h["dok"]) for h in hist)))
            continue
        if str(st["fam"]) == "lay":
            n, D, G = [int(v) for v in hist[-1]["arg"]]
            out.extend(replay_lay(torch, n, D, G, hist[-1]["dexp"], item["seed"], item["thorough"]))
            continue
        for variant in ("stub", "real"):
            out.append(replay_pure(torch, str(st["struct"]), to_py(st["pb"]), hist, variant, item["seed"]))
    return out


def replay_case(case):
    torch = core.setup_torch()
    if case["kind"] == "lay":
        return replay_lay(torch, case["n"], case["D"], case["G"], case["dexp"], case.get("seed", 0), True)
    return [replay_pure(torch, case["struct"], case["pb"], case["hist"], case["variant"], case.get("seed", 0))]
