"""C06 - diag, transpose, lazy evaluation and indexing of a kernel all agree.

Spec: LazyKernel.tla (+ PyIndex.tla).  TLC enumerates, per broadcast pattern (parameter batch, x1 batch, x2 batch) and
outputs-per-input t, every index expression of the families below, the lazy-tensor operations (transpose, unsqueeze,
repeat, diagonal), chains K[i][j] and the kernel operations (kernel[idx], expand_batch), and records the declarative
expectation of every case (numpy-style indexing of the dense label tensor).  Two TLC runs per configuration, launched
together: the generation run (dump) under the invariant AgreeExceptKnown - the transcribed code deviates from the
declarative meaning only in the syntactic classes of StepClass / OpClass, which holds on the model of the pinned code -
and the same state space under the plain invariant Agree, whose first counterexample is reported as a prediction
(MODEL-DRIFT line).  The replay decides.

Replay: every case is executed (1) on a label stub kernel whose entries ARE the spec's integer labels - exact
comparison with TLC's expectation, which is itself validated against torch indexing of the label matrix (a
disagreement is a machinery failure) - and (2) on real kernels of the zoo (checks/c06_kernels.py), float64, 1e-10,
oracle = the same torch operation on the dense matrix of the same kernel object.  A second section runs the metamorphic
relations lazy-vs-eager / transpose / diag / stacked blocks / active_dims twin on every zoo kernel for every
TLC-enumerated broadcast pattern.

Data geometry (LazyKernel.tla "the data lattice"): the relations are decided by input points in special position, so the rows of
x1 / x2 are points with an identity and a class (origin, unit, lattice, generic; coincident rows; rows shared by x1 and x2).  The
"geo" runs enumerate (broadcast pattern x geometry) under the invariants GeoCover (every class in x1 and in x2, coincident and
shared rows, x2 = cat(new rows, x1): a sub-block with equal inputs), GeoAgree and StackIsBlock, with the relations as actions (transpose, diag11, diagstack, stack, rows / columns / whole
tensor); the stub replays them exactly (equal points = equal labels) and EVERY zoo kernel evaluates every zoo relation on every
(pattern, geometry), the classes realised in its own input space (c06_kernels.geo_inputs: centre and sphere of the unit ball for the
cylindrical kernel, whole periods, exact grid nodes, inducing points, the boundary of a compact support, zero / one-hot rows, the
antipode).  In every other family the real kernels are evaluated on the geometry DataGeo of the spec (origin and unit rows, the
last rows of x1 = the first rows of x2); the stub keeps pairwise distinct labels there.

Settings and mode (LazyKernel.tla "settings and mode"): what a kernel means depends on train / eval mode and on the settings
sgpr_diagonal_correction and use_toeplitz (lazily_evaluate_kernels is crossed by every relation anyway).  The geo runs enumerate (aligned
broadcast pattern x geometry x environment) under EnvCover (the default and every PAIR of setting values; every environment in the thorough
tier's geom run) and EnvVisible; the stub's forward reads the three components when it runs, so its labels carry the environment (exact), and
EVERY zoo kernel evaluates every zoo relation under every enumerated environment (mode set on the kernel object, settings around both sides of
the relation; generic rows and the first geometry).  A kernel that is only defined for x1 == x2 in an environment (the SGPR kernel in train
mode) gets the diagonal relations there.  Diagonal class: every composite / multi-output structure of the zoo has a member whose diagonal
k(x, x) VARIES over the points (ZooDiagCover on CONSTANT Zoo = the zoo's declared table; diag_probe checks the declaration on the real kernel).

History dimension (KernelPure.tla, checks/c06_pure.py): a kernel is a mutable object and every derivation (kernel[idx],
expand_batch, K[idx], K.mT, repeat, unsqueeze, diagonal, evaluate_kernel) copies it and assigns on the copy.  TLC checks
Pure / DerivedAgree on a heap model of the copy discipline for plain, Scale, Additive, Product and nested compositions
(and LayoutOK: the block -> interleaved shuffle of the derivative kernels' diag=True branch); the replay runs every
history evaluate -> derive -> evaluate the ORIGINAL again on label compositions (parameters read back exactly) and on real
compositions.  The same purity check (parameter / buffer fingerprint of the kernel object after EVERY case, eager
re-evaluation after a deterministic quarter of them and after every kernel operation) runs inside the two sections above.
Every zoo instance has pairwise distinct hyperparameters (ARD components, batch elements, members), probed to be visible.

Cell signatures: C06/<operation>/<t1|mt>/<class>[/only:<kernel>] with the class computed by the spec (or 'empty-result' /
'plain:<index kinds>' for a case the model does not flag; 'only:<kernel>' when the generic stub passes the case), and
C06/zoo/<relation>/<kernel | any-kernel>[/special-rows] ('any-kernel' when the plain RBF kernel fails the relation on the same
pattern and geometry; 'special-rows' when the relation holds for this kernel and pattern on generic data and fails on a geometry),
C06/pure/<operation>/<structure | t1 | mt>[/only:<kernel>] (the original object changed), C06/pure-derived/<operation>/<structure>,
C06/diag-layout/<kernel>; a zoo relation that holds in the environment the kernel is built in and fails in another one gets the suffix
/env:<mode>,sgpr_diagonal_correction=<on|off>,use_toeplitz=<on|off>.

Development switches (never needed for a normal run): VERIF_C06_ONLY=<regex over TLC run names>, VERIF_C06_REUSE=1 (reuse
the dumps of an earlier --keep-build run), VERIF_C06_DUMPFAIL=<file>, VERIF_C06_DRIFTS=<n>, VERIF_C06_TLC_PAR=<n>."""
import os
import re

from harness import core, tlc, tlaval

LEVEL = "model_checking"
PID = "C06"
# The fix: commits of /repo that LazyKernel.tla has to follow (CONSTANT Repairs).  slice_stop_0 and active_dims_buffer switch
# the transcription (LKGetItem, KGetItem / KExpand, StepClass); the other four repair kernel classes the module does not
# model (they are decided by the zoo relations) and are listed so that the tuple names every C06 repair in the tree.
ALL_REPAIRS = ("slice_stop_0", "active_dims_buffer", "product_expand_batch", "index_diag", "multitask_active_dims", "call_diag")
REPAIRS_IN_TREE = ALL_REPAIRS
if os.environ.get("VERIF_C06_REPAIRS") is not None:  # development / mutation testing against an older tree
    REPAIRS_IN_TREE = tuple(x for x in os.environ["VERIF_C06_REPAIRS"].split(",") if x in ALL_REPAIRS)
NONE = 99
TOL = 1e-10


# ------------------------------------------------------------------------------------------------------------------
# TLC runs
def tla(v):
    if isinstance(v, (tuple, list)):
        return "<<" + ", ".join(tla(x) for x in v) + ">>"
    if isinstance(v, str):
        return '"%s"' % v
    return str(v)


P_RANK1 = [((2,), (2,), (2,)), ((), (2,), (2,)), ((2,), (), ()), ((), (1,), (2,)), ((2,), (1,), (1,)), ((), (2,), ()), ((2,), (2,), ())]
P_RANK2 = [((2,), (2, 2), (2, 2)), ((2, 1), (2, 2), (1, 2)), ((), (2, 1), (1, 2)), ((2, 2), (2, 2), (2, 2)), ((2, 1), (), (2,)), ((2,), (2, 1), (2,))]
P_PARAM = [p for p in P_RANK1 + P_RANK2 if p[0] != ()]
FAMS_U = ["rs", "cs", "ss", "ix", "lx", "el"]
# data geometries (point ids of the rows of x1, of x2; 0 origin, 1 unit, 2 lattice, 3 / 4 generic): a family that satisfies GeoCover
# for N1 = 2, N2 = 3 (TLC checks it), and the larger family of the thorough tier
GEOS_COVER = [((0, 3), (2, 0, 3)), ((1, 2), (0, 0, 4)), ((1, 1), (1, 3, 0))]
GEOS_MORE = [((0, 0), (0, 3, 3)), ((2, 3), (2, 2, 1)), ((3, 3), (3, 3, 3)), ((3, 0), (4, 3, 1))]
# environments <<mode, sgpr_diagonal_correction, use_toeplitz>> (LazyKernel.tla "settings and mode"): the default, a family that
# contains every PAIR of setting values (TLC checks EnvCover), and all of them
ENV_DEFAULT = ("train", "on", "on")
ENVS_COVER = [ENV_DEFAULT, ("train", "off", "off"), ("eval", "on", "off"), ("eval", "off", "on")]
ENVS_ALL = [(m, c, t) for m in ("train", "eval") for c in ("on", "off") for t in ("on", "off")]
SENS_ALL = ("mode", "corr", "toep")
GEO_PATTERNS = '{<<p, "geo">> : p \\in BroadcastablePatterns({<<>>, <<2>>, <<2, 1>>}, {1, 2}, %d)}'


def plan(thorough):
    """List of TLC runs: dict(name, n1, n2, t, tails, ad, jobs | jobexpr, steps, nchunks, chunks, inv, pad).  A run is one JVM;
    its initial states are (pattern, family, chunk) triples, which TLC's workers explore in parallel."""
    R = []

    def run(name, n1, n2, t, jobs, tails=((1, 1),), ad=(), steps=1, nchunks=1, inv=("Agree", "SizeIsDenseShape"), jobexpr=None, split=1, workers=6, geos=(), envs=()):
        # `split` JVMs share the chunks of one run
        nch = max(nchunks, split)
        for s in range(split):
            R.append(dict(name=name + ("_%d" % s if split > 1 else ""), n1=n1, n2=n2, t=t, tails=tails, ad=ad, jobs=jobs, jobexpr=jobexpr, steps=steps, nchunks=nch,
                          chunks=[c for c in range(nch) if c % split == s], inv=list(inv), pad=2 if thorough else 1, workers=workers, geos=geos if geos == "all" else list(geos), envs=list(envs) or [ENV_DEFAULT]))

    U = ((), (), ())
    allp = [U] + P_RANK1 + P_RANK2

    def fams(pats, fs):
        return [(p, f) for p in pats for f in fs]
    # t = 1: unbatched tensors under every slice / int / index-tensor / ellipsis family; batched tensors under every batch
    # index form x a representative set of matrix indices
    r2 = P_RANK2[:4] if thorough else P_RANK2[:3]
    run("t1", 3, 2, 1, fams([U], FAMS_U) + fams(P_RANK1, ["bx", "be"]) + fams(r2, ["bx" if thorough else "bf"]), nchunks=4, split=4 if thorough else 2, workers=8)
    # the axis-by-axis index function of the code-shaped side is PyIndex!TIndex (no Agree here: a single complete run)
    run("fast", 3, 2, 1, fams([U], ["ix", "lx", "el"] + (["ss"] if thorough else [])) + fams(P_RANK1[:1], ["bx"]), nchunks=2, inv=("FastIsTIndex", "SizeIsDenseShape"))
    # t = 2 (multi-output kernels)
    r1 = P_RANK1 if thorough else P_RANK1[:3]
    n1 = 3 if thorough else 2
    run("t2", n1, 2, 2, fams([U], FAMS_U) + fams(r1, ["bx", "be"]) + (fams(P_RANK2[:3], ["bf"]) if thorough else []), nchunks=6, split=6 if thorough else 3, workers=6)
    # multi-output kernels on a K(x1, x2) with FEWER ROWS THAN COLUMNS (the row and the column size must not be interchangeable)
    if thorough:
        run("t2r", 2, 3, 2, fams([U], FAMS_U) + fams(P_RANK1[:2], ["bx"]), nchunks=6, split=3, workers=8)
        run("t3r", 1, 2, 3, fams([U], FAMS_U) + fams(P_RANK1[:2], ["bx"]), nchunks=4, split=2, workers=8)
    else:
        run("t2r", 1, 2, 2, fams([U], ["el", "ix"]), nchunks=2, workers=4)
        run("t3r", 1, 2, 3, fams([U], ["el"]), nchunks=2, workers=4)
    if thorough:
        run("t1n33", 3, 3, 1, fams([U], FAMS_U), nchunks=4, workers=8)
        run("t2n33", 3, 3, 2, fams([U], FAMS_U), nchunks=8, split=4, workers=8)
        run("t3", 2, 2, 3, fams([U], FAMS_U) + fams(P_RANK1[:3], ["bx"]), nchunks=8, split=3, workers=8)
        run("t1bu", 3, 2, 1, fams(P_RANK1[:2], ["ix", "lx"]), nchunks=4, split=2, workers=8)
    # kernels that own an active_dims buffer, and kernels whose parameters have different tails (Scale(RBF))
    pp = P_PARAM if thorough else P_PARAM[:4]
    run("t1ad", 3, 2, 1, fams(pp, ["bf", "kern"]), ad=(2, 0), nchunks=2)
    run("t1sc", 3, 2, 1, fams(pp, ["bf", "kern"]), tails=((), (1, 1)), nchunks=2)
    # transposition, unsqueeze, repeat, diagonal; kernel[idx] / expand_batch; chains K[i][j]
    run("t1ops", 2, 2, 1, fams(allp, ["ops", "kern"]))
    run("t2ops", 2, 2, 2, fams(allp[:8], ["ops"]))
    run("t1chain", 3, 2, 1, fams([U, P_RANK1[0]], ["chain"]), steps=3 if thorough else 2, nchunks=3)
    run("t2chain", 2, 2, 2, fams([U] + ([P_RANK1[1]] if thorough else []), ["chain"]), steps=2, nchunks=3)
    # every broadcast pattern (for the metamorphic section): TLC enumerates them and checks _size against the dense shape
    run("patterns", 2, 2, 1, None, inv=("SizeIsDenseShape",), workers=2,
        jobexpr='{<<p, "none">> : p \\in BroadcastablePatterns({<<>>, <<2>>, <<2, 1>>}, {1, 2}, %d)}' % (2 if thorough else 1))
    # the data lattice: every broadcast pattern x geometry with the relations as actions (t = 1 and t = 2 stubs; the zoo section takes
    # its (pattern, geometry) pairs from the first run)
    # ... x environment on the aligned patterns (EnvPattern): the pairwise covering family (the zoo section takes its environments from the
    # first run as well), every environment in the thorough tier's "geom" run
    ginv = ("GeoAgree", "SizeIsDenseShape", "GeoCover", "StackIsBlock")
    einv = ("EnvCover", "EnvVisible", "ZooDiagCover", "DiagRelCover", "DiagRelDiscriminates")
    run("geo", 2, 3, 1, None, inv=ginv + einv, workers=4, geos=GEOS_COVER, jobexpr=GEO_PATTERNS % (2 if thorough else 1), envs=ENVS_COVER)
    run("geo2", 2, 3, 2, None, inv=ginv + einv, workers=4, geos=GEOS_COVER, jobexpr=GEO_PATTERNS % 1, envs=ENVS_COVER)
    if thorough:
        # more geometries on the patterns with data batch rank <= 1 (stub and zoo), and EVERY assignment of points to rows (n1 = n2 = 2),
        # unbatched and with an aligned batch (the stub only)
        run("geom", 2, 3, 1, None, inv=ginv[:2] + ginv[3:] + einv[:2] + einv[4:], workers=4, geos=GEOS_MORE, jobexpr=GEO_PATTERNS % 1, envs=ENVS_ALL)
        run("geoall", 2, 2, 1, fams([U, P_RANK1[0]], ["geo"]), inv=ginv[:2] + ginv[3:] + einv[4:], workers=8, geos="all")
    return R


def write_mc(wd, r):
    os.makedirs(wd, exist_ok=True)
    mod = "MC_LK_" + r["name"]
    jobs = r["jobexpr"] or "{" + ", ".join("<<%s, %s>>" % (tla(p), tla(f)) for p, f in r["jobs"]) + "}"
    geos = "AllGeos(N1, N2)" if r.get("geos") == "all" else "{" + ", ".join(tla(g) for g in r.get("geos") or []) + "}"
    isgeo = bool(r.get("geos"))
    envs = "{" + ", ".join(tla(tuple(e)) for e in r.get("envs") or [ENV_DEFAULT]) + "}"
    sens = "{" + ", ".join(tla(x) for x in (SENS_ALL if isgeo else ())) + "}"
    zoo = "{" + ", ".join(tla(z) for z in (zoo_table() if isgeo else ())) + "}"
    with open(os.path.join(wd, mod + ".tla"), "w") as f:
        f.write("---- MODULE %s ----\nEXTENDS LazyKernel\nTailsDef == %s\nADDef == %s\nJobsDef == %s\nChunkSetDef == {%s}\nGeosDef == %s\nEnvsDef == %s\nSensDef == %s\nZooDef == %s\n====\n" % (
            mod, tla(r["tails"]), tla(r["ad"]), jobs, ", ".join(str(c) for c in r["chunks"]), geos, envs, sens, zoo))
    cfg = os.path.join(wd, mod + ".cfg")
    tlc.write_cfg(cfg, spec="Spec", constants={"N1": r["n1"], "N2": r["n2"], "T": r["t"], "Tails": "<- TailsDef", "AD": "<- ADDef", "Jobs": "<- JobsDef", "Geos": "<- GeosDef", "Envs": "<- EnvsDef", "Sens": "<- SensDef", "Zoo": "<- ZooDef", "Repairs": set(REPAIRS_IN_TREE),
                                               "MaxSteps": r["steps"], "Pad": r["pad"], "NChunks": r["nchunks"], "ChunkSet": "<- ChunkSetDef"},
                  invariants=r["inv"])
    return os.path.join(wd, mod + ".tla"), cfg


def zoo_table():
    """CONSTANT Zoo of LazyKernel.tla: <<name, structure, class of the diagonal over the points, outputs per input>> as declared by the zoo"""
    from checks import c06_kernels as kz
    return [(z.name, z.struct, "varying" if z.dvar else "constant", z.t) for z in kz.zoo()]


# ------------------------------------------------------------------------------------------------------------------
# index expressions
def py_index(torch, idx):
    out = []
    for it in idx:
        k = it["k"]
        if k == "int":
            out.append(int(it["v"]))
        elif k == "slice":
            out.append(slice(*[None if x == NONE else int(x) for x in (it["a"], it["b"], it["s"])]))
        elif k == "ell":
            out.append(Ellipsis)
        else:
            out.append(torch.tensor([int(x) for x in it["v"]], dtype=torch.long))
    return tuple(out)


def show_index(idx):
    parts = []
    for it in idx:
        k = it["k"]
        if k == "int":
            parts.append(str(it["v"]))
        elif k == "slice":
            a, b, s = ["" if x == NONE else str(x) for x in (it["a"], it["b"], it["s"])]
            parts.append("%s:%s" % (a, b) + (":" + s if s else ""))
        elif k == "ell":
            parts.append("...")
        else:
            parts.append("tensor(%s)" % list(it["v"]))
    return "[" + ", ".join(parts) + "]"


def expand_idx(idx, nd):
    """the index padded to one item per axis (None when it has too many items)"""
    full = dict(k="slice", a=NONE, b=NONE, s=NONE)
    n = len([it for it in idx if it["k"] != "ell"])
    if n > nd or len(idx) - n > 1:
        return None
    out = []
    seen = False
    for it in idx:
        if it["k"] == "ell":
            out += [full] * (nd - n)
            seen = True
        else:
            out.append(it)
    if not seen:
        out += [full] * (nd - n)
    return out


def is_full(it):
    return it["k"] == "slice" and (it["a"], it["b"], it["s"]) == (NONE, NONE, NONE)


def bshape(*shapes):
    import torch
    return tuple(torch.broadcast_shapes(*[tuple(s) for s in shapes]))


def kinds(idx):
    out = []
    for it in idx:
        k = it["k"]
        if k == "list":
            k = "tensor"
        if k == "slice" and is_full(it):
            k = ":"
        if k == "ell":
            k = "..."
        out.append(k)
    return "x".join(out) or "()"


# ------------------------------------------------------------------------------------------------------------------
# environments
_ENV = [None]  # the environment of the case being replayed (None = the default: objects as built, default settings)


def env_code(env, sens=SENS_ALL):
    """EnvCode of LazyKernel.tla"""
    if not env:
        return 0
    return (1 if "mode" in sens and env[0] == "eval" else 0) + (2 if "corr" in sens and env[1] == "off" else 0) + (4 if "toep" in sens and env[2] == "off" else 0)


def env_name(env):
    return "%s,sgpr_diagonal_correction=%s,use_toeplitz=%s" % tuple(env) if env else "default"


class env_settings(object):
    """the global settings of an environment (the mode belongs to the kernel object: setup / zoo_env set it)"""

    def __init__(self, env):
        self.env = [str(x) for x in env] if env else None

    def __enter__(self):
        import gpytorch
        self.prev = _ENV[0]
        _ENV[0] = self.env
        self.cms = []
        if self.env:
            self.cms = [gpytorch.settings.sgpr_diagonal_correction(self.env[1] == "on"), gpytorch.settings.use_toeplitz(self.env[2] == "on")]
        for c in self.cms:
            c.__enter__()
        return self

    def __exit__(self, *a):
        for c in reversed(self.cms):
            c.__exit__(None, None, None)
        _ENV[0] = self.prev
        return False


class zoo_env(env_settings):
    """... and the mode of the zoo kernel k for the duration of the block (restored afterwards)"""

    def __init__(self, k, env):
        env_settings.__init__(self, env)
        self.k = k

    def __enter__(self):
        env_settings.__enter__(self)
        self.was = self.k.training
        if self.env:
            self.k.train(self.env[0] == "train")
        return self

    def __exit__(self, *a):
        self.k.train(self.was)
        return env_settings.__exit__(self, *a)


# ------------------------------------------------------------------------------------------------------------------
# objects under test
_CACHE = {}
_FP = {}


def purity(torch, key, full):
    """After a case: the kernel object of the cached set-up `key` is what it was when it was built (parameters, buffers,
    batch shapes, module tree) and - when `full` - evaluates eagerly to the same matrix.  -> None or a description; a
    changed object is dropped from the cache so that the following cases start from a fresh one."""
    import gpytorch
    from checks import c06_pure as cp
    su = _CACHE.get(key)
    if su is None:
        return None
    k, x1, x2, K, D = su
    msg = cp.fp_diff(torch, _FP[key], cp.fingerprint(torch, k, clone=False))
    if msg is None and full:
        with gpytorch.settings.lazily_evaluate_kernels(False):
            ok, E2 = core.guarded(lambda: dense_of(k(x1, x2)))
        if not ok:
            msg = "kernel(x1, x2) now raises %s" % E2
        elif tuple(E2.shape) != tuple(D.shape):
            msg = "kernel(x1, x2) now has shape %s, before %s" % (list(E2.shape), list(D.shape))
        else:
            okc, m2 = core.close(E2, D, TOL, TOL)
            if not okc:
                msg = "kernel(x1, x2) evaluated again differs from the first evaluation: %s" % m2
    if msg is not None:
        _CACHE.pop(key, None)
        _FP.pop(key, None)
    return msg


def dense_of(r):
    return r.to_dense() if hasattr(r, "to_dense") else r


def geo_rows(fam, geo):
    """(rows of x1, rows of x2) when the stub's labels follow the geometry (family 'geo'), else None (Iota labels)"""
    return (list(geo[0]), list(geo[1])) if fam == "geo" else None


def label_rows(torch, cfg, pat, fam=None, geo=None, which="12"):
    """The row labels of LazyKernel.tla for (x1, x2) - or (x1, x1) for which = '11', (xs, xs) with xs = cat(x1, x2) for 'ss'"""
    from checks import c06_kernels as kz
    PB, D1, D2 = [tuple(x) for x in pat]
    n1, n2 = cfg["n1"], cfg["n2"]

    def iota(shape):
        n = 1
        for s in shape:
            n *= s
        return torch.arange(n, dtype=torch.float64).reshape(tuple(shape))
    gr = geo_rows(fam, geo)
    lu = iota(D1 + (n1,)) if gr is None else kz.label_rows(D1, gr[0])
    lv = iota(D2 + (n2,)) if gr is None else kz.label_rows(D2, gr[1])
    if which in ("11", "1c"):
        lv = lu
    elif which == "1h":
        lv = lv[..., :n1]
    elif which == "ss":
        bd = bshape(D1, D2)
        lu = lv = torch.cat([lu.expand(*bd, n1), lv.expand(*bd, n2)], -1)
    return lu, lv


def label_dense(torch, cfg, pat, fam=None, geo=None, which="12"):
    """The dense label tensor of LazyKernel.tla computed directly (the oracle the stub is compared with)."""
    PB = tuple(pat[0])
    t = cfg["t"]
    lu, lv = label_rows(torch, cfg, pat, fam, geo, which)
    n1, n2 = lu.shape[-1], lv.shape[-1]
    B = bshape(PB, tuple(lu.shape[:-1]), tuple(lv.shape[:-1]))

    def iota(shape):
        n = 1
        for s in shape:
            n *= s
        return torch.arange(n, dtype=torch.float64).reshape(tuple(shape))
    p = sum(iota(PB).reshape(*PB, 1, 1) * (8 ** i) for i in range(len(cfg["tails"]))) + (64 * env_code(_ENV[0]) if fam == "geo" else 0)
    u = lu.repeat_interleave(t, -1).unsqueeze(-1)
    v = lv.repeat_interleave(t, -1).unsqueeze(-2)
    a = torch.arange(t, dtype=torch.float64).repeat(n1).unsqueeze(-1)
    c = torch.arange(t, dtype=torch.float64).repeat(n2)
    return ((((p * 32 + u) * 4 + a) * 32 + v) * 4 + c).expand(*B, n1 * t, n2 * t).contiguous()


def real_names(cfg, thorough):
    from checks import c06_kernels as kz
    return [z.name for z in kz.zoo() if z.t == cfg["t"] and z.xkind == "real" and (z.ad or not cfg["ad"]) and (thorough or z.quick or cfg["t"] > 1)]


def cache_key(cfg, pat, kname, which, fam, geo):
    return (cfg["name"], tuple(map(tuple, pat)), kname, which, repr(geo) if (fam == "geo" or kname != "stub") else None, repr(_ENV[0]) if fam == "geo" else None)


def setup(cfg, pat, kname, square=False, fam=None, geo=None, which="12"):
    """(kernel, x1, x2, lazy K, dense D) for a run configuration, a broadcast pattern and a kernel name; None when the
    kernel cannot be evaluated densely on this pattern at all (outside its domain: not a C06 question).  The stub's rows carry
    the labels of the spec (Iota, or the geometry in family 'geo'); a real kernel's rows are the points of `geo` realised in its
    input space.  which: '12' kernel(x1, x2), '11' kernel(x1, x1) (one tensor object), '1c' kernel(x1, x1.clone()), '1h' kernel(x1, x2[..., :n1, :]) (another
    tensor with the same number of rows), 'ss' kernel(xs, xs) with xs = cat(x1, x2)."""
    import gpytorch
    from checks import c06_kernels as kz
    torch = core.setup_torch()
    if square:
        which = "11"
    key = cache_key(cfg, pat, kname, which, fam, geo)
    if key in _CACHE:
        return _CACHE[key]
    PB, D1, D2 = [tuple(x) for x in pat]
    ad = tuple(cfg["ad"]) or None
    n1, n2 = cfg["n1"], cfg["n2"]
    if kname == "stub":
        k = kz.LabelKernel(t=cfg["t"], tails=cfg["tails"], batch_shape=torch.Size(PB), active_dims=ad, sens=SENS_ALL if fam == "geo" else ())
        if fam == "geo" and _ENV[0]:
            k.train(_ENV[0][0] == "train")
        lu, lv = label_rows(torch, cfg, pat, fam, geo, which)
        x1, x2 = kz.label_inputs_from(lu, ad[0] if ad else 0), kz.label_inputs_from(lv, ad[0] if ad else 0)
        if which in ("11", "ss"):
            x2 = x1
        elif which == "1c":
            x2 = x1.clone()
    else:
        z = kz.by_name(kname)
        if PB and not z.batch:
            _CACHE[key] = None
            return None
        sd = kz.seed_of(kname, PB, D1, D2, ad)
        k = kz.build(z, PB, ad, sd)
        if geo:
            x1, x2 = kz.geo_inputs(z, k, ad, D1, list(geo[0]), sd + 1), kz.geo_inputs(z, k, ad, D2, list(geo[1]), sd + 1)
        else:
            x1, x2 = kz.inputs(z, D1, n1, sd + 1), kz.inputs(z, D2, n2, sd + 2)
        if which == "11":
            x2 = x1
        elif which == "1c":
            x2 = x1.clone()
        elif which == "1h":
            x2 = x2[..., : x1.shape[-2], :].clone()
        elif which == "ss":
            bd = bshape(D1, D2)
            x1 = x2 = torch.cat([x1.expand(*bd, *x1.shape[-2:]), x2.expand(*bd, *x2.shape[-2:])], -2)
    with gpytorch.settings.lazily_evaluate_kernels(False):
        ok, E = core.guarded(lambda: dense_of(k(x1, x2)))
    if not ok:
        if kname == "stub":
            raise core.Machinery("label stub cannot be evaluated on %s: %s" % (pat, E))
        _CACHE[key] = None
        return None
    with gpytorch.settings.lazily_evaluate_kernels(True):
        K = k(x1, x2)
    _CACHE[key] = (k, x1, x2, K, E)
    from checks import c06_pure as cp
    _FP[key] = cp.fingerprint(torch, k)
    return _CACHE[key]


TOL_CUSP = 1e-6  # zoo relations of a kernel with a cusp at distance 0 on data with coincident / shared points (see c06_kernels.Z.cusp)


def compare(torch, got, want, exact, tol=TOL):
    """-> (ok, kind, detail)"""
    if tuple(got.shape) != tuple(want.shape):
        return False, "shape", "shape %s, expected %s" % (list(got.shape), list(want.shape))
    if want.numel() == 0:
        return True, "", ""
    if exact:
        if torch.equal(got.double(), want.double()):
            return True, "", ""
        bad = (got.double() != want.double()).nonzero()[0].tolist()
        return False, "values", "entry %s is %s, expected %s" % (bad, decode(float(got[tuple(bad)])), decode(float(want[tuple(bad)])))
    ok, msg = core.close(got, want, tol, tol)
    return ok, "" if ok else "values", msg


def decode(l):
    if l != l or abs(l) > 2 ** 40 or l != int(l):
        return repr(l)
    l = int(l)
    return "label(p=%d,x1row=%d,a=%d,x2row=%d,c=%d)" % (l // 16384, (l // 512) % 32, (l // 128) % 4, (l // 4) % 32, l % 4)


# ------------------------------------------------------------------------------------------------------------------
# replay of one TLC state
def run_steps(torch, obj, D, hist):
    """Apply the recorded operations to the real object `obj` and to the dense oracle D.
    -> (stage, value, oracle): stage 'ok' | 'invalid' (oracle raises: outside the quantifier) | 'raises' (code raised)"""
    cur, ref = obj, D
    for h in hist:
        op = h["op"]
        if op == "getitem":
            idx = py_index(torch, h["idx"])
            try:
                ref = ref[idx]
            except (IndexError, TypeError, RuntimeError, ValueError):
                return "invalid", None, None
            ok, cur = core.guarded(lambda: cur[idx])
        elif op == "transpose":
            ref = None
            ok, cur = core.guarded(lambda: cur.mT)
        elif op == "unsqueeze":
            d = int(h["arg"][0])
            ref = ref.unsqueeze(d if d >= 0 else d + 0)
            ok, cur = core.guarded(lambda: cur.unsqueeze(d))
        elif op == "repeat":
            reps = [int(x) for x in h["arg"]]
            ref = ref.repeat(*reps)
            ok, cur = core.guarded(lambda: cur.repeat(*reps))
        elif op == "diagonal":
            if ref.shape[-1] != ref.shape[-2]:
                return "invalid", None, None
            ref = ref.diagonal(dim1=-1, dim2=-2)
            ok, cur = core.guarded(lambda: cur.diagonal())
        else:
            raise core.Machinery("unknown operation %r" % op)
        if not ok:
            return "raises", cur, ref
    shp = None
    if hasattr(cur, "to_dense"):
        ok, shp = core.guarded(lambda: tuple(cur.shape))
        if not ok:
            return "raises", shp, ref
    ok, val = core.guarded(lambda: dense_of(cur))
    if not ok:
        return "raises", val, ref
    if shp is not None and tuple(val.shape) != shp:
        return "raises", "lazy result announces shape %s but evaluates to %s" % (list(shp), list(val.shape)), ref
    return "ok", val, ref


def show_geo(geo):
    nm = {0: "origin", 1: "unit", 2: "lattice", 3: "g3", 4: "g4"}
    return "x1 rows [%s] x2 rows [%s]" % (", ".join(nm[int(i)] for i in geo[0]), ", ".join(nm[int(i)] for i in geo[1]))


def describe(cfg, pat, hist, fam=None, geo=None):
    s = "t=%d x1:%s x2:%s param-batch=%s%s%s K" % (cfg["t"], list(pat[1]) + [cfg["n1"], "d"], list(pat[2]) + [cfg["n2"], "d"], list(pat[0]),
                                                   " active_dims=%s" % list(cfg["ad"]) if cfg["ad"] else "", " geometry %s" % show_geo(geo) if fam == "geo" else "")
    for h in hist:
        if h["op"] == "getitem":
            s += show_index(h["idx"])
        elif h["op"] in ("kgetitem",):
            s = s[:-1] + "kernel" + show_index(h["idx"])
        elif h["op"] == "kexpand":
            s = s[:-1] + "kernel.expand_batch(%s)" % list(h["arg"])
        elif h["op"] in REL_OPS:
            s = s[:-1] + REL_OPS[h["op"]]
        else:
            s += ".%s(%s)" % (h["op"], ", ".join(str(int(x)) for x in h["arg"]))
    if fam == "geo" and _ENV[0] and tuple(_ENV[0]) != ENV_DEFAULT:
        s += " {under %s}" % env_name(_ENV[0])
    return s


REL_OPS = {"diag11": "kernel(x1, x1): diag=True / .diagonal() against the diagonal of the dense matrix",
           "diagstack": "kernel(xs, xs), xs = cat(x1, x2): diag=True / .diagonal() against the diagonal of the dense matrix",
           "stack": "kernel(xs, xs)[..., :n1*t, n1*t:], xs = cat(x1, x2), against dense kernel(x1, x2)",
           "diag12": "kernel(x1, xr): diag=True / .diagonal() / forward(diag=True) against the diagonal of the dense matrix, xr"}
XREL = {"same": ("11", "= x1 (the same tensor object)"), "clone": ("1c", "= x1.clone()"), "rows": ("1h", "= x2[..., :n1, :] (another tensor with as many rows)")}
# the derivative kernels refuse a diagonal request with x1 != x2 explicitly (the documented precondition of diag=True): not decided for them
REFUSAL = "diag=True only works when x1 == x2"


def diag_forms(torch, k, xa, xb):
    """The REQUEST FORMS of the diagonal of kernel(xa, xb) (same number of rows): [(name, thunk)].  kernel.forward gets what Kernel.__call__ would
    hand it (the columns of the kernel's own active_dims; one object twice when xb is xa) and may return the diagonal unexpanded."""
    import gpytorch

    def lz(flag, fn):
        def g():
            with gpytorch.settings.lazily_evaluate_kernels(flag):
                return dense_of(fn())
        return g

    def fwd():
        ad = k.active_dims
        a = xa if ad is None else xa.index_select(-1, ad)
        b = a if xb is xa else (xb if ad is None else xb.index_select(-1, ad))
        return k.forward(a, b, diag=True)
    return [("kernel(x1, xr, diag=True)", lz(True, lambda: k(xa, xb, diag=True))), ("kernel(x1, xr, diag=True) eager", lz(False, lambda: k(xa, xb, diag=True))),
            ("kernel(x1, xr).diagonal()", lz(True, lambda: k(xa, xb).diagonal())), ("kernel.forward(x1, xr, diag=True)", lz(True, fwd))]


def fit_forward(torch, name, got, ref):
    """kernel.forward has no contract to expand its diagonal to the full broadcast batch shape"""
    if "forward" in name and hasattr(got, "shape") and tuple(got.shape) != tuple(ref.shape):
        try:
            return got.expand(ref.shape)
        except RuntimeError:
            return got
    return got


def cell_of(cfg, pat, hist):
    """Cell signature: operation / t1|mt / deviation class computed by LazyKernel.tla (StepClass, OpClass), or - for a case
    the model does not flag - 'empty-result' / 'plain:<index kinds>'."""
    h = hist[-1]
    tk = "t1" if cfg["t"] == 1 else "mt"
    cls = str(h["cls"])
    if h["op"] == "getitem":
        if cls == "none" and len(hist) > 1:
            # the previous link returned an evaluated LinearOperator (not modelled): linear_operator's own int(-1) handling applies
            ex = expand_idx(h["idx"], len(hist[-2]["eshape"]))
            if ex is not None and len(ex) >= 2 and any(it["k"] == "int" and it["v"] == -1 for it in ex[-2:]):
                cls = "row-or-col-int(-1)"
        if cls == "none":
            cls = "empty-result" if 0 in list(h["eshape"]) else "plain:" + kinds(h["idx"])
        return "C06/%s/%s/%s" % ("getitem" if len(hist) == 1 else "getitem-chain", tk, cls)
    return "C06/%s/%s/%s" % (h["op"], tk, cls if cls != "none" else "plain")


def replay_state(torch, cfg, pat, hist, knames, thorough, fam=None, geo=None, env=None):
    """-> list of result dicts (one per kernel); family 'geo': under the environment env"""
    env = [str(x) for x in env] if (env and fam == "geo") else None
    with env_settings(env):
        res = _replay_state(torch, cfg, pat, hist, knames, thorough, fam, geo)
    for r in res:
        if env and "case" in r:
            r["case"]["env"] = env
    return res


def _replay_state(torch, cfg, pat, hist, knames, thorough, fam=None, geo=None):
    out = []
    last = hist[-1]
    desc = describe(cfg, pat, hist, fam, geo)
    if last["op"] in ("kgetitem", "kexpand"):
        return replay_kernel_op(torch, cfg, pat, hist, knames, desc, fam, geo)
    if last["op"] in REL_OPS:
        return replay_rel(torch, cfg, pat, hist, desc, fam, geo)
    square = last["op"] == "diagonal"
    # the declarative expectation of TLC against torch on the label tensor (validates PyIndex.tla and the label algebra)
    L = label_dense(torch, cfg, pat, fam, geo)
    stage, _, _ = "ok", None, None
    ref = L
    try:
        for h in hist:
            if h["op"] == "getitem":
                ref = ref[py_index(torch, h["idx"])]
            elif h["op"] == "unsqueeze":
                ref = ref.unsqueeze(int(h["arg"][0]))
            elif h["op"] == "repeat":
                ref = ref.repeat(*[int(x) for x in h["arg"]])
            elif h["op"] == "diagonal":
                ref = ref.diagonal(dim1=-1, dim2=-2) if ref.shape[-1] == ref.shape[-2] else None
            elif h["op"] == "transpose":
                r2 = ref.mT
                l = r2.long()
                ref = (((((l // 16384) * 32 + (l // 4) % 32) * 4 + l % 4) * 32 + (l // 512) % 32) * 4 + (l // 128) % 4).double()
        oerr = ref is None
    except (IndexError, TypeError, RuntimeError, ValueError):
        oerr = True
    if oerr != bool(last["eerr"]) or (not oerr and (list(ref.shape) != list(last["eshape"]) or [int(x) for x in ref.reshape(-1)] != list(last["edata"]))):
        return [dict(machinery="LazyKernel.tla / PyIndex.tla disagree with torch on the label tensor for %s: spec err=%s shape=%s, torch err=%s shape=%s" % (
            desc, last["eerr"], list(last["eshape"]), oerr, None if oerr else list(ref.shape)))]
    key0 = [cfg["t"], cfg["n1"], cfg["n2"], list(cfg["tails"]), list(cfg["ad"]), [list(x) for x in pat], [[h["op"], h["idx"], list(h["arg"])] for h in hist]] + ([geo, env_name(_ENV[0])] if fam == "geo" else [])
    if oerr:
        return [dict(key=key0, ok=True, nontrivial=False, n=1)]
    nontrivial = ref.numel() > 0 and (last["op"] != "getitem" or ref.numel() < L.numel() or list(ref.shape) != list(L.shape))
    stub_ok = None
    stub_pure = None
    for kn in knames:
        su = setup(cfg, pat, kn, square and kn != "stub", fam, geo)
        if su is None:
            continue
        k, x1, x2, K, D = su
        if last["op"] == "transpose" and kn != "stub":
            import gpytorch
            with gpytorch.settings.lazily_evaluate_kernels(False):
                okT, _ = core.guarded(lambda: dense_of(k(x2, x1)))
            if not okT:  # kernel(x2, x1) is outside the kernel's domain although kernel(x1, x2) is not: not decided
                continue
        res = dict(key=key0 + [kn], ok=True, nontrivial=nontrivial)
        if kn == "stub":
            if D.shape != L.shape or not torch.equal(D, L):
                # the stub's forward is the label formula itself, so Kernel.__call__ / evaluate_kernel handed it other inputs
                # (active_dims selection, lazy wrapping); on the unchanged tree this never happens
                res.update(ok=False, sig="C06/stub-evaluation/%s" % ("t1" if cfg["t"] == 1 else "mt"),
                           detail="%s: kernel(x1, x2) of the label stub is not the label tensor (Kernel.__call__ passed different inputs to forward)" % describe(cfg, pat, [], fam, geo),
                           case=dict(kind="state", cfg=cfg, pat=[list(x) for x in pat], hist=hist, kernel=kn, fam=fam, geo=geo))
                out.append(res)
                continue
            res["sample"] = dict(case=desc, expect_shape=list(last["eshape"]), expect_labels=list(last["edata"])[:8], model_agrees=bool(last["agree"]))
        stage, val, oref = run_steps(torch, K, D, hist)
        if kn == "stub":
            oref = ref
        elif last["op"] == "transpose":
            oref = D.mT
        cell = cell_of(cfg, pat, hist)
        if kn != "stub" and stub_ok and last["op"] == "getitem" and 0 in list(last["eshape"]) and str(last["cls"]) in ("none", "slice-stop-0", "row-or-col-int(-1)"):
            # the generic stub passes and the expected result is empty: this kernel's operator cannot represent an empty selection
            cell = "/".join(cell.split("/")[:3]) + "/empty-result/only:" + kn
        elif kn != "stub" and stub_ok and cell.split("/")[-1].startswith("plain"):
            # the model flags nothing and the generic stub passes this case: specific to this kernel class
            cell = cell.split("/plain")[0] + "/plain/only:" + kn
        who = "" if kn == "stub" else " [kernel %s]" % kn
        if stage == "invalid":
            raise core.Machinery("oracle raised on a case the spec calls valid: %s" % desc)
        if stage == "raises":
            res.update(ok=False, sig=cell, detail="%s%s: valid operation (result shape %s) but the lazy tensor raised / is inconsistent: %s" % (desc, who, list(oref.shape) if oref is not None else "?", val))
        else:
            ok, kind, msg = compare(torch, val, oref, exact=(kn == "stub"))
            if not ok:
                res.update(ok=False, sig=cell, detail="%s%s: lazy result differs from the same operation on the dense matrix (%s): %s" % (desc, who, kind, msg))
        if kn == "stub":
            stub_ok = res["ok"]
        if kn == "stub" and res["ok"] != bool(last["agree"]) and all(h["agree"] for h in hist[:-1]) and not (res["ok"] and ref.numel() == 0):
            # (agreement on an EMPTY result where the model expects an error carries no information: not counted)
            res["drift_kind"] = "refuted" if res["ok"] else "unpredicted"
            res["drift"] = "LazyKernel.tla predicts %s for %s but the stub kernel %s" % ("agreement" if last["agree"] else "a mismatch", desc, "agrees" if res["ok"] else "fails")
        if not res["ok"]:
            res["case"] = dict(kind="state", cfg=cfg, pat=[list(x) for x in pat], hist=hist, kernel=kn, fam=fam, geo=geo)
        out.append(res)
        pr = pure_result(torch, cfg, pat, hist, kn, square and kn != "stub", key0, stub_pure, res, fam=fam, geo=geo)
        out.extend(pr)
        if kn == "stub":
            stub_pure = not pr
        if square and kn != "stub" and len(hist) == 1 and cfg["n1"] == cfg["n2"]:
            # ... and of kernel(x1, x2) with DIFFERENT inputs of the same number of rows (what the stub sees in this state), every request form
            su2 = setup(cfg, pat, kn, False, fam, geo)
            if su2 is not None:
                k2, y1, y2, _, D2 = su2
                r2 = dict(key=key0 + [kn, "x1!=x2"], ok=True, nontrivial=True, n=0)
                for name, fn in diag_forms(torch, k2, y1, y2):
                    okf, got = core.guarded(fn)
                    if not okf and REFUSAL in str(got):
                        break
                    r2["n"] += 1
                    okc, msg = (False, "raised %s" % got) if not okf else compare(torch, fit_forward(torch, name, got, D2.diagonal(dim1=-1, dim2=-2)), D2.diagonal(dim1=-1, dim2=-2), exact=False)[::2]
                    if not okc:
                        r2.update(ok=False, sig="C06/diagonal/%s/x1!=x2/%s" % ("t1" if cfg["t"] == 1 else "mt", kn),
                                  detail="%s [kernel %s, x1 and x2 different tensors] [%s]: differs from the diagonal of the dense matrix: %s" % (desc, kn, name, msg),
                                  case=dict(kind="state", cfg=cfg, pat=[list(x) for x in pat], hist=hist, kernel=kn, fam=fam, geo=geo))
                        break
                if r2["n"]:
                    out.append(r2)
                    out.extend(pure_result(torch, cfg, pat, hist, kn, False, key0 + ["x1!=x2"], stub_pure, r2, fam=fam, geo=geo))
    return out


def replay_rel(torch, cfg, pat, hist, desc, fam, geo):
    """The relations of the geometry family on the label stub (exact): every request form of the diagonal of kernel(x1, x1) /
    kernel(xs, xs) and the upper right block of kernel(xs, xs), xs = cat(x1, x2)."""
    import gpytorch
    last = hist[-1]
    op = last["op"]
    which = "11" if op == "diag11" else "ss"
    if op == "diag12":
        which = XREL[str(last["arg"][0])][0]
        desc += " " + XREL[str(last["arg"][0])][1]
    t, n1 = cfg["t"], cfg["n1"]
    Lab = label_dense(torch, cfg, pat, fam, geo, which)
    ref = Lab.diagonal(dim1=-1, dim2=-2) if op != "stack" else Lab[..., : n1 * t, n1 * t:]
    if bool(last["eerr"]) or list(ref.shape) != list(last["eshape"]) or [int(x) for x in ref.reshape(-1)] != list(last["edata"]):
        return [dict(machinery="LazyKernel.tla disagrees with torch on the label tensor for %s: spec err=%s shape=%s, torch shape=%s" % (desc, last["eerr"], list(last["eshape"]), list(ref.shape)))]
    if op == "stack" and not torch.equal(ref, label_dense(torch, cfg, pat, fam, geo)):
        return [dict(machinery="the block of the stacked label tensor is not the label tensor of kernel(x1, x2) for %s" % desc)]
    key0 = [cfg["t"], cfg["n1"], cfg["n2"], list(cfg["tails"]), list(cfg["ad"]), [list(x) for x in pat], [[op, [], [str(x) for x in last["arg"]]]], geo, env_name(_ENV[0])]
    su = setup(cfg, pat, "stub", False, fam, geo, which)
    k, xa, xb, K, D = su
    tk = "t1" if t == 1 else "mt"
    case = dict(kind="state", cfg=cfg, pat=[list(x) for x in pat], hist=hist, kernel="stub", fam=fam, geo=geo)
    res = dict(key=key0 + ["stub"], ok=True, nontrivial=True, n=1,
               sample=dict(case=desc, expect_shape=list(last["eshape"]), expect_labels=list(last["edata"])[:8], model_agrees=bool(last["agree"])))
    if D.shape != Lab.shape or not torch.equal(D, Lab):
        res.update(ok=False, sig="C06/stub-evaluation/%s" % tk, case=case,
                   detail="%s: the dense matrix of the label stub is not the label tensor (Kernel.__call__ passed different inputs to forward)" % desc)
        return [res]

    def lz(flag, fn):
        def g():
            with gpytorch.settings.lazily_evaluate_kernels(flag):
                return dense_of(fn())
        return g
    if op == "stack":
        forms = [("lazy", lz(True, lambda: K[..., : n1 * t, n1 * t:])), ("eager", lz(False, lambda: dense_of(k(xa, xa))[..., : n1 * t, n1 * t:]))]
    elif op == "diag12":
        forms = diag_forms(torch, k, xa, xb) + ([("kernel(x1, diag=True)", lz(True, lambda: k(xa, diag=True)))] if xb is xa else [])
    else:
        forms = [("kernel(x, x, diag=True) lazy", lz(True, lambda: k(xa, xa, diag=True))), ("kernel(x, x, diag=True) eager", lz(False, lambda: k(xa, xa, diag=True))),
                 ("kernel(x, diag=True)", lz(True, lambda: k(xa, diag=True))), ("kernel(x, x).diagonal()", lz(True, lambda: k(xa, xa).diagonal()))]
    relsig = "C06/%s/%s/%s" % (op, tk, "plain" if op != "diag12" else str(last["br"][0]).replace("rel:", "x2-"))
    for name, fn in forms:
        res["n"] += 1
        okf, got = core.guarded(fn)
        if not okf:
            res.update(ok=False, sig=relsig, case=case, detail="%s [%s]: raised %s" % (desc, name, got))
            break
        okc, kind, msg = compare(torch, fit_forward(torch, name, got, ref), ref, exact=True)
        if not okc:
            res.update(ok=False, sig=relsig, case=case, detail="%s [%s]: differs from the labels the relation selects (%s): %s" % (desc, name, kind, msg))
            break
    if res["ok"] != bool(last["agree"]):
        res["drift_kind"] = "refuted" if res["ok"] else "unpredicted"
        res["drift"] = "LazyKernel.tla predicts %s for %s but the stub kernel %s" % ("agreement" if last["agree"] else "a mismatch", desc, "agrees" if res["ok"] else "fails")
    out = [res]
    out.extend(pure_result(torch, cfg, pat, hist, "stub", False, key0, None, res, fam=fam, geo=geo, which=which))
    return out


def pure_result(torch, cfg, pat, hist, kn, square, key0, stub_pure, res, dpat=None, fam=None, geo=None, which="12"):
    """The ORIGINAL kernel object (shared by every case of this worker on the same set-up) after the case: [] or one failing result."""
    ckey = cache_key(cfg, dpat if dpat is not None else pat, kn, "11" if square else which, fam, geo)
    last = hist[-1]
    full = last["op"] in ("kgetitem", "kexpand") or int(core.digest(key0), 16) % 4 == 0
    msg = purity(torch, ckey, full)
    res["n"] = res.get("n", 1) + (2 if full else 1)
    if msg is None:
        return []
    op = last["op"] if (last["op"] != "getitem" or len(hist) == 1) else "getitem-chain"
    sig = "C06/pure/%s/%s" % (op, "t1" if cfg["t"] == 1 else "mt") + ("/only:" + kn if kn != "stub" and stub_pure else "")
    return [dict(key=key0 + [kn, "pure"], ok=False, nontrivial=True, sig=sig,
                 detail="%s%s: the operation changed the ORIGINAL kernel object: %s" % (describe(cfg, pat, hist, fam, geo), "" if kn == "stub" else " [kernel %s]" % kn, msg),
                 case=dict(kind="state", cfg=cfg, pat=[list(x) for x in pat], hist=hist, kernel=kn, fam=fam, geo=geo))]


def replay_kernel_op(torch, cfg, pat, hist, knames, desc, fam=None, geo=None):
    """kernel[idx] and kernel.expand_batch(shape) on the kernel alone."""
    from checks import c06_kernels as kz
    import gpytorch
    h = hist[-1]
    PB = tuple(pat[0])
    key0 = [cfg["t"], list(cfg["tails"]), list(cfg["ad"]), list(PB), h["op"], h["idx"], list(h["arg"])]
    lab = torch.arange(max(1, int(torch.tensor(PB).prod()) if PB else 1), dtype=torch.float64).reshape(tuple(PB))
    try:
        want = lab[py_index(torch, h["idx"])] if h["op"] == "kgetitem" else (lab.expand(*[int(x) for x in h["arg"]]) if len(h["arg"]) else lab)
        oerr = False
    except (IndexError, TypeError, RuntimeError, ValueError):
        want, oerr = None, True
    if oerr != bool(h["eerr"]) or (not oerr and (list(want.shape) != list(h["eshape"]) or [int(x) for x in want.reshape(-1)] != list(h["edata"]))):
        return [dict(machinery="LazyKernel.tla disagrees with torch on the parameter labels for %s" % desc)]
    if oerr:
        return [dict(key=key0, ok=True, nontrivial=False)]
    out = []
    n1, n2 = cfg["n1"], cfg["n2"]
    tk = "t1" if cfg["t"] == 1 else "mt"
    cell0 = "C06/%s/%s/%s" % ("kernel-getitem" if h["op"] == "kgetitem" else "expand_batch", tk, "active_dims" if cfg["ad"] else "no-active_dims")
    stub_ok = None
    stub_pure = None
    for kn in knames:
        cell = cell0 + ("/only:" + kn if kn != "stub" and stub_ok and not cfg["ad"] else "")
        # data with the parameter batch shape (kernel[idx]) or without batch (expand_batch): the dense matrix of the
        # original kernel, indexed / expanded, is the oracle
        dpat = (PB, PB, PB) if h["op"] == "kgetitem" else (PB, (), ())
        su = setup(cfg, dpat, kn, False, fam, geo)
        if su is None:
            continue
        k, x1, x2, K, D = su
        res = dict(key=key0 + [kn], ok=True, nontrivial=bool(PB) and (h["op"] == "kexpand" or want.numel() != lab.numel() or list(want.shape) != list(lab.shape)))
        who = "" if kn == "stub" else " [kernel %s]" % kn
        if h["op"] == "kgetitem":
            idx = py_index(torch, h["idx"])
            sel = idx + (slice(None),) * (len(PB) - len(idx))
            ok, k2 = core.guarded(lambda: k[idx if len(idx) != 1 else idx[0]])
            a1, a2, oref = x1[sel], x2[sel], D[sel]
        else:
            shape = [int(x) for x in h["arg"]]
            ok, k2 = core.guarded(lambda: k.expand_batch(torch.Size(shape)))
            a1, a2, oref = x1, x2, D.expand(*shape, *D.shape[-2:])
        if kn == "stub":
            res["sample"] = dict(case=desc, expect_batch_shape=list(h["eshape"]), expect_param_labels=list(h["edata"])[:8], model_agrees=bool(h["agree"]))
        if ok:
            core.guarded(lambda: k2.train(k.training))  # (whether a copy keeps the train / eval mode is not C06's question)
        if not ok:
            res.update(ok=False, sig=cell, detail="%s%s: raised %s" % (desc, who, k2))
        else:
            ad0 = k.active_dims
            okA, ad2 = core.guarded(lambda: k2.active_dims)
            okB, bs2 = core.guarded(lambda: tuple(k2.batch_shape))
            if not okA or not okB:
                res.update(ok=False, sig=cell, detail="%s%s: the new kernel cannot report active_dims / batch_shape: %s" % (desc, who, ad2 if not okA else bs2))
            elif (ad0 is None) != (ad2 is None) or (ad0 is not None and (ad0.shape != ad2.shape or not torch.equal(ad0, ad2))):
                res.update(ok=False, sig=cell, detail="%s%s: active_dims was %s, the new kernel has %s" % (
                    desc, who, None if ad0 is None else ad0.tolist(), None if ad2 is None else (ad2.tolist() if ad2.dim() else "scalar tensor(%d)" % int(ad2))))
            elif bs2 != tuple(oref.shape[:-2]):
                res.update(ok=False, sig=cell, detail="%s%s: new kernel has batch_shape %s, expected %s" % (desc, who, list(bs2), list(oref.shape[:-2])))
            else:
                for lazy in (True, False):
                    with gpytorch.settings.lazily_evaluate_kernels(lazy):
                        ok3, val = core.guarded(lambda: dense_of(k2(a1, a2)))
                    if not ok3:
                        res.update(ok=False, sig=cell, detail="%s%s: the new kernel cannot be evaluated on the matching inputs: %s" % (desc, who, val))
                        break
                    okc, kind, msg = compare(torch, val, oref, exact=(kn == "stub"))
                    if not okc:
                        res.update(ok=False, sig=cell, detail="%s%s: new kernel on the matching inputs differs from the indexed / expanded dense matrix: %s" % (desc, who, msg))
                        break
        if kn == "stub":
            stub_ok = res["ok"]
        if kn == "stub" and res["ok"] != bool(h["agree"]):
            res["drift_kind"] = "refuted" if res["ok"] else "unpredicted"
            res["drift"] = "LazyKernel.tla predicts %s for %s but the stub kernel %s" % ("agreement" if h["agree"] else "a mismatch", desc, "agrees" if res["ok"] else "fails")
        if not res["ok"]:
            res["case"] = dict(kind="state", cfg=cfg, pat=[list(x) for x in pat], hist=hist, kernel=kn, fam=fam, geo=geo)
        out.append(res)
        pr = pure_result(torch, cfg, pat, hist, kn, False, key0, stub_pure, res, dpat=dpat, fam=fam, geo=geo)
        out.extend(pr)
        if kn == "stub":
            stub_pure = not pr
    return out


def to_py(v):
    if isinstance(v, dict):
        return {k: to_py(x) for k, x in v.items()}
    if isinstance(v, (tuple, list)):
        return [to_py(x) for x in v]
    if isinstance(v, tlaval.Sym):
        return str(v)
    return v


_HDR = re.compile(r"^State \d+:.*$", re.M)


def _state_worker(item):
    torch = core.setup_torch()
    cfg, thorough = item["cfg"], item["thorough"]
    out = []
    for _, st in tlaval.parse_dump(item["text"]):
        hist = to_py(st["hist"])
        if not hist:
            continue
        pat = to_py(st["pat"])
        geo = to_py(st["geo"])
        last = hist[-1]
        names = ["stub"]
        fam = str(st["fam"])
        if not last["eerr"] and fam != "geo":  # (the real kernels see every geometry in the zoo section)
            real = real_names(cfg, thorough)
            if real:
                if fam in ("ops", "kern", "chain") or (thorough and fam in ("bx", "bf", "be")):
                    names += real
                else:
                    hsh = int(core.digest([pat, [[h["op"], h["idx"], h["arg"]] for h in hist]]), 16)
                    m = 2 if not thorough else 4
                    m = min(m, len(real))  # m kernels, evenly spaced in the list from a case-dependent start
                    names += [real[(hsh + (j * len(real)) // m) % len(real)] for j in range(m)]
        res = replay_state(torch, cfg, pat, hist, list(dict.fromkeys(names)), thorough, fam, geo, env=to_py(st["env"]))
        for r in res:
            r["br"] = [str(x) for x in last["br"]] + [str(last["path"])]
            r["predicted"] = bool(last["agree"]) or bool(last["eerr"])
            r["cls"] = "%s:%s" % (last["op"] if last["op"] != "getitem" else "getitem", last["cls"])
        out.extend(res)
    return out


# ------------------------------------------------------------------------------------------------------------------
# metamorphic relations on the zoo, per broadcast pattern
def symmetry_probe(torch, z, k, x1, x2, E, pat, desc):
    """Vacuity guard of 'pairwise distinct parameters': the distinct ARD components / batch elements are VISIBLE in the matrix
    (otherwise a relation could hold by symmetry and a permuted / mis-indexed parameter would go unnoticed)."""
    import gpytorch
    PB, D1, D2 = [tuple(x) for x in pat]
    out = []
    with gpytorch.settings.lazily_evaluate_kernels(False):
        if z.ard and not PB and not D1 and not D2:
            perm = torch.arange(x1.shape[-1] - 1, -1, -1)
            ok, Ep = core.guarded(lambda: dense_of(k(x1[..., perm], x2[..., perm])))
            if ok and float((Ep - E).abs().max()) < 1e-6:
                out.append(dict(key=["zoo", z.name, "probe-ard"], ok=True, nontrivial=False, vacuous="%s: reversing the input columns does not change the matrix: the per-dimension parameters are not distinguishable" % desc))
        if PB and not D1 and not D2:
            flat = E.reshape(-1, *E.shape[-2:])
            gap = min(float((flat[i] - flat[j]).abs().max()) for i in range(flat.shape[0]) for j in range(i))
            if gap < 1e-6:
                out.append(dict(key=["zoo", z.name, "probe-batch"], ok=True, nontrivial=False, vacuous="%s: two batch elements of the parameter batch give the same matrix on the same data" % desc))
    return out


def diag_probe(torch, z, k, x1, Exx, pat, desc):
    """Vacuity guard of the declared diagonal class (CONSTANT Zoo of LazyKernel.tla, ZooDiagCover): a kernel declared 'varying' has a diagonal
    k(x, x) that differs between the points of the generic data, output by output."""
    if not z.dvar or any(tuple(x) for x in pat):
        return []
    if z.struct == "inducing":
        import gpytorch
        with gpytorch.settings.lazily_evaluate_kernels(False), gpytorch.settings.sgpr_diagonal_correction(False):
            Exx = dense_of(k(x1, x1))
    d = Exx.diagonal(dim1=-1, dim2=-2).reshape(-1, z.t)
    spread = float(((d.max(0).values - d.min(0).values) / d.abs().max().clamp_min(1e-300)).max())
    if spread < 1e-3:
        return [dict(key=["zoo", z.name, "probe-diag"], ok=True, nontrivial=False, vacuous="%s: declared to have a diagonal that varies over the points, but k(x, x) is constant (relative spread %.1e)" % (desc, spread))]
    return [dict(key=["zoo", z.name, "probe-diag"], ok=True, nontrivial=False)]


def _zoo_worker(item):
    import gpytorch
    from checks import c06_kernels as kz
    from checks import c06_pure as cp
    torch = core.setup_torch()
    z = kz.by_name(item["kernel"])
    out = []
    t = z.t
    as_built = ("eval" if z.eval_mode else "train", "on", "on")
    n1, n2 = 2, 3  # n1 equals the parameter batch size 2 on purpose (shape heuristics must not confuse a batch with a matrix axis)
    for ip, pat in enumerate(item["pats"]):
        PB, D1, D2 = [tuple(x) for x in pat]
        if PB and not z.batch:
            continue
        geos = item["geos_by_pat"][ip] if item.get("geos_by_pat") else (item.get("geos") or [None])
        for use_ad in (False, True):
            if (use_ad and not z.ad) or item.get("only_ad", use_ad) != use_ad:
                continue
            ad = kz.AD if use_ad else None
            sd = kz.seed_of("zoo", z.name, PB, D1, D2, use_ad, item["seed"])
            okb, k = core.guarded(lambda: kz.build(z, PB, ad, sd))
            if not okb:
                raise core.Machinery("cannot construct %s with batch %s active_dims %s: %s" % (z.name, PB, ad, k))
            fail0 = set()  # relations that fail on generic data (the first geometry, None) for this kernel, pattern, active_dims
            envs = [None] + [list(e) for e in ((item["envs_by_pat"][ip] if item.get("envs_by_pat") else item.get("envs")) or []) if e and tuple(e) != as_built]
            faildef = set()  # (geometry, relation) that fail in the environment the kernel is built in
            # (every geometry in the environment the kernel is built in; generic rows and the first geometry in the others)
            for env, geo in [(e, g) for e in envs for g in (geos if e is None else geos[:2])]:
                with zoo_env(k, env):
                    n1, n2 = (len(geo[0]), len(geo[1])) if geo else (2, 3)
                    if geo:
                        # the points of the geometry realised in the input space of this kernel (equal ids = equal rows, also across x1 / x2)
                        okg, xx = core.guarded(lambda: (kz.geo_inputs(z, k, ad, D1, list(geo[0]), sd + 1), kz.geo_inputs(z, k, ad, D2, list(geo[1]), sd + 1)))
                        if not okg:
                            raise core.Machinery("cannot realise the geometry %s for %s: %s" % (geo, z.name, xx))
                        x1, x2 = xx
                    else:
                        x1, x2 = kz.inputs(z, D1, n1, sd + 1), kz.inputs(z, D2, n2, sd + 2)
                    desc = "%s param-batch=%s x1:%s x2:%s%s%s" % (z.name, list(PB), list(D1) + [n1, 3], list(D2) + [n2, 3], " active_dims=%s" % list(ad) if ad else "",
                                                                  " geometry %s" % show_geo(geo) if geo else "") + (" {under %s}" % env_name(env) if env else "")
                    gk_ = ([int(i) for i in geo[0]] + [-1] + [int(i) for i in geo[1]] if geo else []) + (["env:" + env_name(env)] if env else [])
                    B = bshape(PB, D1, D2)
                    bp = "unbatched" if not B else ("aligned" if D1 == D2 == PB else "broadcast(%s)" % ",".join(n for n, s in (("param", PB), ("x1", D1), ("x2", D2)) if s != B))
                    with gpytorch.settings.lazily_evaluate_kernels(False):
                        ok, E = core.guarded(lambda: dense_of(k(x1, x2)))
                        ok2, Exx = core.guarded(lambda: dense_of(k(x1, x1)))
                    if not ok or not ok2:
                        out.append(dict(key=["zoo", z.name, pat, use_ad, gk_, "not-evaluable"], ok=True, nontrivial=False, skipped="%s: eager evaluation raises (%s): outside the kernel's domain, not decided here" % (desc, E if not ok else Exx)))
                        if env and ok2 and z.diag:
                            # a kernel that is defined for x1 == x2 only in this environment (the SGPR kernel in train mode): the diagonal relations
                            dref = Exx.diagonal(dim1=-1, dim2=-2)
                            for nm, lzy, fn in (("diag=True", True, lambda: dense_of(k(x1, x1, diag=True))), ("diag=True(eager)", False, lambda: dense_of(k(x1, x1, diag=True))),
                                                ("K.diagonal()", True, lambda: k(x1, x1).diagonal())):
                                with gpytorch.settings.lazily_evaluate_kernels(lzy):
                                    okf, got = core.guarded(fn)
                                r = dict(key=["zoo", z.name, [list(x) for x in pat], use_ad, gk_, nm], ok=True, nontrivial=True)
                                okc, msg = (False, "raised %s" % got) if not okf else compare(torch, got, dref, exact=False, tol=TOL_CUSP if (geo and z.cusp) else TOL)[::2]
                                if not okc:
                                    r.update(ok=False, sig="C06/zoo/%s/%s/env:%s" % (nm, z.name, env_name(env)), detail="%s [%s]: %s: %s" % (desc, bp, nm, msg),
                                             case=dict(kind="zoo", kernel=z.name, pats=[[list(x) for x in pat]], geos=[None, geo] if geo else [None], envs=[env], seed=item["seed"]))
                                out.append(r)
                        continue
                    fp0 = cp.fingerprint(torch, k)
                    if item.get("probe") and not use_ad and not geo and not env:
                        out.extend(symmetry_probe(torch, z, k, x1, x2, E, pat, desc))
                        out.extend(diag_probe(torch, z, k, x1, Exx, pat, desc))

                    def rel(name, fn, want, nontrivial=True):
                        r = dict(key=["zoo", z.name, [list(x) for x in pat], use_ad, gk_, name], ok=True, nontrivial=nontrivial)
                        okf, got = core.guarded(fn)
                        # a relation that fails for the plain RBF kernel on the same pattern and geometry is not specific to this kernel; one that
                        # holds for this kernel on generic data and fails on a geometry is decided by the special rows
                        cell = "C06/zoo/%s/%s" % (name, "any-kernel" if name in generic_fail(pat, use_ad, item["seed"], geo, env) else z.name)
                        if geo and geos[0] is None and name not in fail0:
                            cell += "/special-rows"
                        # ... and one that holds in the environment the kernel was built in (same pattern, same rows) and fails in this one is
                        # decided by the mode / the settings
                        if env and (repr(geo), name) not in faildef:
                            cell += "/env:" + env_name(env)
                        if not okf:
                            r.update(ok=False, sig=cell, detail="%s [%s]: %s raised %s" % (desc, bp, name, got))
                        else:
                            okc, kind, msg = compare(torch, got, want, exact=False, tol=TOL_CUSP if (geo and z.cusp) else TOL)
                            if not okc:
                                r.update(ok=False, sig=cell, detail="%s [%s]: %s (%s): %s" % (desc, bp, name, kind, msg))
                        if not r["ok"]:
                            r["case"] = dict(kind="zoo", kernel=z.name, pats=[[list(x) for x in pat]], geos=[None, geo] if geo else [None], envs=[env] if env else [], seed=item["seed"])
                            if not geo and not env:
                                fail0.add(name)
                            if not env:
                                faildef.add((repr(geo), name))
                        elif name == "lazy-vs-eager" and not use_ad:
                            r["sample"] = dict(case=desc, relation=name)
                        out.append(r)

                    def lazy(f):
                        def g():
                            with gpytorch.settings.lazily_evaluate_kernels(True):
                                return dense_of(f())
                        return g
                    rel("lazy-vs-eager", lazy(lambda: k(x1, x2)), E)
                    rel("lazy-shape", lambda: torch.zeros(lazy_shape(k, x1, x2)), torch.zeros(E.shape), nontrivial=bool(B))
                    with gpytorch.settings.lazily_evaluate_kernels(False):
                        ok21, E21 = core.guarded(lambda: dense_of(k(x2, x1)))
                    if not ok21:
                        out.append(dict(key=["zoo", z.name, pat, use_ad, gk_, "swap-not-evaluable"], ok=True, nontrivial=False,
                                        skipped="%s: eager evaluation of kernel(x2, x1) raises (%s) although kernel(x1, x2) works: transposition not decided" % (desc, E21)))
                    elif z.sym:
                        rel("transpose", lambda: E21.mT, E)
                        rel("lazy-mT", lazy(lambda: k(x1, x2).mT), E.mT)
                    if z.diag:
                        dref = Exx.diagonal(dim1=-1, dim2=-2)
                        for lz in (True, False):
                            def dg(lz=lz):
                                with gpytorch.settings.lazily_evaluate_kernels(lz):
                                    return dense_of(k(x1, x1, diag=True))
                            rel("diag=True" if lz else "diag=True(eager)", dg, dref)

                        def kd():
                            with gpytorch.settings.lazily_evaluate_kernels(True):
                                return k(x1, x1).diagonal()
                        rel("K.diagonal()", kd, dref)
                        # ... for every RELATION between the two inputs (Diag12 of LazyKernel.tla): an equal copy of x1, and another tensor with as many rows
                        # (the first n1 rows of x2: paired by broadcasting when the batch shapes differ), in every request form
                        xc, xh = x1.clone(), x2[..., :n1, :].clone()
                        with gpytorch.settings.lazily_evaluate_kernels(False):
                            okh, E1h = core.guarded(lambda: dense_of(k(x1, xh)))
                        fc, fh = diag_forms(torch, k, x1, xc), diag_forms(torch, k, x1, xh)
                        for nm, (fname, fn) in (("pair(clone):diag=True", fc[0]), ("pair(clone):K.diagonal()", fc[2]), ("pair(clone):forward(diag=True)", fc[3])):
                            rel(nm, lambda fn=fn, fname=fname: fit_forward(torch, fname, fn(), dref), dref)
                        rel("pair(same):forward(diag=True)", lambda: fit_forward(torch, "forward", diag_forms(torch, k, x1, x1)[3][1](), dref), dref)
                        if okh:
                            href = E1h.diagonal(dim1=-1, dim2=-2)
                            okr, gotr = core.guarded(fh[0][1])
                            if not okr and REFUSAL in str(gotr) and z.struct == "grad":
                                out.append(dict(key=["zoo", z.name, pat, use_ad, gk_, "diag-x1!=x2-refused"], ok=True, nontrivial=False))
                            else:
                                for nm, (fname, fn) in zip(["pair(%s):%s" % ("bcast" if D1 != D2 else "rows", f) for f in ("diag=True", "diag=True(eager)", "K.diagonal()", "forward(diag=True)")], fh):
                                    rel(nm, lambda fn=fn, fname=fname: fit_forward(torch, fname, fn(), href), href)
                    if z.stack:
                        xs = torch.cat([x1.expand(*B, n1, x1.shape[-1]), x2.expand(*B, n2, x2.shape[-1])], -2)
                        for lz in (True, False):
                            def st(lz=lz):
                                with gpytorch.settings.lazily_evaluate_kernels(lz):
                                    S = k(xs, xs)
                                    return dense_of(S[..., : n1 * t, n1 * t:]) if lz else dense_of(S)[..., : n1 * t, n1 * t:]
                            rel("stacked-block" if lz else "stacked-block(eager)", st, E)
                        if z.diag and geo:
                            # every row of the geometry on one diagonal
                            with gpytorch.settings.lazily_evaluate_kernels(False):
                                okS, Ess = core.guarded(lambda: dense_of(k(xs, xs)))
                            if okS:
                                for lz in (True, False):
                                    def dgs(lz=lz):
                                        with gpytorch.settings.lazily_evaluate_kernels(lz):
                                            return dense_of(k(xs, xs, diag=True))
                                    rel("diag=True(stacked)" if lz else "diag=True(stacked,eager)", dgs, Ess.diagonal(dim1=-1, dim2=-2))

                                def kds():
                                    with gpytorch.settings.lazily_evaluate_kernels(True):
                                        return k(xs, xs).diagonal()
                                rel("K.diagonal()(stacked)", kds, Ess.diagonal(dim1=-1, dim2=-2))
                    # slices WITHOUT an explicit stop on the other axis (the default stop is the size of that axis)
                    rel("lazy-rows", lazy(lambda: k(x1, x2)[..., 0:t, :]), E[..., 0:t, :])
                    rel("lazy-cols", lazy(lambda: k(x1, x2)[..., :, t:]), E[..., :, t:])
                    # derived objects that own a NEW kernel object: a batch index on the lazy tensor, kernel[i]; the value of K[i] is judged
                    # where the parameter batch is aligned with the output batch (the unaligned forms are classes of LazyKernel.tla)
                    if B:
                        with gpytorch.settings.lazily_evaluate_kernels(True):
                            Kb = k(x1, x2)  # created before the derivation, evaluated after it
                        if len(PB) in (0, len(B)):
                            rel("lazy-batch-int", lazy(lambda: Kb[B[0] - 1]), E[B[0] - 1])
                            rel("lazy-batch-tensor", lazy(lambda: Kb[torch.tensor([B[0] - 1, 0])]), E[torch.tensor([B[0] - 1, 0])])
                        else:
                            core.guarded(lambda: Kb[B[0] - 1])
                        if PB:
                            core.guarded(lambda: k[PB[0] - 1])
                            core.guarded(lambda: k.expand_batch(torch.Size((2,) + PB)))
                        rel("pure(K.to_dense() after K[i])", lambda: dense_of(Kb), E)
                        if len(PB) in (0, len(B)):
                            rel("pure(K[0] after K[i])", lazy(lambda: Kb[0]), E[0])
                    # ... and after everything above (lazy tensors, transposes, diagonals, slices, batch indices): the kernel object is what
                    # it was and evaluates to the same matrix
                    def again():
                        with gpytorch.settings.lazily_evaluate_kernels(False):
                            return dense_of(k(x1, x2))
                    rel("pure(kernel(x1,x2) again)", again, E)
                    d1 = cp.fp_diff(torch, fp0, cp.fingerprint(torch, k))

                    def fp_same():
                        if d1:
                            raise RuntimeError("the kernel object changed: " + d1)
                        return torch.zeros(1)
                    rel("pure(kernel object)", fp_same, torch.zeros(1), nontrivial=False)
                    if d1:  # the relations below - and the remaining geometries, which share this kernel object - would only repeat the corruption
                        break
                    if use_ad:
                        # active_dims reads back as given (order included), wherever the zoo entry puts it
                        def readback():
                            bufs = [m.active_dims for m in k.modules() if getattr(m, "active_dims", None) is not None]
                            return torch.stack([b.double() for b in bufs]) if bufs else torch.zeros(0)
                        rel("active_dims-readback", readback, torch.tensor(ad, dtype=torch.float64).expand(len([m for m in k.modules() if getattr(m, "active_dims", None) is not None]), len(ad)))
                        k2 = kz.twin(z, PB, sd, k)
                        A = torch.tensor(ad)
                        rel("active_dims-twin", lazy(lambda: k2(x1[..., A], x2[..., A])), E)
    return out


_GEN = {}


def generic_fail(pat, use_ad, seed, geo=None, env=None):
    """names of the zoo relations that fail for the reference kernel (RBF) on this pattern (and geometry, and environment)"""
    if env and tuple(env) == ENV_DEFAULT:
        env = None  # (the environment the reference kernel is built in)
    key = (repr(pat), use_ad, seed, repr(geo), repr(env))
    if key not in _GEN:
        _GEN[key] = set()  # (set before the recursive call: the reference run itself sees an empty set)
        res = _zoo_worker(dict(kernel="RBF", pats=[pat], geos=[geo], envs=[env] if env else [], seed=seed, only_ad=use_ad))
        _GEN[key] = {r["key"][-1] for r in res if not r.get("ok", True) and (not env or "env:" + env_name(env) in r["key"][-2])}
    return _GEN[key]


def lazy_shape(k, x1, x2):
    import gpytorch
    with gpytorch.settings.lazily_evaluate_kernels(True):
        return tuple(k(x1, x2).shape)


def _run_tlc(jobs):
    par = int(os.environ.get("VERIF_C06_TLC_PAR", "14"))
    if not os.environ.get("VERIF_C06_REUSE"):
        return tlc.run_many(jobs, parallel=par)
    # development only: reuse the dumps of an earlier --keep-build run
    out, todo = [None] * len(jobs), []
    for i, (a, k) in enumerate(jobs):
        work = os.path.join(tlc.BUILD, k["name"])
        if os.path.exists(os.path.join(work, "states.dump")) and os.path.exists(os.path.join(work, "tlc.out")):
            r = tlc.TLCResult()
            r.workdir, r.dump_path, r.rc = work, os.path.join(work, "states.dump"), 0
            with open(os.path.join(work, "tlc.out")) as f:
                r.stdout = f.read()
            m = None
            for m in tlc._STATS.finditer(r.stdout):
                pass
            if m:
                r.generated, r.distinct = int(m.group(1)), int(m.group(2))
            vm = re.search(r"Error: Invariant (\w+) is violated", r.stdout)
            if vm:
                r.violation = dict(kind="invariant", name=vm.group(1), trace=[])
            out[i] = r
        else:
            todo.append(i)
    for i, r in zip(todo, tlc.run_many([jobs[i] for i in todo], parallel=par)):
        out[i] = r
    return out


# ------------------------------------------------------------------------------------------------------------------
def run(ck):
    thorough = ck.tier == "thorough"
    core.setup_torch()
    import gpytorch  # noqa: F401  (imported before forking)
    from checks import c06_kernels as kz
    ck.rule = ("cases = TLC-enumerated (broadcast pattern, outputs-per-input t, operation): every index expression of the families rs/cs (all slices "
               "with start/stop in -(n+2)..n+2 or None, step None/1/2/3 on one matrix axis, [..., s, s] fast path), ss, ix (ints incl. out of range), lx (1-d "
               "index tensors, zipped pairs), el (ellipsis placements), bx/be/bf (ints, slices, index tensors on the batch axes x representative "
               "matrix indices), chains K[i][j], transpose / unsqueeze / repeat / diagonal, kernel[idx] / expand_batch; each executed on the label stub "
               "(exact) and on zoo kernels (1e-10, rows = the points of DataGeo: origin, unit, rows shared by x1 and x2); plus (broadcast pattern x data geometry x "
               "relation) of the geo runs on the stub (exact; equal points = equal labels); plus zoo kernel x broadcast pattern x geometry (generic random rows "
               "and every TLC-enumerated geometry: origin / unit / lattice rows, coincident rows, rows shared by x1 and x2, realised per kernel) x relation "
               "(lazy-vs-eager, transpose, diag, diag of the stacked input, stacked block, active_dims twin, batch index, purity of the kernel object; the diagonal of kernel(x1, xr) for every relation of "
               "LazyKernel.tla Diag12 - xr the same tensor / an equal copy / the first n1 rows of x2 (another tensor, paired by broadcasting when the batch shapes differ) - x request form: "
               "diag=True lazy and eager, .diagonal() of the lazy tensor, kernel.forward(diag=True)), and on the aligned patterns x "
               "{generic rows, first geometry} x every TLC-enumerated environment (train / eval mode, sgpr_diagonal_correction, use_toeplitz: a pairwise covering family) again every relation; plus every KernelPure.tla history evaluate -> derive -> evaluate the ORIGINAL "
               "again (structures plain / Scale / Additive / Product / nested, label and real compositions) and diag-layout case (n, d, order) decoded "
               "on the ARD derivative kernels.  non-trivial = valid operation whose result is non-empty and differs from the untouched tensor (index selects a "
               "proper subset or reshapes); distinct = distinct (configuration, operation, kernel)")
    ck.assumptions = ["float64, 1 thread, seeded hyperparameters distinct per batch element; tolerance 1e-10 relative+absolute against the dense matrix of the same kernel object",
                      "index expressions invalid for the shape (torch raises on the dense matrix) are enumerated but give no verdict (the property quantifies over valid expressions)",
                      "index tensors are 1-d LongTensors in adjacent positions (the forms numpy and torch agree on); steps are positive",
                      "last_dim_is_batch (deprecated) is not exercised; KeOps / CUDA kernels are outside the domain",
                      "a (kernel, pattern) whose EAGER dense evaluation itself raises is outside the kernel's domain and is skipped (batch-mode support is C08's question)",
                      "the diagonal is requested for every relation between x1 and x2 (the same tensor, an equal copy, another tensor with the same number of rows, batch shapes that broadcast) "
                      "in every request form (kernel(x1, x2, diag=True) lazy / eager, kernel(x1, x2).diagonal(), kernel.forward(.., diag=True), whose result may be left unexpanded); the derivative "
                      "kernels refuse x1 != x2 explicitly (RuntimeError 'diag=True only works when x1 == x2', the documented precondition): not decided for them, any other raise is a failure",
                      "a relation is stated between two readings under the SAME environment (mode of the kernel object, sgpr_diagonal_correction, use_toeplitz, both set before either side is "
                      "evaluated); a lazy tensor created under one environment and evaluated under another is not decided; the environments of the zoo are a family containing every pair of "
                      "setting values (not every triple) on the aligned broadcast patterns",
                      "the diagonal class of a zoo kernel (varying / constant over the points) is declared in c06_kernels.STRUCT and probed on generic unbatched data (the SGPR kernel with the "
                      "diagonal correction off); multi-output x SGPR compositions are not in the zoo (their sub-block cells would repeat the known InducingPoint finding under new names)",
                      "zoo relations of the Matern-1/2 kernel (not differentiable at distance 0) on geometries are compared to 1e-6: between two rows that are the same point the rounding error "
                      "of the squared distance enters with its square root (1e-8 / lengthscale) and differs between two calls",
                      "the Hamming kernel is defined on one-hot rows: its origin is realised as the first word of the vocabulary (on an all-zero row k(x, x) depends on torch.equal(x1, x2), outside the domain); "
                      "special points are points of the kernel's domain: a (kernel, pattern, geometry) whose eager evaluation raises is skipped like any other input outside the domain; "
                      "the unit point of the cylindrical kernel has no zero coordinate (the kernel jitters zero coordinates, which moves a boundary point with a zero coordinate outside the ball)",
                      "purity is judged on what an evaluation can observe: parameters, buffers, batch shapes, module tree of the original kernel object and its matrix / diagonal evaluated again (not object identity of members, not the distance_module cache)",
                      "the diag layout is decoded against the closed-form diagonal entries of the derivative kernels (RBF: 1, 1/l_a^2, 3/l_a^4; Matern-5/2: 1, 5/(3 l_a^2); polynomial: derivative of (x.x'+c)^p), every instance with pairwise distinct parameters",
                      "linear_operator's conversion of mixed indices to index tensors (_convert_indices_to_tensors) is modelled as numpy-correct"]
    ck.exhaustive = True
    wd = os.path.join(tlc.BUILD, PID, "mc")
    P = plan(thorough)
    only = os.environ.get("VERIF_C06_ONLY")  # development: a regex selecting TLC runs
    if only:
        P = [r for r in P if re.search(only, r["name"])]
    def job(r, pure):
        # gen: the generation run (dump) checks AgreeExceptKnown, which holds on the model of the pinned code, and the
        # structural invariants; pure: the same state space under the plain invariant Agree, no dump - TLC stops at the first
        # case where the model of the current code deviates (the prediction)
        if pure:
            # a small part of the run's jobs is enough to exhibit a counterexample (int / batch-index / operation families first)
            jj = sorted(r["jobs"], key=lambda j: 0 if j[1] in ("ix", "bx", "bf", "ops", "kern", "chain") else 1)[:2]
            rr = dict(r, inv=["Agree"], jobs=jj, chunks=r["chunks"][:1])
        else:
            rr = dict(r, inv=["AgreeExceptKnown" if i == "Agree" else i for i in r["inv"]])
        mod, cfg = write_mc(os.path.join(wd, "pure" if pure else "gen"), rr)
        return ((mod, cfg), dict(name=PID + ("/pure_" if pure else "/gen_") + r["name"], timeout=3000, dump=not pure, check=False, workers=r["workers"] if not pure else 2,
                                 coverage=False, heap="4g", java_opts=("-XX:ParallelGCThreads=2", "-XX:CICompilerCount=2")))
    t0 = os.times()
    PP = [r for r in P if "Agree" in r["inv"]]
    from checks import c06_pure as cp
    KP, kpjobs = cp.jobs(thorough)
    if only:
        keep = [i for i, r in enumerate(KP) if re.search(only, "kp_" + r["name"])]
        KP, kpjobs = [KP[i] for i in keep], [kpjobs[i] for i in keep]
    allres = _run_tlc([job(r, False) for r in P] + [job(r, True) for r in PP] + kpjobs)
    results, pures, kpres = allres[:len(P)], allres[len(P):len(P) + len(PP)], allres[len(P) + len(PP):]
    predicted = {}
    for r, res in zip(PP, pures):
        ck.add_tlc(res, "pure_" + r["name"])
        if res.violation is not None and res.violation["name"] == "Agree":
            tr = res.violation.get("trace") or []
            h = (tr[-1][1].get("hist") or [None])[-1] if tr else None
            predicted[r["name"]] = describe(dict(r, tails=r["tails"], ad=list(r["ad"])), to_py(tr[-1][1]["pat"]), to_py(tr[-1][1]["hist"])) if h else "?"
        elif res.rc != 0 or res.violation is not None:
            raise tlc.TLCError("TLC failed on the Agree run of %s:\n%s" % (r["name"], res.stdout[-1500:]))
    for r, res in zip(P, results):
        ck.add_tlc(res, r["name"])
        if res.violation is not None:
            raise tlc.TLCError("LazyKernel.tla: %s violated on %s (a defect of the specification: a deviation outside the known classes):\n%s" % (
                res.violation["name"], r["name"], res.stdout[-2500:]))
        if res.rc != 0:
            raise tlc.TLCError("TLC failed on %s:\n%s" % (r["name"], res.stdout[-1500:]))
    t1 = os.times()
    ck.extra["cpu_seconds"] = dict(tlc=round(t1.children_user + t1.children_system - t0.children_user - t0.children_system, 1))
    items, patterns, geopairs, envs_of = [], [], [], {}
    for i, (r, res) in enumerate(zip(P, results)):
        with open(res.dump_path) as f:
            text = f.read()
        hdrs = [m.start() for m in _HDR.finditer(text)]
        if r["name"] == "patterns":
            for _, st in tlaval.parse_dump(text):
                patterns.append(to_py(st["pat"]))
            ck.section("patterns", enumerated=len(patterns))
            continue
        ninit = text.count("hist = <<>>")
        if r["name"] in ("geo", "geom"):
            # the (broadcast pattern, geometry) pairs of the zoo section: the initial states of these runs
            for _, st in tlaval.parse_dump(text):
                if not st["hist"]:
                    geopairs.append((to_py(st["pat"]), to_py(st["geo"])))
                    if r["name"] == "geo" and to_py(st["env"]) not in envs_of.setdefault(repr(to_py(st["pat"])), []):
                        envs_of[repr(to_py(st["pat"]))].append(to_py(st["env"]))
            ck.section("geometry", pattern_geometry_pairs=sum(1 for _, st in tlaval.parse_dump(text) if not st["hist"]), geometries=len(r["geos"]))
        if len(hdrs) <= (ninit if r["jobs"] is None else len(r["jobs"]) * len(r["chunks"]) * max(1, len(r["geos"]) if r["geos"] != "all" else 1)):
            ck.vacuous("TLC run %s generated no case" % r["name"])
        ck.section("gen", runs=1, states=len(hdrs))
        step = 120
        cfgd = dict(name=r["name"], n1=r["n1"], n2=r["n2"], t=r["t"], tails=[list(x) for x in r["tails"]], ad=list(r["ad"]))
        for i0 in range(0, len(hdrs), step):
            j = hdrs[i0 + step] if i0 + step < len(hdrs) else len(text)
            items.append(dict(cfg=cfgd, thorough=thorough, text=text[hdrs[i0]:j]))
    # the model of the tree (Repairs = REPAIRS_IN_TREE) still violates the plain invariant where a known finding is not repaired:
    # first counterexample per run, for the record (the replay decides every predicted case)
    ck.extra["agree_counterexamples"] = predicted
    ck.extra["repairs_in_tree"] = list(REPAIRS_IN_TREE)
    results = core.pmap(_state_worker, items, chunksize=1)
    # branch coverage of the transcribed case analysis (vacuity guard) and prediction accounting
    seen, conf, unpred, pess = set(), 0, 0, 0
    for r in results:
        if r.get("machinery"):
            continue
        seen.update(r.get("br", []))
        if "predicted" in r and r["key"][-1] == "stub":
            if not r["ok"] and not r["predicted"]:
                conf += 1
            elif not r["ok"]:
                unpred += 1
            elif not r["predicted"]:
                pess += 1
    need = ["diag11", "diagstack", "stack", "diag12", "rel:same", "rel:clone", "rel:rows", "rel:bcast", "shortcut-agrees", "shortcut-differs", "fast", "getitem", "squeeze", "absorbed", "t1", "mt-divided", "mt-nonslice", "mt-step", "mt-indivisible", "x-direct", "x-expanded", "k-same", "k-getitem",
            "k-expanded", "ad-kept"] + (["ad-changed"] if "active_dims_buffer" not in REPAIRS_IN_TREE else []) + ["transpose", "unsqueeze", "repeat", "diagonal", "kgetitem", "kexpand", "dense"]
    for b in need:
        if b not in seen and not only:
            ck.vacuous("branch %r of the transcribed code was never taken by a replayed case" % b)
    ck.extra["branches_replayed"] = sorted(seen)
    ck.extra["stub_predictions"] = dict(predicted_mismatch_confirmed=conf, mismatch_not_predicted=unpred, predicted_mismatch_not_observed=pess)
    # A prediction refuted by the real code means a repair landed - unless other cases of the same class still fail: then the
    # agreement is a coincidence of values inside an unrepaired class (e.g. a mis-indexed parameter that happens to be the right one)
    still_failing = {r.get("cls") for r in results if not r.get("machinery") and r["key"][-1] == "stub" and not r.get("ok", True)}
    refuted = [r["drift"] for r in results if r.get("drift_kind") == "refuted" and r.get("cls") not in still_failing]
    coincid = [r["drift"] for r in results if r.get("drift_kind") == "refuted" and r.get("cls") in still_failing]
    unpredicted = [r["drift"] for r in results if r.get("drift_kind") == "unpredicted"]
    for r in results:
        r.pop("drift", None)
        r.pop("drift_kind", None)
        r.pop("cls", None)
    ck.extra["coincidental_agreement_inside_failing_class"] = dict(count=len(coincid), examples=coincid[:3])
    if refuted:
        ck.model_drift("%d case(s) LazyKernel.tla (Repairs = %s) predicts to fail pass on the real code and no case of their class fails any more: a repair is in "
                       "the tree, add its name to REPAIRS_IN_TREE in checks/c06.py" % (len(refuted), list(REPAIRS_IN_TREE)))
        for d in refuted[:int(os.environ.get("VERIF_C06_DRIFTS", "3"))]:
            ck.model_drift(d)
    # failures the model does not predict are reported by the oracle as cells of their own (linear_operator refusing empty
    # selections, [-1] on an evaluated operator in a chain); recorded here, not drift of a repaired class
    ck.extra["failures_not_predicted_by_model"] = dict(count=len(unpredicted), examples=unpredicted[:5])
    ck.section("replay", cases=len(results))
    t2 = os.times()
    ck.extra["cpu_seconds"]["replay"] = round(t2.children_user + t2.children_system - t1.children_user - t1.children_system, 1)
    # the history dimension: KernelPure.tla (evaluate -> derive -> evaluate the original again; diag layout)
    pitems, certs = [], {}
    for r, res in zip(KP, kpres):
        ck.add_tlc(res, "kp_" + r["name"])
        if res.violation is not None:
            raise tlc.TLCError("KernelPure.tla: %s violated on the model of the code (a defect of the specification, or the copy discipline of the code changed):\n%s" % (
                res.violation["name"], res.stdout[-2500:]))
        if res.rc != 0:
            raise tlc.TLCError("TLC failed on kp_%s:\n%s" % (r["name"], res.stdout[-1500:]))
        with open(res.dump_path) as f:
            text = f.read()
        hdrs = [m.start() for m in _HDR.finditer(text)]
        ck.section("pure", runs=1, states=len(hdrs))
        for i0 in range(0, len(hdrs), 60):
            j = hdrs[i0 + 60] if i0 + 60 < len(hdrs) else len(text)
            pitems.append(dict(text=text[hdrs[i0]:j], thorough=thorough, seed=ck.seed))
        for m in r["muts"]:
            if m != "code":
                certs.setdefault(m, 0)
    pres = core.pmap(cp.worker, pitems, chunksize=1)
    for r in [r for r in pres if "cert" in r]:
        certs[r["cert"]] = certs.get(r["cert"], 0) + (1 if r["broken"] else 0)
    pres = [r for r in pres if "cert" not in r]
    for m, nbroken in sorted(certs.items()):
        if nbroken == 0:
            ck.vacuous("KernelPure.tla: no enumerated history distinguishes the mutant model %r from the code (Pure / LayoutOK hold on it)" % m)
    ck.extra["mutant_models_rejected"] = dict(sorted(certs.items()))
    npure = sum(1 for r in pres if not r.get("machinery") and r["key"][0] == "pure")
    nlay = sum(1 for r in pres if not r.get("machinery") and r["key"][0] == "lay")
    if KP and (npure == 0 or (nlay == 0 and any(r["lay"] for r in KP))):
        ck.vacuous("KernelPure.tla generated no %s case" % ("history" if npure == 0 else "layout"))
    ck.section("pure", histories_replayed=npure, layout_cases=nlay)
    t2b = os.times()
    ck.extra["cpu_seconds"]["pure"] = round(t2b.children_user + t2b.children_system - t2.children_user - t2.children_system, 1)
    t2 = t2b
    # metamorphic relations on the whole zoo
    if not patterns and not only:
        ck.vacuous("TLC enumerated no broadcast pattern")
    zitems = []
    names = [z.name for z in kz.zoo()]
    # every geometry TLC enumerated for a pattern (None = generic random rows, first: it decides the 'special-rows' suffix)
    geos_of = {}
    for pt, g in geopairs:
        if g not in geos_of.setdefault(repr(pt), []):
            geos_of[repr(pt)].append(g)
    if not only:
        for pt in patterns:
            if len(geos_of.get(repr(pt), [])) < len(GEOS_COVER):
                raise core.Machinery("the geo run enumerated %d geometries for the pattern %s, the covering family has %d" % (len(geos_of.get(repr(pt), [])), pt, len(GEOS_COVER)))
    for nm in names:
        for i in range(0, len(patterns), 4):
            zitems.append(dict(kernel=nm, pats=patterns[i:i + 4], geos_by_pat=[[None] + geos_of.get(repr(pt), []) for pt in patterns[i:i + 4]],
                               envs_by_pat=[envs_of.get(repr(pt), []) for pt in patterns[i:i + 4]], seed=ck.seed, probe=True))
    zres = core.pmap(_zoo_worker, zitems, chunksize=1)
    skipped = [r.pop("skipped") for r in zres if r.get("skipped")]
    ck.extra["not_evaluable"] = dict(count=len(skipped), examples=skipped[:8])
    for r in list(zres) + list(pres):
        if r.get("vacuous"):
            ck.vacuous(r.pop("vacuous"))
    allr, first, seen_sig = list(results) + list(pres) + list(zres), [], set()
    for r in allr:
        if not r.get("machinery") and not r.get("ok", True) and r["sig"] not in seen_sig:
            seen_sig.add(r["sig"])
            first.append(r)
    ids = {id(r) for r in first}
    ck.absorb(first + [r for r in allr if id(r) not in ids])
    nenv = sum(1 for r in zres if any(isinstance(x, str) and x.startswith("env:") for x in (r["key"][-2] if isinstance(r["key"][-2], list) else [])))
    envs_seen = {x for r in zres if isinstance(r["key"][-2], list) for x in r["key"][-2] if isinstance(x, str) and x.startswith("env:")}
    if not only and (len(envs_seen) < len(ENVS_COVER) - 1 or not any(len(v) >= len(ENVS_COVER) for v in envs_of.values())):
        ck.vacuous("the zoo relations were evaluated under %d non-default environments only (the covering family has %d)" % (len(envs_seen), len(ENVS_COVER) - 1))
    ck.section("zoo", kernels=len(names), patterns=len(patterns), geometries=1 + max([len(v) for v in geos_of.values()] or [0]), relations=len(zres),
               environments=1 + len(envs_seen), relations_under_non_default_environment=nenv, patterns_with_environments=sum(1 for v in envs_of.values() if len(v) > 1))
    if os.environ.get("VERIF_C06_DUMPFAIL"):  # development: every failing cell with its detail
        import json
        with open(os.environ["VERIF_C06_DUMPFAIL"], "w") as f:
            for r in list(results) + list(pres) + list(zres):
                if not r.get("ok", True):
                    f.write(json.dumps(dict(sig=r["sig"], detail=r["detail"])) + "\n")
    cells = {}
    for v in ck.violations:
        cells[v["sig"]] = cells.get(v["sig"], 0) + 1
    ck.extra["violation_cells"] = dict(sorted(cells.items()))
    t3 = os.times()
    ck.extra["cpu_seconds"]["zoo"] = round(t3.children_user + t3.children_system - t2.children_user - t2.children_system, 1)


def replay(rep):
    torch = core.setup_torch()
    case = rep["case"]
    if case["kind"] in ("pure", "lay"):
        from checks import c06_pure as cp
        res = cp.replay_case(case)
        res = [r for r in res if r.get("sig") == rep["signature"]] or res
    elif case["kind"] == "zoo":
        res = _zoo_worker(dict(kernel=case["kernel"], pats=case["pats"], geos=case.get("geos") or [None], envs=case.get("envs") or [], seed=case.get("seed", rep.get("seed", 0))))
        res = [r for r in res if r.get("sig") == rep["signature"]] or res
    else:
        names = ["stub"] + ([case["kernel"]] if case["kernel"] != "stub" else [])  # the stub decides the '/only:<kernel>' suffix
        res = [r for r in replay_state(torch, case["cfg"], case["pat"], case["hist"], names, True, case.get("fam"), case.get("geo"), env=case.get("env")) if r.get("machinery") or r["key"][-1] == case["kernel"] or r["key"][-2:] == [case["kernel"], "pure"]]
    rc = 0
    for r in res:
        if r.get("machinery"):
            print("MACHINERY-FAILURE", r["machinery"])
            return 2
        if not r.get("ok", True):
            print("VIOLATION property=C06 replay=- :: %s :: %s" % (r["sig"], r["detail"]))
            rc = 1
    if rc == 0:
        print("replay passed")
    return rc
