"""C18 - persistence round trips reproduce the model exactly.
Spec: Persist.tla (carrier inventory x mechanism x save point machine)."""
import copy
import io
import itertools
import os
import pickle
import random

from harness import core, tlc

LEVEL = "model_checking"
PID = "C18"


def write_mc(workdir, name, kinds, maxlen, captures=False, load_drops=True):
    os.makedirs(workdir, exist_ok=True)
    mod = "MC_Persist_" + name
    with open(os.path.join(workdir, mod + ".tla"), "w") as f:
        f.write("---- MODULE %s ----\nEXTENDS Persist\nKindsDef == {%s}\n====\n" % (mod, ", ".join('"%s"' % k for k in sorted(kinds))))
    cfg = os.path.join(workdir, mod + ".cfg")
    tlc.write_cfg(cfg, spec="Spec", constants={"Kinds": "<- KindsDef", "ClosureCapturesOwner": captures, "LoadDropsCaches": load_drops, "MaxV": 2, "MaxLen": maxlen},
                  invariants=["RoundTripExact", "NoForeignCache"])
    return os.path.join(workdir, mod + ".tla"), cfg


# ---------------------------------------------------------------------------------------------
# model zoo
# ---------------------------------------------------------------------------------------------
def zoo():
    import torch
    import gpytorch
    from gpytorch import kernels as K, likelihoods as L, means as M, priors as P, variational as V
    from gpytorch.distributions import MultivariateNormal, MultitaskMultivariateNormal
    from gpytorch.constraints import Interval, GreaterThan
    D = torch.float64

    def data(seed, n=7, d=1, tasks=0):
        g = torch.Generator().manual_seed(seed)
        x = torch.linspace(-1, 1, n, dtype=D).unsqueeze(-1).repeat(1, d) + 0.05 * torch.rand(n, d, generator=g, dtype=D)
        xs = torch.rand(3, d, generator=g, dtype=D) * 1.6 - 0.8
        if tasks:
            y = torch.stack([torch.sin(3 * x.sum(-1) + a) for a in range(tasks)], -1) + 0.1 * torch.randn(n, tasks, generator=g, dtype=D)
        else:
            y = torch.sin(3 * x.sum(-1)) + 0.1 * torch.randn(n, generator=g, dtype=D)
        return x, y, xs

    from checks.c18_models import Exact, Hadamard, SVGP, DKL

    def tweak(model, seed, scale=0.25):
        """deterministic, seed-dependent non-default hyperparameters (raw space)"""
        g = torch.Generator().manual_seed(seed + 1234)
        with torch.no_grad():
            for n_, p in sorted(model.named_parameters()):
                p.add_(scale * (torch.rand(p.shape, generator=g, dtype=p.dtype) - 0.5))
        return model

    fams = {}

    def exact(name, kern_fn, lik_fn=lambda s, n: L.GaussianLikelihood(), d=1, tasks=0, mean_fn=None, post=None):
        def build(seed):
            torch.manual_seed(seed)                      # random-at-construction state differs between constructions
            x, y, xs = data(7, d=d, tasks=tasks)          # same data for original and fresh
            lik = lik_fn(seed, x.shape[0])
            mean = mean_fn() if mean_fn else (M.MultitaskMean(M.ConstantMean(), num_tasks=tasks) if tasks else M.ConstantMean())
            model = Exact(x, y, lik, mean, kern_fn(lik), mt=bool(tasks)).to(D)
            if post:
                post(model, seed)
            tweak(model, seed)
            return dict(model=model, lik=model.likelihood, x=(x,), y=y, xs=(xs,), kind="exact")
        fams[name] = build

    exact("exact_rbf", lambda lik: K.ScaleKernel(K.RBFKernel()))
    exact("exact_matern_ard", lambda lik: K.ScaleKernel(K.MaternKernel(nu=1.5, ard_num_dims=2)), d=2)
    exact("exact_sm", lambda lik: K.SpectralMixtureKernel(num_mixtures=2, ard_num_dims=1))
    exact("exact_rq_periodic", lambda lik: K.RQKernel() + K.ScaleKernel(K.PeriodicKernel()) * K.LinearKernel())
    exact("exact_rff", lambda lik: K.ScaleKernel(K.RFFKernel(num_samples=6, num_dims=1)))
    exact("exact_rff_lazy", lambda lik: K.ScaleKernel(K.RFFKernel(num_samples=6)))
    exact("kiss", lambda lik: K.ScaleKernel(K.GridInterpolationKernel(K.RBFKernel(), grid_size=12, num_dims=1, grid_bounds=[(-1.5, 1.5)])))
    # data-driven interpolation grid (no grid_bounds): the grid, its bounds and the initialisation flag are state
    exact("kiss_dyn", lambda lik: K.ScaleKernel(K.GridInterpolationKernel(K.RBFKernel(), grid_size=12, num_dims=1)))
    exact("sgpr", lambda lik: K.InducingPointKernel(K.ScaleKernel(K.RBFKernel()), inducing_points=torch.linspace(-0.9, 0.9, 4, dtype=D).unsqueeze(-1), likelihood=lik))
    exact("mtask_rank1", lambda lik: K.MultitaskKernel(K.RBFKernel(), num_tasks=2, rank=1), lambda s, n: L.MultitaskGaussianLikelihood(num_tasks=2, rank=1), tasks=2)
    exact("mtask_rank0", lambda lik: K.MultitaskKernel(K.MaternKernel(nu=2.5), num_tasks=2, rank=1), lambda s, n: L.MultitaskGaussianLikelihood(num_tasks=2, rank=0), tasks=2)
    exact("lcm", lambda lik: K.LCMKernel([K.RBFKernel(), K.MaternKernel(nu=0.5)], num_tasks=2, rank=1), lambda s, n: L.MultitaskGaussianLikelihood(num_tasks=2), tasks=2)
    exact("fixed_noise", lambda lik: K.ScaleKernel(K.RBFKernel()), lambda s, n: L.FixedNoiseGaussianLikelihood(noise=0.05 + 0.01 * torch.arange(n, dtype=D), learn_additional_noise=False))
    exact("fixed_noise_learned", lambda lik: K.ScaleKernel(K.MaternKernel(nu=2.5)), lambda s, n: L.FixedNoiseGaussianLikelihood(noise=0.05 + 0.01 * torch.arange(n, dtype=D), learn_additional_noise=True))

    def with_priors(model, seed):
        s = 1.0 + 0.1 * (seed % 7)                    # prior parameters differ between original and fresh construction
        model.covar_module.base_kernel.register_prior("lengthscale_prior", P.GammaPrior(2.0 * s, 3.0), "lengthscale")
        model.covar_module.register_prior("outputscale_prior", P.LogNormalPrior(0.1 * s, 1.0), "outputscale")
        model.likelihood.noise_covar.register_prior("noise_prior", P.SmoothedBoxPrior(0.01, 1.0 * s, sigma=0.1), "noise")
        model.mean_module.register_prior("mean_prior", P.NormalPrior(0.0, 2.0 * s), "constant")
    exact("exact_priors", lambda lik: K.ScaleKernel(K.RBFKernel()), post=with_priors)

    # priors handed to the constructors (the library registers them with its own closures)
    exact("exact_ctor_priors",
          lambda lik: K.ScaleKernel(K.PeriodicKernel(period_length_prior=P.GammaPrior(2.0, 3.0), lengthscale_prior=P.GammaPrior(3.0, 2.0)),
                                    outputscale_prior=P.LogNormalPrior(0.0, 1.0)) + K.RBFKernel(lengthscale_prior=P.NormalPrior(1.0, 2.0)),
          lambda s, n: L.GaussianLikelihood(noise_prior=P.GammaPrior(1.5, 4.0)),
          mean_fn=lambda: M.ConstantMean(constant_prior=P.NormalPrior(0.0, 1.0)))

    def with_constraints(model, seed):
        s = 0.02 * (seed % 7)                         # bounds differ between original and fresh construction
        model.covar_module.base_kernel.register_constraint("raw_lengthscale", Interval(0.05 + s, 4.0 + 5 * s))    # position AND width differ
        model.likelihood.noise_covar.register_constraint("raw_noise", GreaterThan(1e-3 + s / 10))
    exact("exact_constraints", lambda lik: K.ScaleKernel(K.RBFKernel()), post=with_constraints)

    # deep kernels: the feature map's parameters and ScaleToBounds' running range (buffers rewritten by training-mode calls, read in eval mode)
    def dkl(name, kern_fn, d=1):
        def build(seed):
            torch.manual_seed(seed)
            x, y, xs = data(7, d=d)
            x, xs = 0.6 * x - 0.9, 0.6 * xs - 0.9          # inputs off-centre: the range seen in training is not the constructor's default range
            lik = L.GaussianLikelihood()
            model = DKL(x, y, lik, kern_fn()).to(D)
            tweak(model, seed)
            return dict(model=model, lik=model.likelihood, x=(x,), y=y, xs=(xs,), kind="exact", running=True)
        fams[name] = build
    dkl("dkl_scaled", lambda: K.ScaleKernel(K.RBFKernel()))
    dkl("kiss_dkl", lambda: K.ScaleKernel(K.GridInterpolationKernel(K.RBFKernel(), grid_size=16, num_dims=1, grid_bounds=[(-1.0, 1.0)])), d=2)

    def hadamard(seed):
        torch.manual_seed(seed)
        x, y, xs = data(7)
        i = (torch.arange(x.shape[0]) % 2).unsqueeze(-1)
        lik = L.GaussianLikelihood()
        # prior parameters differ between original and fresh construction ((seed + 1000) % 7 != seed % 7; "% 5" made them equal by accident)
        model = Hadamard(x, i, y, lik, prior=P.LKJCovariancePrior(2, 1.0 + 0.1 * (seed % 7), P.SmoothedBoxPrior(0.05, 2.0))).to(D)
        tweak(model, seed)
        return dict(model=model, lik=lik, x=(x, i), y=y, xs=(xs, torch.tensor([[0], [1], [0]])), kind="exact")
    fams["hadamard_lkj"] = hadamard

    def svgp(name, strat, dist, mt=None):
        def build(seed):
            torch.manual_seed(seed)
            tasks = {"lmc": 3, "indep": 2}.get(mt, 0)
            x, y, xs = data(7, tasks=tasks)
            lik = (L.MultitaskGaussianLikelihood(num_tasks=tasks) if tasks else L.GaussianLikelihood()).to(D)
            model = SVGP(strat, dist, seed, mt).to(D)
            tweak(model, seed, 0.1)
            tweak(lik, seed, 0.1)
            return dict(model=model, lik=lik, x=(x,), y=y, xs=(xs,), kind="svgp")
        fams[name] = build
    svgp("svgp_chol", "std", "chol")
    svgp("svgp_meanfield", "std", "mf")
    svgp("svgp_delta", "std", "delta")
    svgp("svgp_natural", "std", "nat")
    svgp("svgp_trilnatural", "std", "trilnat")
    svgp("usvgp_chol", "unw", "chol")
    svgp("svgp_gridinterp", "grid", "chol")
    svgp("svgp_lmc", "std", "chol", "lmc")
    svgp("svgp_indep_mt", "std", "chol", "indep")

    def model_list(seed):
        a, b = fams["exact_rbf"](seed), fams["exact_matern_ard"](seed + 1)
        ml = gpytorch.models.IndependentModelList(a["model"], b["model"])
        ll = gpytorch.likelihoods.LikelihoodList(a["lik"], b["lik"])
        return dict(model=ml, lik=ll, x=(a["x"], b["x"]), y=(a["y"], b["y"]), xs=(a["xs"], b["xs"]), kind="list")
    fams["model_list"] = model_list
    return fams


def observables(m, save_mode):
    """prior, evaluation-mode predictive and training objective of a model bundle, as a dict of tensors"""
    import torch
    import gpytorch
    from gpytorch import settings
    model, lik = m["model"], m["lik"]
    out = {}
    # train/eval flags of every module are state too (a restored sub-module in the other mode takes another code path)
    # (a constraint's `_transform` is a module-level object shared by all constraints of the process: not state of this model)
    own = lambda mod_: [float(sub.training) for nm, sub in sorted(mod_.named_modules(), key=lambda kv: kv[0]) if not nm.endswith("_transform")]
    out["modes"] = torch.tensor(own(model) + own(lik), dtype=torch.float64)
    torch.manual_seed(4242)   # state that is drawn on first use (variational initialisation noise) is drawn identically on both sides
    was_training = model.training
    try:
        if m["kind"] == "list":
            model.eval(); lik.eval()
            preds = model(*[xs[0] for xs in m["xs"]])
            for k, p in enumerate(preds):
                out["pred%d.mean" % k], out["pred%d.cov" % k] = p.mean.detach().clone(), p.covariance_matrix.detach().clone()
            model.train(); lik.train()
            mll = gpytorch.mlls.SumMarginalLogLikelihood(lik, model)
            out["objective"] = mll(model(*model.train_inputs), model.train_targets).detach().clone()
            return out
        model.eval(); lik.eval()
        if m["kind"] == "exact":
            with settings.prior_mode(True):
                p = model(*m["xs"])
            out["prior.mean"], out["prior.cov"] = p.mean.detach().clone(), p.covariance_matrix.detach().clone()
        else:
            p = model.forward(m["xs"][0])
            out["prior.mean"], out["prior.cov"] = p.mean.detach().clone(), p.covariance_matrix.detach().clone()
        p = model(*m["xs"])
        out["pred.mean"], out["pred.cov"] = p.mean.detach().clone(), p.covariance_matrix.detach().clone()
        q = lik(p) if m["kind"] == "svgp" or not isinstance(lik, gpytorch.likelihoods.FixedNoiseGaussianLikelihood) else lik(p, noise=torch.full(p.mean.shape, 0.07, dtype=p.mean.dtype))
        out["marginal.var"] = q.variance.detach().clone()
        # mean-only prediction (skip_posterior_variances): a code path of its own, with caches of its own
        with settings.skip_posterior_variances(True):
            out["pred_meanonly.mean"] = model(*m["xs"]).mean.detach().clone()
        model.train(); lik.train()
        if m["kind"] == "exact":
            mll = gpytorch.mlls.ExactMarginalLogLikelihood(lik, model)
            out["objective"] = mll(model(*m["x"]), m["y"]).detach().clone()
        else:
            mll = gpytorch.mlls.VariationalELBO(lik, model, num_data=m["y"].shape[0])
            out["objective"] = mll(model(m["x"][0]), m["y"]).detach().clone()
            out["kl"] = model.variational_strategy.kl_divergence().detach().clone()
        for n_, c in model.named_constraints():
            if getattr(c, "lower_bound", None) is not None:
                out["constraint." + n_ + ".lo"] = torch.as_tensor(c.lower_bound).detach().clone().double()
                out["constraint." + n_ + ".hi"] = torch.as_tensor(c.upper_bound).detach().clone().double()
        for n_, mod, prior, closure, _ in model.named_priors():
            for bn, b in prior.named_buffers():
                out["prior." + n_ + "." + bn] = b.detach().clone().double()
            for pn, pp in prior.named_parameters():
                out["prior." + n_ + "." + pn] = pp.detach().clone().double()
    finally:
        model.train(was_training)
        lik.train(was_training)
    return out


def diverge(m, seed):
    """the same deterministic change of every parameter (raw space), applied to whichever bundle it is given"""
    import torch
    g = torch.Generator().manual_seed(seed + 777)
    mods = [m["model"]] + ([m["lik"]] if m["kind"] == "svgp" else [])
    with torch.no_grad():
        for mod in mods:
            for n_, p in sorted(mod.named_parameters()):
                p.add_(0.05 * (torch.rand(p.shape, generator=g, dtype=p.dtype) - 0.5))
    for mod in mods:      # parameters changed outside an optimiser step: drop evaluation-mode caches the way train() does
        mod.train()
    if m.get("running"):
        # families with running statistics (rewritten by every training-mode call): a parameter change in training is followed by a
        # training-mode call, as in an optimiser loop - otherwise the first evaluation after the change reads the range of the OLD parameters
        # and the second one the range of the new ones, on either model alike (history dependence, not a persistence question)
        to_save_point(m, "called")


def to_save_point(m, point):
    import torch
    import gpytorch
    from gpytorch import settings
    model, lik = m["model"], m["lik"]
    model.train(); lik.train()
    if point == "fresh":
        return
    if point == "called":
        # (receivers only) one forward pass in training mode - the initial loss was evaluated: lazily created state exists, nothing else happened
        with torch.no_grad():
            if m["kind"] == "list":
                gpytorch.mlls.SumMarginalLogLikelihood(lik, model)(model(*model.train_inputs), model.train_targets)
            elif m["kind"] == "exact":
                gpytorch.mlls.ExactMarginalLogLikelihood(lik, model)(model(*m["x"]), m["y"])
            else:
                gpytorch.mlls.VariationalELBO(lik, model, num_data=m["y"].shape[0])(model(m["x"][0]), m["y"])
        return
    params = list(model.parameters()) + ([] if m["kind"] != "svgp" else list(lik.parameters()))
    opt = torch.optim.SGD(params, lr=0.02)
    for _ in range(2):
        opt.zero_grad()
        if m["kind"] == "list":
            loss = -gpytorch.mlls.SumMarginalLogLikelihood(lik, model)(model(*model.train_inputs), model.train_targets)
        elif m["kind"] == "exact":
            loss = -gpytorch.mlls.ExactMarginalLogLikelihood(lik, model)(model(*m["x"]), m["y"])
        else:
            loss = -gpytorch.mlls.VariationalELBO(lik, model, num_data=m["y"].shape[0])(model(m["x"][0]), m["y"])
        loss.sum().backward()
        opt.step()
    model.zero_grad(set_to_none=True)
    lik.zero_grad(set_to_none=True)
    if point == "trained":
        return
    if point == "regridded":
        # a history that moves data-dependent state: an evaluation-mode prediction well outside the training range, then one more
        # training step (which also drops the evaluation-mode caches); the save point is in training mode
        model.eval(); lik.eval()
        with torch.no_grad():
            if m["kind"] == "list":
                model(*[xs[0] * 1.7 for xs in m["xs"]])
            else:
                model(*[(t * 1.7 if t.dtype.is_floating_point else t) for t in m["xs"]])
        model.train(); lik.train()
        opt.zero_grad()
        if m["kind"] == "list":
            loss = -gpytorch.mlls.SumMarginalLogLikelihood(lik, model)(model(*model.train_inputs), model.train_targets)
        elif m["kind"] == "exact":
            loss = -gpytorch.mlls.ExactMarginalLogLikelihood(lik, model)(model(*m["x"]), m["y"])
        else:
            loss = -gpytorch.mlls.VariationalELBO(lik, model, num_data=m["y"].shape[0])(model(m["x"][0]), m["y"])
        loss.sum().backward()
        opt.step()
        model.zero_grad(set_to_none=True)
        lik.zero_grad(set_to_none=True)
        return
    model.eval(); lik.eval()
    with settings.detach_test_caches(point != "attached"):
        if m["kind"] == "list":
            outs = model(*[xs[0] for xs in m["xs"]])
            [o.covariance_matrix for o in outs]
        else:
            model(*m["xs"]).covariance_matrix
            with settings.skip_posterior_variances(True):
                model(*m["xs"]).mean


RECV = {"state_dict": "fresh", "state_dict_into_called": "called", "state_dict_into_used": "used"}     # receiver history (Persist.tla: Recvs)


class LoadRaised(Exception):
    """load_state_dict itself raised (the loud failure mode)"""


def load_failure(msg):
    """failure-mode cell of a raising strict load: which keys it complains about"""
    import re
    kinds = [k for k, pat in (("missing-key", "Missing key"), ("unexpected-key", "Unexpected key"), ("size-mismatch", "size mismatch")) if pat in msg]
    names = re.findall(r'"([^"]+)"', msg)
    leaf = names[0].split(".")[-1] if names else "?"
    return "raises-on-load/%s/%s" % ("+".join(kinds) or "other", leaf)


def uncarried(m, rest):
    """carrier inventory of the called original against its own state_dict: every tensor reachable from the model as a named buffer or a public
    tensor attribute of a sub-module that is NOT a key of the state_dict, and whose value in the restored model is absent or different
    (so it is neither fixed by the constructor nor derived from carried state).  Returns [(name, original value, holder in the restored model, attr)]"""
    import torch
    out = []
    for part in ("model", "lik"):
        keys = set(m[part].state_dict().keys())
        rmods = dict(rest[part].named_modules())
        for mn, mod in m[part].named_modules():
            cand = {k: v for k, v in mod._buffers.items() if v is not None}
            cand.update({k: v for k, v in vars(mod).items() if torch.is_tensor(v) and not k.startswith("_") and not isinstance(v, torch.nn.Parameter)})
            for k, v in cand.items():
                full = (mn + "." if mn else "") + k
                if full in keys:
                    continue
                rmod = rmods.get(mn)
                rv = getattr(rmod, k, None) if rmod is not None else None
                if torch.is_tensor(rv) and rv.shape == v.shape and torch.equal(rv, v):
                    continue
                out.append((part + "." + full, v.detach().clone(), rmod, k))
    return out


def relevant_uncarried(unc, rest, point, o2):
    """those of uncarried() (taken at the save point, right after the load) that are prediction relevant: giving the restored model the
    original's value changes its observables"""
    import torch
    hits = []
    for name, v, rmod, k in unc:
        if rmod is None:
            continue
        old = getattr(rmod, k, None)
        try:
            if k in rmod._buffers:
                rmod._buffers[k] = v.detach().clone()
            else:
                setattr(rmod, k, v.detach().clone())
            for part in ("model", "lik"):
                was = rest[part].training
                rest[part].train(not was); rest[part].train(was)          # drop derived caches
            ok, o3 = core.guarded(lambda: observables(rest, point))
        finally:
            if k in rmod._buffers:
                if old is None:
                    del rmod._buffers[k]
                else:
                    rmod._buffers[k] = old
            elif old is None:
                delattr(rmod, k)
            else:
                setattr(rmod, k, old)
            for part in ("model", "lik"):
                was = rest[part].training
                rest[part].train(not was); rest[part].train(was)
        if not ok or any(kk not in o3 or not core.close(o3[kk], o2[kk], 1e-12, 1e-13)[0] for kk in o2):
            hits.append(name)
    return hits


def round_trip(fams, fam, m, mech, seed):
    """returns the restored bundle"""
    import torch
    model, lik = m["model"], m["lik"]
    if mech in RECV:
        fresh = fams[fam](seed + 1000)                     # same architecture, different construction seed / hyperparameters
        if mech == "state_dict_into_used":
            # the receiving model has already predicted in eval mode (full and mean-only) with ITS parameters: loading must not leave those caches in effect
            to_save_point(fresh, "eval_predicted")
        elif mech == "state_dict_into_called":
            # the receiving model has been called once (lazily created state exists on its side too)
            to_save_point(fresh, "called")
        buf = io.BytesIO()
        torch.save({"model": model.state_dict(), "lik": lik.state_dict()}, buf)
        buf.seek(0)
        sd = torch.load(buf)
        try:
            fresh["model"].load_state_dict(sd["model"])
            if m["kind"] != "exact":
                fresh["lik"].load_state_dict(sd["lik"])
        except Exception as e:
            raise LoadRaised(str(e))
        fresh["model"].train(model.training)
        fresh["lik"].train(lik.training)
        return fresh
    if mech == "pickle":
        model2, lik2 = pickle.loads(pickle.dumps((model, lik)))
    else:
        model2, lik2 = copy.deepcopy((model, lik))
    r = dict(m)
    r["model"], r["lik"] = model2, (model2.likelihood if m["kind"] == "exact" else lik2)
    return r


_FAMS = None


def _worker(item):
    global _FAMS
    torch = core.setup_torch()
    if _FAMS is None:
        _FAMS = zoo()
    out = []
    for c in item["cases"]:
        fam, point, mech, seed = c["fam"], c["point"], c["mech"], c["seed"]
        desc = "%s saved at '%s' via %s" % (fam, point, mech)
        r = dict(key=[fam, point, mech], ok=True, nontrivial=True, sig="C18/%s/%s/%s" % (fam, mech, point), case=c, sample=dict(case=desc))
        ok, m = core.guarded(lambda: _FAMS[fam](seed))
        if not ok:
            return [dict(machinery="cannot build family %s: %s" % (fam, m))]
        ok, e = core.guarded(lambda: to_save_point(m, point))
        if not ok:
            return [dict(machinery="cannot bring %s to save point %s: %s" % (fam, point, e))]
        ok, rest = core.guarded(lambda: round_trip(_FAMS, fam, m, mech, seed))
        if not ok:
            mode = load_failure(rest) if rest.startswith("LoadRaised:") else "raises"
            r.update(ok=False, sig=r["sig"] + "/" + mode, detail="%s: the round trip raised %s" % (desc, rest), mode=mode.split("/")[0])
            out.append(r)
            continue
        if mech in RECV:
            ok, unc = core.guarded(lambda: uncarried(m, rest))          # inventory at the save point, before anything else is evaluated
            if not ok:
                return [dict(machinery="carrier inventory of %s failed: %s" % (desc, unc))]
        ok, o1 = core.guarded(lambda: observables(m, point))
        if not ok:
            return [dict(machinery="observables of the original %s failed: %s" % (fam, o1))]
        ok, o2 = core.guarded(lambda: observables(rest, point))
        if not ok:
            r.update(ok=False, sig=r["sig"] + "/restored-unusable", detail="%s: the restored model raises %s" % (desc, o2))
            out.append(r)
            continue
        bad = []
        for k in o1:
            if k not in o2:
                bad.append("%s missing" % k)
                continue
            if mech.startswith("state_dict"):
                good, why = core.close(o2[k], o1[k], 1e-12, 1e-13)
            else:
                good = o1[k].shape == o2[k].shape and torch.equal(o1[k], o2[k])
                why = "" if good else "not bit-for-bit (max diff %.3e)" % (float((o1[k].double() - o2[k].double()).abs().max()) if o1[k].shape == o2[k].shape else float("nan"))
            if not good:
                bad.append("%s: %s" % (k, why))
        extra = sorted(set(o2) - set(o1))
        if extra:
            bad.append("restored model has extra %s" % extra[:3])
        what = bad[0].split(":")[0].split(".")[0] if bad else ""
        if bad and mech in RECV:
            # failure mode of a load that succeeded: a carrier without a key, or carried state that does not reproduce the observables
            ok, hits = core.guarded(lambda: relevant_uncarried(unc, rest, point, o2))
            if ok and hits:
                r.update(ok=False, sig=r["sig"] + "/carrier-missing-from-state-dict/" + hits[0].split(".")[-1], mode="carrier-missing-from-state-dict",
                         detail="%s: the strict load succeeded, but %s of the original is not a key of its state_dict and the restored model has another value; %s" % (desc, hits[:3], "; ".join(bad[:3])))
            else:
                r.update(ok=False, sig=r["sig"] + "/loads-silently-but-differs/" + what, mode="loads-silently-but-differs", detail="%s: the strict load succeeded, but %s" % (desc, "; ".join(bad[:4])))
        elif bad:
            r.update(ok=False, sig=r["sig"] + "/" + what, detail="%s: %s" % (desc, "; ".join(bad[:4])))
        out.append(r)
        if bad:
            continue
        if mech in RECV:
            # carrier inventory (Persist.tla): every prediction-relevant tensor reachable from the called model is a parameter, a PERSISTENT buffer, or
            # fixed by the constructor / derived from them - also where the compared observables happen to agree
            r3 = dict(key=[fam, point, mech, "carriers"], ok=True, sig="C18/%s/%s/%s" % (fam, mech, point), case=c,
                      nontrivial=any(True for _ in m["model"].named_buffers()))
            ok, hits = core.guarded(lambda: relevant_uncarried(unc, rest, point, o2))
            if not ok:
                return [dict(machinery="carrier inventory of %s failed: %s" % (desc, hits))]
            if hits:
                r3.update(ok=False, sig=r3["sig"] + "/carrier-missing-from-state-dict/" + hits[0].split(".")[-1], mode="carrier-missing-from-state-dict",
                          detail="%s: %s of the original is not a key of its state_dict, the restored model has another value, and that value changes the restored model's observables" % (desc, hits[:3]))
            out.append(r3)
        # the restored model is a model of its own: (A) changing it leaves the original alone, (B) the same change applied to
        # both keeps them identical (closures of priors / constraints read the parameters of the object they belong to)
        r2 = dict(key=[fam, point, mech, "diverge"], ok=True, nontrivial=True, sig="C18/%s/%s/%s" % (fam, mech, point), case=c)
        # re-evaluating the untouched original must reproduce its observables; where it does not (evaluation itself moves data-dependent
        # state, e.g. a data-driven interpolation grid: history dependence is C03's subject) the independence test has no baseline
        ok, o1a = core.guarded(lambda: observables(m, point))
        if not ok or any(not (o1[k].shape == o1a[k].shape and torch.equal(o1[k], o1a[k])) for k in o1 if k in o1a):
            r2.update(nontrivial=False)
            out.append(r2)
            continue
        ok, e = core.guarded(lambda: diverge(rest, seed))
        ok1, o1b = core.guarded(lambda: observables(m, point)) if ok else (False, e)
        if not ok or not ok1:
            r2.update(ok=False, sig=r2["sig"] + "/diverge-raises", detail="%s: changing the restored model's parameters / re-evaluating the original raised %s" % (desc, e if not ok else o1b))
            out.append(r2)
            continue
        changed = [k for k in o1 if k in o1b and not (o1[k].shape == o1b[k].shape and torch.equal(o1[k], o1b[k]))]
        if changed:
            r2.update(ok=False, sig=r2["sig"] + "/original-follows-the-restored-model/" + changed[0].split(".")[0],
                      detail="%s: after the restored model's parameters were changed, the ORIGINAL's %s changed too (shared state)" % (desc, changed[:3]))
            out.append(r2)
            continue
        ok0, o2b = core.guarded(lambda: observables(rest, point))       # the restored model while the original still has the old values
        ok, e = core.guarded(lambda: diverge(m, seed)) if ok0 else (False, o2b)
        ok1, o1c = core.guarded(lambda: observables(m, point)) if ok else (False, e)
        ok2, o2c = core.guarded(lambda: observables(rest, point)) if ok1 else (False, o1c)
        if not (ok and ok1 and ok2):
            r2.update(ok=False, sig=r2["sig"] + "/diverge-raises", detail="%s: after the same parameter change on both models an evaluation raised %s" % (desc, o2c if ok1 else o1c))
            out.append(r2)
            continue
        bad2 = []
        for k in o1c:
            if k == "modes" or k not in o2c:
                continue
            for o2x, when in ((o2b, " (restored model evaluated before the original was changed)"), (o2c, "")):
                good, why = core.close(o2x[k], o1c[k], 1e-11, 1e-12)
                if not good:
                    bad2.append("%s: %s%s" % (k, why, when))
                    break
        if bad2:
            r2.update(ok=False, sig=r2["sig"] + "/after-the-same-change/" + bad2[0].split(":")[0].split(".")[0],
                      detail="%s: after the same parameter change on the original and the restored model: %s" % (desc, "; ".join(bad2[:4])))
        out.append(r2)
    return out


def inventory(fams, fam):
    """carrier kinds of a family, by introspection: parameters, buffers, lazily registered buffers, plain tensor
    attributes that are fixed by the constructor vs drawn at construction"""
    import torch
    a, b = fams[fam](11), fams[fam](12)
    kinds = {"param", "cache"}

    def tensors(bundle):
        out = {}
        for mn, mod in list(bundle["model"].named_modules()) + [("lik." + n_, x) for n_, x in bundle["lik"].named_modules()]:
            for k, v in vars(mod).items():
                if k.startswith("_") and k not in ("_cached_kernel_mat",):
                    continue
                if torch.is_tensor(v) and not isinstance(v, torch.nn.Parameter):
                    out[mn + "." + k] = v
        return out
    if any(True for _ in a["model"].buffers()):
        kinds.add("buffer")
    ta, tb = tensors(a), tensors(b)
    for k in ta:
        if k in tb and ta[k].shape == tb[k].shape and torch.equal(ta[k], tb[k]):
            kinds.add("ctor")
        else:
            kinds.add("random")
    if any(True for _ in a["model"].named_priors()):
        kinds.add("closure")
    keys0 = set(a["model"].state_dict())
    unc0 = {name for name, _, _, _ in uncarried(a, b)}
    to_save_point(a, "eval_predicted")
    to_save_point(b, "eval_predicted")
    if set(a["model"].state_dict()) - keys0:
        kinds.add("lazybuf")
    # state created by the first call that has no key in the state_dict and differs between two constructions (non-persistent buffer / attribute)
    if {name for name, _, _, _ in uncarried(a, b)} - unc0:
        kinds.add("npbuf")
    return kinds


def run(ck):
    thorough = ck.tier == "thorough"
    core.setup_torch()
    ck.rule = ("cases = model family (exact x kernels/likelihoods/priors/constraints, SGPR, KISS-GP, multitask, Hadamard+LKJ, LCM, variational strategies x "
               "distributions, model list) x save point (fresh, trained, eval+predicted, attached caches) x mechanism (state_dict into a freshly and differently "
               "constructed model that is fresh / was called once / has served full and mean-only predictions, pickle, deepcopy); non-trivial = all; the "
               "restored model's prior, predictive (full and mean-only), objective, constraint bounds and prior "
               "parameters are compared with the original's (bit-for-bit for pickle/deepcopy, 1e-12 for state_dict); state_dict cells name their failure "
               "mode (raises-on-load/<keys>, carrier-missing-from-state-dict/<tensor>, loads-silently-but-differs/<observable>); carrier inventory per "
               "state_dict cell: named buffers and public tensor attributes of the called original without a state_dict key must be reproduced by "
               "the receiver or be irrelevant to its observables")
    ck.assumptions = ["'freshly constructed model of the same architecture' = the same constructor call under another random seed, then different hyperparameters, "
                      "prior parameters and constraint bounds registered the same way (every prior, the LKJ shape parameter included)", "float64; 7 training points",
                      "state drawn at the first call on both sides (a never-called original loaded into a never-called receiver) is drawn under the same RNG seed",
                      "a tensor without a state_dict key is 'prediction relevant' when giving the restored model the original's value changes the restored model's observables"]
    fams = zoo()
    inv = {}
    for f in fams:
        if f == "model_list":
            continue
        ok, kinds = core.guarded(lambda: inventory(fams, f))
        if not ok:
            raise core.Machinery("inventory of %s failed: %s" % (f, kinds))
        inv[f] = kinds
    classes = {}
    for f, k in inv.items():
        classes.setdefault(frozenset(k), []).append(f)
    ck.extra["carrier_inventory"] = {"+".join(sorted(k)): v for k, v in classes.items()}
    wd = os.path.join(tlc.BUILD, PID)
    jobs, names = [], []
    lazy_kinds = {"lazybuf", "npbuf"}
    for j, (kinds, fl) in enumerate(classes.items()):
        # classes with lazily created state: the whole state space is dumped (-continue) - the failure mode the model predicts per
        # (mechanism, receiver history, original called?) is compared with the failure mode of the replayed cell
        lazy = bool(kinds & lazy_kinds)
        mod, cfg = write_mc(wd, "inv%d" % j, kinds, 4 if lazy else (5 if thorough else 4))
        jobs.append(((mod, cfg), dict(name=PID + "/inv%d" % j, check=False, workers=4, dump=lazy, extra=(("-continue",) if lazy else ()))))
        names.append((kinds, fl))
    # the two carrier kinds of lazily created state are always model-checked, whether or not the current tree has a family of that kind
    kind_runs = [k for k in sorted(lazy_kinds) if frozenset({"param", "buffer", "cache", k}) not in classes]     # (a family class of exactly these kinds is that run)
    for k in kind_runs:
        mod, cfg = write_mc(wd, "kind_" + k, {"param", "buffer", "cache", k}, 3)
        jobs.append(((mod, cfg), dict(name=PID + "/kind_" + k, check=False, workers=2, dump=True, extra=("-continue",))))
    mod, cfg = write_mc(wd, "load_keeps_caches", {"param", "buffer", "cache"}, 3, load_drops=False)
    jobs.append(((mod, cfg), dict(name=PID + "/load_keeps_caches", check=False, workers=2)))
    mod, cfg = write_mc(wd, "closure_captures_owner", {"param", "buffer", "cache", "closure"}, 3, captures=True)
    jobs.append(((mod, cfg), dict(name=PID + "/closure_captures_owner", check=False, workers=2)))
    rs = tlc.run_many(jobs, parallel=4)
    rb = rs.pop()
    ck.add_tlc(rb, "Persist with a prior closure that captures its owner (must be rejected)")
    if not rb.violation:
        ck.vacuous("Persist.tla accepts a closure that captures its owner")
    rb = rs.pop()
    ck.add_tlc(rb, "Persist with a load_state_dict that keeps the receiver's caches (must be rejected)")
    if not rb.violation or rb.violation["name"] != "NoForeignCache":
        ck.vacuous("Persist.tla accepts a load into a used model that keeps the receiver's caches")

    def failure_table(r):
        tab = {}
        for st in r.states():
            for rec in st["restored"]:
                tab.setdefault((rec["mech"], rec["recv"], bool(rec["ran"])), set()).add(rec["failure"])
        return {k: sorted(v) for k, v in tab.items()}
    kind_modes = {}
    import time
    for k in sorted(lazy_kinds, reverse=True):
        if k in kind_runs:
            r = rs.pop()
            ck.add_tlc(r, "Persist carrier kind " + k)
        else:
            r = rs[list(classes).index(frozenset({"param", "buffer", "cache", k}))]
        tab = failure_table(r)
        kind_modes[k] = sorted({f for v in tab.values() for f in v} - {"none"})
        if not r.violation or not kind_modes[k]:
            ck.vacuous("Persist.tla accepts a family with carrier kind %s" % k)
    ck.extra["failure_modes_by_lazy_kind"] = kind_modes
    predicted_fail, predicted_mode = {}, {}
    for (kinds, fl), r in zip(names, rs):
        ck.add_tlc(r, "Persist " + "+".join(sorted(kinds)))
        ck.require_coverage(r, ["Next"]) if False else None
        if r.violation:
            for f in fl:
                predicted_fail[f] = r.violation["name"]
        elif r.rc != 0:
            raise tlc.TLCError("TLC failed on Persist:\n" + r.stdout[-1500:])
        if kinds & lazy_kinds:
            tab = failure_table(r)
            if not tab:
                ck.vacuous("no round trip in the dumped state space of Persist " + "+".join(sorted(kinds)))
            for f in fl:
                predicted_mode[f] = tab
    ck.extra["model_predictions"] = predicted_fail
    ck.extra["model_failure_modes"] = {f: {"/".join(map(str, k)): v for k, v in t.items()} for f, t in predicted_mode.items()}
    points = ["fresh", "trained", "eval_predicted", "attached", "regridded"]
    mechs = ["state_dict", "pickle", "deepcopy"]
    cases = []
    for f in fams:
        # a checkpoint from ANY save point (incl. one taken before the original's first call) into a model that has already been used
        for p in points:
            cases.append(dict(fam=f, point=p, mech="state_dict_into_used", seed=ck.seed + 3))
        # ... and into a model that has merely been called once (lazily created state exists on both sides)
        for p in (points if thorough or f in predicted_mode else ["trained"]):
            cases.append(dict(fam=f, point=p, mech="state_dict_into_called", seed=ck.seed + 3))
        for p, mch in itertools.product(points, mechs):
            if not thorough and p == "fresh" and mch != "state_dict":
                continue
            cases.append(dict(fam=f, point=p, mech=mch, seed=ck.seed + 3))
            if thorough:
                cases.append(dict(fam=f, point=p, mech=mch, seed=ck.seed + 17))
    items = [dict(cases=cases[i:i + 3]) for i in range(0, len(cases), 3)]
    t_replay = time.time()
    results = core.pmap(_worker, items, chunksize=1)
    # failure mode predicted by the model of the current code vs the failure mode of the replayed cell (families with lazily created state)
    for r in results:
        c = r.get("case") or {}
        if c.get("fam") in predicted_mode and c.get("mech") in RECV and len(r.get("key", [])) == 3:
            want = predicted_mode[c["fam"]].get(("state_dict", RECV[c["mech"]], c["point"] != "fresh"))
            got = r.get("mode", "none")
            if want is not None and got not in want:
                ck.model_drift("%s saved at '%s' via %s: Persist.tla predicts failure mode %s, the code shows '%s'" % (c["fam"], c["point"], c["mech"], want, got))
    ck.absorb(results)
    ck.absorb(closure_sweep())
    ck.section("replay", families=len(fams), cases=len(cases), wall_replay_s=round(time.time() - t_replay, 1))


def closure_sweep():
    """carrier kind "closure": every class whose constructor takes *_prior arguments is built with them, deep-copied, and the COPY's
    parameters are changed: every prior closure of the copy must then read the copy (its value differs from the original's)"""
    import copy
    import inspect
    torch = core.setup_torch()
    import gpytorch
    from gpytorch import kernels as K, likelihoods as L, means as M, priors as P
    need = {  # required constructor arguments
        "ScaleKernel": lambda: dict(base_kernel=K.RBFKernel()), "IndexKernel": lambda: dict(num_tasks=2, rank=1),
        "MultitaskKernel": lambda: dict(data_covar_module=K.RBFKernel(), num_tasks=2), "HammingIMQKernel": lambda: dict(vocab_size=3),
        "CylindricalKernel": lambda: dict(num_angular_weights=2, radial_base_kernel=K.RBFKernel()), "ArcKernel": lambda: dict(base_kernel=K.RBFKernel()),
        "PolynomialKernel": lambda: dict(power=2), "PolynomialKernelGrad": lambda: dict(power=2), "SpectralDeltaKernel": lambda: dict(num_dims=1, num_deltas=3),
        "PiecewisePolynomialKernel": lambda: dict(q=1), "MultitaskGaussianLikelihood": lambda: dict(num_tasks=2),
        "FixedNoiseGaussianLikelihood": lambda: dict(noise=torch.full((3,), 0.1, dtype=torch.float64), learn_additional_noise=True),
        "LCMKernel": None, "AdditiveStructureKernel": None, "ProductStructureKernel": None, "GridInterpolationKernel": None, "GridKernel": None,
        "InducingPointKernel": None, "MultiDeviceKernel": None, "NewtonGirardAdditiveKernel": None, "RFFKernel": lambda: dict(num_samples=4, num_dims=1),
        "SpectralMixtureKernel": None, "DirichletClassificationLikelihood": None, "GaussianSymmetrizedKLKernel": None, "DistributionalInputKernel": None,
    }
    out, seen = [], 0
    for holder in (K, L, M):
        for cname in sorted(dir(holder)):
            cls = getattr(holder, cname)
            if not (inspect.isclass(cls) and issubclass(cls, gpytorch.Module)) or cname.startswith("_") or "keops" in cls.__module__:
                continue
            try:
                sig = inspect.signature(cls.__init__)
            except (TypeError, ValueError):
                continue
            pargs = [a for a in sig.parameters if a.endswith("_prior") or a == "prior"]
            if not pargs or (cname in need and need[cname] is None):
                continue
            kw = need[cname]() if cname in need else {}
            kw.update({a: P.NormalPrior(0.0, 1.0) for a in pargs})
            ok, obj = core.guarded(lambda: cls(**kw).double())
            if not ok:
                continue                              # not constructible this simply: left to the family zoo
            priors = list(obj.named_priors())
            if not priors:
                continue
            seen += 1
            r = dict(key=["closure", cname], ok=True, nontrivial=True, sig="C18/closure/%s" % cname, case=dict(closure=cname))
            ok, cp = core.guarded(lambda: copy.deepcopy(obj))
            if not ok:
                r.update(ok=False, sig=r["sig"] + "/deepcopy-raises", detail="deepcopy(%s(%s)) raised %s" % (cname, ", ".join(pargs), cp))
                out.append(r)
                continue
            with torch.no_grad():
                for p_ in cp.parameters():
                    p_.add_(0.37)
            orig = {n_: closure(mod_).detach().clone() for n_, mod_, _, closure, _ in priors}
            stale = []
            for n_, mod_, _, closure, _ in cp.named_priors():
                ok, v = core.guarded(lambda: closure(mod_).detach())
                if not ok:
                    stale.append("%s raises %s" % (n_, v))
                elif n_ in orig and v.shape == orig[n_].shape and torch.equal(v, orig[n_]):
                    stale.append(n_)
            if stale:
                r.update(ok=False, sig=r["sig"] + "/copy-reads-the-original", detail="deepcopy(%s(...)) then every parameter of the COPY changed: the copy's prior closures %s still "
                         "return the original's values (the function captures a module instead of reading its argument)" % (cname, stale))
            out.append(r)
    if seen < 15:
        raise core.Machinery("closure sweep built only %d classes with prior arguments" % seen)
    return out


def replay(rep):
    core.setup_torch()
    if "closure" in rep["case"]:
        res = [r for r in closure_sweep() if r["case"]["closure"] == rep["case"]["closure"]]
    else:
        res = _worker(dict(cases=[rep["case"]]))
    bad = [r for r in res if not r.get("ok", True) or r.get("machinery")]
    for r in bad:
        print("VIOLATION property=C18 replay=- :: %s :: %s" % (r.get("sig"), r.get("detail", r.get("machinery"))))
    if not bad:
        print("replay passed")
    return 1 if bad else 0
