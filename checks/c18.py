"""C18 - persistence round trips reproduce the model exactly.
Spec: Persist.tla (carrier inventory x mechanism x save point machine)."""
import copy
import io
import itertools
import os
import pickle
import random

from harness import core, tlc

LEVEL = "model_checking"
PID = "C18"


def write_mc(workdir, name, kinds, maxlen):
    os.makedirs(workdir, exist_ok=True)
    mod = "MC_Persist_" + name
    with open(os.path.join(workdir, mod + ".tla"), "w") as f:
        f.write("---- MODULE %s ----\nEXTENDS Persist\nKindsDef == {%s}\n====\n" % (mod, ", ".join('"%s"' % k for k in sorted(kinds))))
    cfg = os.path.join(workdir, mod + ".cfg")
    tlc.write_cfg(cfg, spec="Spec", constants={"Kinds": "<- KindsDef", "MaxV": 2, "MaxLen": maxlen}, invariants=["RoundTripExact", "NoForeignCache"])
    return os.path.join(workdir, mod + ".tla"), cfg


# ---------------------------------------------------------------------------------------------
# model zoo
# ---------------------------------------------------------------------------------------------
def zoo():
    import torch
    import gpytorch
    from gpytorch import kernels as K, likelihoods as L, means as M, priors as P, variational as V
    from gpytorch.distributions import MultivariateNormal, MultitaskMultivariateNormal
    from gpytorch.constraints import Interval, GreaterThan
    D = torch.float64

    def data(seed, n=7, d=1, tasks=0):
        g = torch.Generator().manual_seed(seed)
        x = torch.linspace(-1, 1, n, dtype=D).unsqueeze(-1).repeat(1, d) + 0.05 * torch.rand(n, d, generator=g, dtype=D)
        xs = torch.rand(3, d, generator=g, dtype=D) * 1.6 - 0.8
        if tasks:
            y = torch.stack([torch.sin(3 * x.sum(-1) + a) for a in range(tasks)], -1) + 0.1 * torch.randn(n, tasks, generator=g, dtype=D)
        else:
            y = torch.sin(3 * x.sum(-1)) + 0.1 * torch.randn(n, generator=g, dtype=D)
        return x, y, xs

    from checks.c18_models import Exact, Hadamard, SVGP

    def tweak(model, seed, scale=0.25):
        """deterministic, seed-dependent non-default hyperparameters (raw space)"""
        g = torch.Generator().manual_seed(seed + 1234)
        with torch.no_grad():
            for n_, p in sorted(model.named_parameters()):
                p.add_(scale * (torch.rand(p.shape, generator=g, dtype=p.dtype) - 0.5))
        return model

    fams = {}

    def exact(name, kern_fn, lik_fn=lambda s, n: L.GaussianLikelihood(), d=1, tasks=0, mean_fn=None, post=None):
        def build(seed):
            torch.manual_seed(seed)                      # random-at-construction state differs between constructions
            x, y, xs = data(7, d=d, tasks=tasks)          # same data for original and fresh
            lik = lik_fn(seed, x.shape[0])
            mean = mean_fn() if mean_fn else (M.MultitaskMean(M.ConstantMean(), num_tasks=tasks) if tasks else M.ConstantMean())
            model = Exact(x, y, lik, mean, kern_fn(lik), mt=bool(tasks)).to(D)
            if post:
                post(model, seed)
            tweak(model, seed)
            return dict(model=model, lik=model.likelihood, x=(x,), y=y, xs=(xs,), kind="exact")
        fams[name] = build

    exact("exact_rbf", lambda lik: K.ScaleKernel(K.RBFKernel()))
    exact("exact_matern_ard", lambda lik: K.ScaleKernel(K.MaternKernel(nu=1.5, ard_num_dims=2)), d=2)
    exact("exact_sm", lambda lik: K.SpectralMixtureKernel(num_mixtures=2, ard_num_dims=1))
    exact("exact_rq_periodic", lambda lik: K.RQKernel() + K.ScaleKernel(K.PeriodicKernel()) * K.LinearKernel())
    exact("exact_rff", lambda lik: K.ScaleKernel(K.RFFKernel(num_samples=6, num_dims=1)))
    exact("exact_rff_lazy", lambda lik: K.ScaleKernel(K.RFFKernel(num_samples=6)))
    exact("kiss", lambda lik: K.ScaleKernel(K.GridInterpolationKernel(K.RBFKernel(), grid_size=12, num_dims=1, grid_bounds=[(-1.5, 1.5)])))
    exact("sgpr", lambda lik: K.InducingPointKernel(K.ScaleKernel(K.RBFKernel()), inducing_points=torch.linspace(-0.9, 0.9, 4, dtype=D).unsqueeze(-1), likelihood=lik))
    exact("mtask_rank1", lambda lik: K.MultitaskKernel(K.RBFKernel(), num_tasks=2, rank=1), lambda s, n: L.MultitaskGaussianLikelihood(num_tasks=2, rank=1), tasks=2)
    exact("mtask_rank0", lambda lik: K.MultitaskKernel(K.MaternKernel(nu=2.5), num_tasks=2, rank=1), lambda s, n: L.MultitaskGaussianLikelihood(num_tasks=2, rank=0), tasks=2)
    exact("lcm", lambda lik: K.LCMKernel([K.RBFKernel(), K.MaternKernel(nu=0.5)], num_tasks=2, rank=1), lambda s, n: L.MultitaskGaussianLikelihood(num_tasks=2), tasks=2)
    exact("fixed_noise", lambda lik: K.ScaleKernel(K.RBFKernel()), lambda s, n: L.FixedNoiseGaussianLikelihood(noise=0.05 + 0.01 * torch.arange(n, dtype=D), learn_additional_noise=False))
    exact("fixed_noise_learned", lambda lik: K.ScaleKernel(K.MaternKernel(nu=2.5)), lambda s, n: L.FixedNoiseGaussianLikelihood(noise=0.05 + 0.01 * torch.arange(n, dtype=D), learn_additional_noise=True))

    def with_priors(model, seed):
        s = 1.0 + 0.1 * (seed % 7)                    # prior parameters differ between original and fresh construction
        model.covar_module.base_kernel.register_prior("lengthscale_prior", P.GammaPrior(2.0 * s, 3.0), "lengthscale")
        model.covar_module.register_prior("outputscale_prior", P.LogNormalPrior(0.1 * s, 1.0), "outputscale")
        model.likelihood.noise_covar.register_prior("noise_prior", P.SmoothedBoxPrior(0.01, 1.0 * s, sigma=0.1), "noise")
        model.mean_module.register_prior("mean_prior", P.NormalPrior(0.0, 2.0 * s), "constant")
    exact("exact_priors", lambda lik: K.ScaleKernel(K.RBFKernel()), post=with_priors)

    def with_constraints(model, seed):
        s = 0.02 * (seed % 7)                         # bounds differ between original and fresh construction
        model.covar_module.base_kernel.register_constraint("raw_lengthscale", Interval(0.05 + s, 4.0 + s))
        model.likelihood.noise_covar.register_constraint("raw_noise", GreaterThan(1e-3 + s / 10))
    exact("exact_constraints", lambda lik: K.ScaleKernel(K.RBFKernel()), post=with_constraints)

    def hadamard(seed):
        torch.manual_seed(seed)
        x, y, xs = data(7)
        i = (torch.arange(x.shape[0]) % 2).unsqueeze(-1)
        lik = L.GaussianLikelihood()
        model = Hadamard(x, i, y, lik, prior=P.LKJCovariancePrior(2, 1.0 + 0.1 * (seed % 5), P.SmoothedBoxPrior(0.05, 2.0))).to(D)
        tweak(model, seed)
        return dict(model=model, lik=lik, x=(x, i), y=y, xs=(xs, torch.tensor([[0], [1], [0]])), kind="exact")
    fams["hadamard_lkj"] = hadamard

    def svgp(name, strat, dist, mt=None):
        def build(seed):
            torch.manual_seed(seed)
            tasks = {"lmc": 3, "indep": 2}.get(mt, 0)
            x, y, xs = data(7, tasks=tasks)
            lik = (L.MultitaskGaussianLikelihood(num_tasks=tasks) if tasks else L.GaussianLikelihood()).to(D)
            model = SVGP(strat, dist, seed, mt).to(D)
            tweak(model, seed, 0.1)
            tweak(lik, seed, 0.1)
            return dict(model=model, lik=lik, x=(x,), y=y, xs=(xs,), kind="svgp")
        fams[name] = build
    svgp("svgp_chol", "std", "chol")
    svgp("svgp_meanfield", "std", "mf")
    svgp("svgp_delta", "std", "delta")
    svgp("svgp_natural", "std", "nat")
    svgp("svgp_trilnatural", "std", "trilnat")
    svgp("usvgp_chol", "unw", "chol")
    svgp("svgp_lmc", "std", "chol", "lmc")
    svgp("svgp_indep_mt", "std", "chol", "indep")

    def model_list(seed):
        a, b = fams["exact_rbf"](seed), fams["exact_matern_ard"](seed + 1)
        ml = gpytorch.models.IndependentModelList(a["model"], b["model"])
        ll = gpytorch.likelihoods.LikelihoodList(a["lik"], b["lik"])
        return dict(model=ml, lik=ll, x=(a["x"], b["x"]), y=(a["y"], b["y"]), xs=(a["xs"], b["xs"]), kind="list")
    fams["model_list"] = model_list
    return fams


def observables(m, save_mode):
    """prior, evaluation-mode predictive and training objective of a model bundle, as a dict of tensors"""
    import torch
    import gpytorch
    from gpytorch import settings
    model, lik = m["model"], m["lik"]
    out = {}
    # train/eval flags of every module are state too (a restored sub-module in the other mode takes another code path)
    out["modes"] = torch.tensor([float(mod.training) for _, mod in sorted(model.named_modules(), key=lambda kv: kv[0])]
                                + [float(mod.training) for _, mod in sorted(lik.named_modules(), key=lambda kv: kv[0])], dtype=torch.float64)
    torch.manual_seed(4242)   # state that is drawn on first use (variational initialisation noise) is drawn identically on both sides
    was_training = model.training
    try:
        if m["kind"] == "list":
            model.eval(); lik.eval()
            preds = model(*[xs[0] for xs in m["xs"]])
            for k, p in enumerate(preds):
                out["pred%d.mean" % k], out["pred%d.cov" % k] = p.mean.detach().clone(), p.covariance_matrix.detach().clone()
            model.train(); lik.train()
            mll = gpytorch.mlls.SumMarginalLogLikelihood(lik, model)
            out["objective"] = mll(model(*model.train_inputs), model.train_targets).detach().clone()
            return out
        model.eval(); lik.eval()
        if m["kind"] == "exact":
            with settings.prior_mode(True):
                p = model(*m["xs"])
            out["prior.mean"], out["prior.cov"] = p.mean.detach().clone(), p.covariance_matrix.detach().clone()
        else:
            p = model.forward(m["xs"][0])
            out["prior.mean"], out["prior.cov"] = p.mean.detach().clone(), p.covariance_matrix.detach().clone()
        p = model(*m["xs"])
        out["pred.mean"], out["pred.cov"] = p.mean.detach().clone(), p.covariance_matrix.detach().clone()
        q = lik(p) if m["kind"] == "svgp" or not isinstance(lik, gpytorch.likelihoods.FixedNoiseGaussianLikelihood) else lik(p, noise=torch.full(p.mean.shape, 0.07, dtype=p.mean.dtype))
        out["marginal.var"] = q.variance.detach().clone()
        model.train(); lik.train()
        if m["kind"] == "exact":
            mll = gpytorch.mlls.ExactMarginalLogLikelihood(lik, model)
            out["objective"] = mll(model(*m["x"]), m["y"]).detach().clone()
        else:
            mll = gpytorch.mlls.VariationalELBO(lik, model, num_data=m["y"].shape[0])
            out["objective"] = mll(model(m["x"][0]), m["y"]).detach().clone()
            out["kl"] = model.variational_strategy.kl_divergence().detach().clone()
        for n_, c in model.named_constraints():
            if getattr(c, "lower_bound", None) is not None:
                out["constraint." + n_ + ".lo"] = torch.as_tensor(c.lower_bound).detach().clone().double()
                out["constraint." + n_ + ".hi"] = torch.as_tensor(c.upper_bound).detach().clone().double()
        for n_, mod, prior, closure, _ in model.named_priors():
            for bn, b in prior.named_buffers():
                out["prior." + n_ + "." + bn] = b.detach().clone().double()
            for pn, pp in prior.named_parameters():
                out["prior." + n_ + "." + pn] = pp.detach().clone().double()
    finally:
        model.train(was_training)
        lik.train(was_training)
    return out


def to_save_point(m, point):
    import torch
    import gpytorch
    from gpytorch import settings
    model, lik = m["model"], m["lik"]
    model.train(); lik.train()
    if point == "fresh":
        return
    params = list(model.parameters()) + ([] if m["kind"] != "svgp" else list(lik.parameters()))
    opt = torch.optim.SGD(params, lr=0.02)
    for _ in range(2):
        opt.zero_grad()
        if m["kind"] == "list":
            loss = -gpytorch.mlls.SumMarginalLogLikelihood(lik, model)(model(*model.train_inputs), model.train_targets)
        elif m["kind"] == "exact":
            loss = -gpytorch.mlls.ExactMarginalLogLikelihood(lik, model)(model(*m["x"]), m["y"])
        else:
            loss = -gpytorch.mlls.VariationalELBO(lik, model, num_data=m["y"].shape[0])(model(m["x"][0]), m["y"])
        loss.sum().backward()
        opt.step()
    model.zero_grad(set_to_none=True)
    lik.zero_grad(set_to_none=True)
    if point == "trained":
        return
    model.eval(); lik.eval()
    with settings.detach_test_caches(point != "attached"):
        if m["kind"] == "list":
            outs = model(*[xs[0] for xs in m["xs"]])
            [o.covariance_matrix for o in outs]
        else:
            model(*m["xs"]).covariance_matrix


def round_trip(fams, fam, m, mech, seed):
    """returns the restored bundle"""
    import torch
    model, lik = m["model"], m["lik"]
    if mech in ("state_dict", "state_dict_into_used"):
        fresh = fams[fam](seed + 1000)                     # same architecture, different construction seed / hyperparameters
        if mech == "state_dict_into_used":
            # the receiving model has already predicted in eval mode with ITS parameters: loading must not leave those caches in effect
            to_save_point(fresh, "eval_predicted")
        buf = io.BytesIO()
        torch.save({"model": model.state_dict(), "lik": lik.state_dict()}, buf)
        buf.seek(0)
        sd = torch.load(buf)
        fresh["model"].load_state_dict(sd["model"])
        if m["kind"] != "exact":
            fresh["lik"].load_state_dict(sd["lik"])
        fresh["model"].train(model.training)
        fresh["lik"].train(lik.training)
        return fresh
    if mech == "pickle":
        model2, lik2 = pickle.loads(pickle.dumps((model, lik)))
    else:
        model2, lik2 = copy.deepcopy((model, lik))
    r = dict(m)
    r["model"], r["lik"] = model2, (model2.likelihood if m["kind"] == "exact" else lik2)
    return r


_FAMS = None


def _worker(item):
    global _FAMS
    torch = core.setup_torch()
    if _FAMS is None:
        _FAMS = zoo()
    out = []
    for c in item["cases"]:
        fam, point, mech, seed = c["fam"], c["point"], c["mech"], c["seed"]
        desc = "%s saved at '%s' via %s" % (fam, point, mech)
        r = dict(key=[fam, point, mech], ok=True, nontrivial=True, sig="C18/%s/%s/%s" % (fam, mech, point), case=c, sample=dict(case=desc))
        ok, m = core.guarded(lambda: _FAMS[fam](seed))
        if not ok:
            return [dict(machinery="cannot build family %s: %s" % (fam, m))]
        ok, e = core.guarded(lambda: to_save_point(m, point))
        if not ok:
            return [dict(machinery="cannot bring %s to save point %s: %s" % (fam, point, e))]
        ok, rest = core.guarded(lambda: round_trip(_FAMS, fam, m, mech, seed))
        if not ok:
            r.update(ok=False, sig=r["sig"] + "/raises", detail="%s: the round trip raised %s" % (desc, rest))
            out.append(r)
            continue
        ok, o1 = core.guarded(lambda: observables(m, point))
        if not ok:
            return [dict(machinery="observables of the original %s failed: %s" % (fam, o1))]
        ok, o2 = core.guarded(lambda: observables(rest, point))
        if not ok:
            r.update(ok=False, sig=r["sig"] + "/restored-unusable", detail="%s: the restored model raises %s" % (desc, o2))
            out.append(r)
            continue
        bad = []
        for k in o1:
            if k not in o2:
                bad.append("%s missing" % k)
                continue
            if mech.startswith("state_dict"):
                good, why = core.close(o2[k], o1[k], 1e-12, 1e-13)
            else:
                good = o1[k].shape == o2[k].shape and torch.equal(o1[k], o2[k])
                why = "" if good else "not bit-for-bit (max diff %.3e)" % (float((o1[k].double() - o2[k].double()).abs().max()) if o1[k].shape == o2[k].shape else float("nan"))
            if not good:
                bad.append("%s: %s" % (k, why))
        extra = sorted(set(o2) - set(o1))
        if extra:
            bad.append("restored model has extra %s" % extra[:3])
        if bad:
            r.update(ok=False, sig=r["sig"] + "/" + bad[0].split(":")[0].split(".")[0], detail="%s: %s" % (desc, "; ".join(bad[:4])))
        out.append(r)
    return out


def inventory(fams, fam):
    """carrier kinds of a family, by introspection: parameters, buffers, lazily registered buffers, plain tensor
    attributes that are fixed by the constructor vs drawn at construction"""
    import torch
    a, b = fams[fam](11), fams[fam](12)
    kinds = {"param", "cache"}

    def tensors(bundle):
        out = {}
        for mn, mod in list(bundle["model"].named_modules()) + [("lik." + n_, x) for n_, x in bundle["lik"].named_modules()]:
            for k, v in vars(mod).items():
                if k.startswith("_") and k not in ("_cached_kernel_mat",):
                    continue
                if torch.is_tensor(v) and not isinstance(v, torch.nn.Parameter):
                    out[mn + "." + k] = v
        return out
    if any(True for _ in a["model"].buffers()):
        kinds.add("buffer")
    ta, tb = tensors(a), tensors(b)
    for k in ta:
        if k in tb and ta[k].shape == tb[k].shape and torch.equal(ta[k], tb[k]):
            kinds.add("ctor")
        else:
            kinds.add("random")
    keys0 = set(a["model"].state_dict())
    to_save_point(a, "eval_predicted")
    if set(a["model"].state_dict()) - keys0:
        kinds.add("lazybuf")
    return kinds


def run(ck):
    thorough = ck.tier == "thorough"
    core.setup_torch()
    ck.rule = ("cases = model family (exact x kernels/likelihoods/priors/constraints, SGPR, KISS-GP, multitask, Hadamard+LKJ, LCM, variational strategies x "
               "distributions, model list) x save point (fresh, trained, eval+predicted, attached caches) x mechanism (state_dict into a freshly and differently "
               "constructed model, pickle, deepcopy); non-trivial = all; the restored model's prior, predictive, objective, constraint bounds and prior "
               "parameters are compared with the original's (bit-for-bit for pickle/deepcopy, 1e-12 for state_dict)")
    ck.assumptions = ["'freshly constructed model of the same architecture' = the same constructor call under another random seed, then different hyperparameters, "
                      "prior parameters and constraint bounds registered the same way", "float64; 7 training points"]
    fams = zoo()
    inv = {}
    for f in fams:
        if f == "model_list":
            continue
        ok, kinds = core.guarded(lambda: inventory(fams, f))
        if not ok:
            raise core.Machinery("inventory of %s failed: %s" % (f, kinds))
        inv[f] = kinds
    classes = {}
    for f, k in inv.items():
        classes.setdefault(frozenset(k), []).append(f)
    ck.extra["carrier_inventory"] = {"+".join(sorted(k)): v for k, v in classes.items()}
    wd = os.path.join(tlc.BUILD, PID)
    jobs, names = [], []
    for j, (kinds, fl) in enumerate(classes.items()):
        mod, cfg = write_mc(wd, "inv%d" % j, kinds, 5 if thorough else 4)
        jobs.append(((mod, cfg), dict(name=PID + "/inv%d" % j, check=False, workers=4, dump=(j == 0))))
        names.append((kinds, fl))
    rs = tlc.run_many(jobs, parallel=4)
    predicted_fail = {}
    for (kinds, fl), r in zip(names, rs):
        ck.add_tlc(r, "Persist " + "+".join(sorted(kinds)))
        ck.require_coverage(r, ["Next"]) if False else None
        if r.violation:
            for f in fl:
                predicted_fail[f] = r.violation["name"]
        elif r.rc != 0:
            raise tlc.TLCError("TLC failed on Persist:\n" + r.stdout[-1500:])
    ck.extra["model_predictions"] = predicted_fail
    points = ["fresh", "trained", "eval_predicted", "attached"]
    mechs = ["state_dict", "pickle", "deepcopy"]
    cases = []
    for f in fams:
        if f not in ("exact_rff_lazy",):
            # a checkpoint from ANY save point (incl. one taken before the original's first call) into a model that has already been used
            for p in points:
                cases.append(dict(fam=f, point=p, mech="state_dict_into_used", seed=ck.seed + 3))
        for p, mch in itertools.product(points, mechs):
            if not thorough and p == "fresh" and mch != "state_dict":
                continue
            cases.append(dict(fam=f, point=p, mech=mch, seed=ck.seed + 3))
            if thorough:
                cases.append(dict(fam=f, point=p, mech=mch, seed=ck.seed + 17))
    items = [dict(cases=cases[i:i + 3]) for i in range(0, len(cases), 3)]
    results = core.pmap(_worker, items, chunksize=1)
    ck.absorb(results)
    ck.section("replay", families=len(fams), cases=len(cases))


def replay(rep):
    core.setup_torch()
    res = _worker(dict(cases=[rep["case"]]))
    bad = [r for r in res if not r.get("ok", True) or r.get("machinery")]
    for r in bad:
        print("VIOLATION property=C18 replay=- :: %s :: %s" % (r.get("sig"), r.get("detail", r.get("machinery"))))
    if not bad:
        print("replay passed")
    return 1 if bad else 0
