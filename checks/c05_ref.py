"""C05 helpers: the DOCUMENTED covariance functions written from the class docstrings in plain float64 torch
(no gpytorch code is used here), builders for the real kernels, and the kernel trees of the lattice cells.

A kernel tree node is a dict:
  leaf   dict(t="leaf", fam=..., d=<kernel input dims>, ard=bool, bs=[..], ad=[..]|None, P={name: tensor})
  scale  dict(t="scale", a=node, s=tensor)            sum / product  dict(t="sum"|"product", a=node, b=node)
  addstruct / prodstruct  dict(t=..., a=leaf, D=<dims>)
"""
import itertools
import math

import torch

D64 = torch.float64
PI = math.pi
MATERN_NU = {"matern05": 0.5, "matern15": 1.5, "matern25": 2.5}
PPQ = {"pp0": 0, "pp1": 1, "pp2": 2, "pp3": 3}
GRAD_ORDER = {"rbfgrad": 1, "matern52grad": 1, "polygrad": 1, "rbfgradgrad": 2}
CYL_EPS = 1e-6
GSKL_EPS = 1e-8
HAMMING_VOCAB = 3


def U(g, lo, hi, *shape):
    return lo + (hi - lo) * torch.rand(tuple(shape), generator=g, dtype=D64)


# ------------------------------------------------------------------------------------------------
# parameters (inside their constraints, away from the defaults)
def sample_params(fam, d, ard, bs, g):
    k = d if ard else 1
    P = {}
    if fam in ("rbf", "matern05", "matern15", "matern25", "rq", "rbfgrad", "matern52grad", "rbfgradgrad", "sdelta", "ngadd"):
        P["ls"] = U(g, 0.6, 1.6, *bs, 1, k)
    if fam in PPQ:
        P["ls"] = U(g, 1.2, 2.6, *bs, 1, k)            # part of the pairs inside, part outside the support r < 1
    if fam == "rq":
        P["alpha"] = U(g, 0.5, 2.5, *bs, 1)
    if fam == "periodic":
        P["ls"] = U(g, 0.6, 1.6, *bs, 1, k)
        P["period"] = U(g, 0.7, 2.0, *bs, 1, k)
    if fam == "cosine":
        P["period"] = U(g, 0.7, 2.0, *bs, 1, 1)
    if fam == "linear":
        P["var"] = U(g, 0.5, 1.5, *bs, 1, k)
    if fam in ("polynomial", "polygrad"):
        P["off"] = U(g, 0.3, 1.5, *bs, 1)
        P["power"] = 2 + int(torch.randint(0, 2, (1,), generator=g))
    if fam == "constant":
        P["cv"] = U(g, 0.3, 1.5, *bs, 1)
    if fam == "sm":
        nq = 3
        P["w"] = U(g, 0.2, 1.0, *bs, nq)
        P["means"] = U(g, 0.1, 0.8, *bs, nq, 1, d)
        P["scales"] = U(g, 0.1, 0.6, *bs, nq, 1, d)
    if fam == "sdelta":
        P["Z"] = U(g, 0.1, 1.0, *bs, 4, d)
    if fam == "arc":
        P["ls"] = U(g, 0.8, 1.6, *bs, 1, k)
        P["angle"] = U(g, 0.2, 0.8, *bs, 1, k)
        P["radius"] = U(g, 0.5, 1.5, *bs, 1, k)
    if fam == "cyl":
        P["aw"] = U(g, 0.2, 1.0, *bs, 3)
        P["alpha"] = U(g, 0.6, 1.8, *bs, 1)
        P["beta"] = U(g, 0.6, 1.8, *bs, 1)
        P["ls"] = U(g, 0.5, 1.5, *bs, 1, 1)
    if fam == "hamming":
        P["alpha"] = U(g, 0.5, 2.0, *bs, 1)
        P["beta"] = U(g, 0.5, 2.0, *bs, 1)
    if fam == "gskl":
        P["ls"] = U(g, 0.8, 2.0, *bs, 1, 1)
    if fam == "ngadd":
        P["R"] = d if d <= 2 else 2
        P["o"] = U(g, 0.3, 1.2, *bs, P["R"])
    return P


def sample_inputs(fam, d_in, xb, n, g):
    """rows of the input matrix for `fam` with d_in columns"""
    if fam == "hamming":                 # one-hot encoded token sequences of length d_in, flattened
        tok = torch.randint(0, HAMMING_VOCAB, (*xb, n, d_in), generator=g)
        return torch.nn.functional.one_hot(tok, HAMMING_VOCAB).reshape(*xb, n, d_in * HAMMING_VOCAB).to(D64)
    if fam == "gskl":                    # [means, log variances]
        return torch.cat([U(g, -1.0, 1.0, *xb, n, d_in), U(g, -1.0, 0.5, *xb, n, d_in)], dim=-1)
    if fam == "cyl":                     # inside the unit ball, away from the origin and from the boundary
        v = torch.randn(*xb, n, d_in, generator=g, dtype=D64)
        v = v / v.norm(dim=-1, keepdim=True)
        return v * U(g, 0.2, 0.9, *xb, n, 1)
    return U(g, -1.0, 1.0, *xb, n, d_in)


# ------------------------------------------------------------------------------------------------
# documented covariance functions; x1 (*b, n1, d), x2 (*b, n2, d); parameters (*bs, 1, k) broadcast over the pairs
def pdiff(x1, x2):
    return x1.unsqueeze(-2) - x2.unsqueeze(-3)                  # (*b, n1, n2, d)


def _pp(t):                                                     # (*bs, 1, k) -> (*bs, 1, 1, k)
    return t.unsqueeze(-3)


def sq_scaled(P, x1, x2):
    u = pdiff(x1, x2) / _pp(P["ls"])
    return (u * u).sum(-1)


def safe_sqrt(sq):
    """sqrt with value 0 and zero derivative at 0 (k(x, x) does not depend on the lengthscale)"""
    pos = sq > 0
    return torch.where(pos, sq, torch.ones_like(sq)).sqrt() * pos


def matern_of_r(nu, r):
    if nu == 0.5:
        return torch.exp(-r)
    if nu == 1.5:
        s = math.sqrt(3) * r
        return (1 + s) * torch.exp(-s)
    s = math.sqrt(5) * r
    return (1 + s + s * s / 3) * torch.exp(-s)


def matern_bessel(nu, r):
    """the docstring's formula, 2^(1-nu)/Gamma(nu) (sqrt(2 nu) d)^nu K_nu(sqrt(2 nu) d), in mpmath"""
    import mpmath
    mpmath.mp.dps = 30
    s = mpmath.sqrt(2 * nu) * mpmath.mpf(r)
    return float(2 ** (1 - nu) / mpmath.gamma(nu) * s ** nu * mpmath.besselk(nu, s))


def pp_of_r(q, dim, r):
    j = dim // 2 + q + 1
    h = (1 - r).clamp_min(0.0)
    if q == 0:
        return h ** j
    if q == 1:
        return h ** (j + 1) * ((j + 1) * r + 1)
    if q == 2:
        return h ** (j + 2) * (1 + (j + 2) * r + (j * j + 4 * j + 3) / 3.0 * r ** 2)
    return h ** (j + 3) * (1 + (j + 3) * r + (6 * j * j + 36 * j + 45) / 15.0 * r ** 2 + (j ** 3 + 9 * j * j + 23 * j + 15) / 15.0 * r ** 3)


def out_batch(P_any, x1, x2):
    shapes = [x1.shape[:-2], x2.shape[:-2]] + [tuple(v.shape[:-2]) for v in P_any if torch.is_tensor(v) and v.dim() >= 2]
    return torch.broadcast_shapes(*shapes)


def k_leaf(fam, P, x1, x2):
    """documented covariance function of family `fam` between the rows of x1 and x2 (already restricted to the active dims)"""
    d = x1.shape[-1]
    if fam == "rbf":
        return torch.exp(-0.5 * sq_scaled(P, x1, x2))
    if fam in MATERN_NU:
        return matern_of_r(MATERN_NU[fam], safe_sqrt(sq_scaled(P, x1, x2)))
    if fam == "rq":
        a = P["alpha"].unsqueeze(-1)
        return (1 + sq_scaled(P, x1, x2) / (2 * a)) ** (-a)
    if fam == "periodic":
        s = torch.sin(PI * pdiff(x1, x2) / _pp(P["period"]))
        return torch.exp(-2.0 * (s * s / _pp(P["ls"])).sum(-1))
    if fam == "cosine":
        r = (pdiff(x1, x2) ** 2).sum(-1).sqrt()
        return torch.cos(PI * r / P["period"])
    if fam == "linear":
        return (x1.unsqueeze(-2) * x2.unsqueeze(-3) * _pp(P["var"])).sum(-1)
    if fam == "polynomial":
        return ((x1.unsqueeze(-2) * x2.unsqueeze(-3)).sum(-1) + P["off"].unsqueeze(-1)) ** P["power"]
    if fam in PPQ:
        return pp_of_r(PPQ[fam], d, sq_scaled(P, x1, x2).sqrt())
    if fam == "constant":
        b = torch.broadcast_shapes(x1.shape[:-2], x2.shape[:-2], P["cv"].shape[:-1])
        return P["cv"].unsqueeze(-1).expand(*b, x1.shape[-2], x2.shape[-2]).clone()
    if fam == "sm":
        tau = pdiff(x1, x2).unsqueeze(-4)                               # (*b, 1, n1, n2, d)
        sc, mu = P["scales"].unsqueeze(-2), P["means"].unsqueeze(-2)    # (*bs, Q, 1, 1, d)
        comp = torch.exp(-2 * PI ** 2 * (tau * sc) ** 2) * torch.cos(2 * PI * tau * mu)
        w = P["w"][..., None, None, None]
        return (w * comp).sum(-4).prod(-1)                              # product over the input dimensions of 1-d mixtures
    if fam == "sdelta":
        u = pdiff(x1, x2) / _pp(P["ls"])                                # (*b, n1, n2, d)
        z = P["Z"].unsqueeze(-3).unsqueeze(-3)                          # (*bs, 1, 1, S, d)
        return torch.cos(2 * PI * (u.unsqueeze(-2) * z).sum(-1)).mean(-1)
    if fam == "arc":
        def emb(x):
            t = PI * P["angle"] * x / P["ls"]
            return torch.cat([P["radius"] * torch.sin(t), P["radius"] * torch.cos(t)], dim=-1)
        e1, e2 = emb(x1), emb(x2)
        return matern_of_r(2.5, (pdiff(e1, e2) ** 2).sum(-1).sqrt())    # base kernel Matern-5/2 with unit lengthscale
    if fam == "cyl":
        r1, r2 = x1.norm(dim=-1, keepdim=True), x2.norm(dim=-1, keepdim=True)
        gram = (x1 / r1) @ (x2 / r2).transpose(-1, -2)
        ang = sum(P["aw"][..., p, None, None] * gram ** p for p in range(P["aw"].shape[-1]))
        al, be = P["alpha"].unsqueeze(-1), P["beta"].unsqueeze(-1)

        def kuma(r):
            return 1 - (1 - r ** al + CYL_EPS) ** be
        rr = (kuma(r1) - kuma(r2).transpose(-1, -2)).abs() / P["ls"]
        return matern_of_r(2.5, rr) * ang
    if fam == "hamming":
        T = d // HAMMING_VOCAB
        t1 = x1.reshape(*x1.shape[:-1], T, HAMMING_VOCAB).argmax(-1)
        t2 = x2.reshape(*x2.shape[:-1], T, HAMMING_VOCAB).argmax(-1)
        dh = (t1.unsqueeze(-2) != t2.unsqueeze(-3)).sum(-1).to(D64)
        al, be = P["alpha"].unsqueeze(-1), P["beta"].unsqueeze(-1)
        return ((1 + al) / (al + dh)) ** be
    if fam == "gskl":
        h = d // 2
        m1, v1 = x1[..., :h].unsqueeze(-2), x1[..., h:].exp().unsqueeze(-2) + GSKL_EPS
        m2, v2 = x2[..., :h].unsqueeze(-3), x2[..., h:].exp().unsqueeze(-3) + GSKL_EPS
        skl = 0.5 * (v1 / v2 + v2 / v1 - 2 + (m1 - m2) ** 2 * (1 / v1 + 1 / v2)).sum(-1)
        return torch.exp(-skl / P["ls"])
    if fam == "ngadd":                                                  # sum_deg outputscale_deg * e_deg(k_1, .., k_d), k_t = 1-d RBF kernels
        ard = P["ls"].shape[-1] > 1
        zs = [k_leaf("rbf", {"ls": P["ls"][..., t:t + 1] if ard else P["ls"]}, x1[..., t:t + 1], x2[..., t:t + 1]) for t in range(d)]
        res = 0
        for deg in range(1, P["R"] + 1):
            e = sum(_prod([zs[t] for t in S]) for S in itertools.combinations(range(d), deg))   # explicit sum over subsets
            res = res + P["o"][..., deg - 1, None, None] * e
        return res
    if fam in GRAD_ORDER:
        return grad_reference(fam, P, x1, x2)
    raise KeyError(fam)


def _prod(ts):
    out = ts[0]
    for t in ts[1:]:
        out = out * t
    return out


# ---- derivative kernels: autograd derivatives of the documented base kernel, entry by entry -----------------------
def base_scalar(fam, P, b):
    """k(u, v) for single rows u, v (1-d tensors) of batch element b"""
    def pick(t):
        return t if t.dim() == 2 else t[b]
    if fam in ("rbfgrad", "rbfgradgrad"):
        ls = pick(P["ls"])[0]
        return lambda u, v: torch.exp(-0.5 * (((u - v) / ls) ** 2).sum())
    if fam == "matern52grad":
        ls = pick(P["ls"])[0]

        def f(u, v):
            r = (((u - v) / ls) ** 2).sum().sqrt()
            s = math.sqrt(5) * r
            return (1 + s + s * s / 3) * torch.exp(-s)
        return f
    if fam == "polygrad":
        off = P["off"] if P["off"].dim() == 1 else P["off"][b]
        return lambda u, v: ((u * v).sum() + off[0]) ** P["power"]


def _all_D(s, v, d, order):
    """[D_a s : a = 0 .. order*d] for a scalar s (graph kept): s, ds/dv_1 .. ds/dv_d, d2s/dv_1^2 .. d2s/dv_d^2"""
    zero = torch.zeros((), dtype=D64)
    outs = [s]
    g = torch.autograd.grad(s, v, create_graph=True, allow_unused=True)[0] if s.requires_grad else None
    if g is None:
        return outs + [zero] * (order * d)
    outs += [g[k] for k in range(d)]
    if order == 2:
        for k in range(d):
            g2 = torch.autograd.grad(g[k], v, create_graph=True, allow_unused=True)[0] if g.requires_grad else None
            outs.append(zero if g2 is None else g2[k])
    return outs


def deriv_matrix(kfun, x1, x2, order, coincident=None):
    """M[i*m + a, j*m + b] = D_a^x D_b^x' k(x1_i, x2_j); a = 0 value, 1..d = d/dx_a, d+1..2d = d^2/dx_a^2 (m = order*d + 1).
    coincident: optional m x m block for x1_i == x2_j (kernels whose autograd derivative is 0 * inf there)"""
    n1, d = x1.shape
    n2 = x2.shape[0]
    m = order * d + 1
    out = torch.zeros(n1 * m, n2 * m, dtype=D64)
    for i in range(n1):
        for j in range(n2):
            if coincident is not None and torch.equal(x1[i], x2[j]):
                out[i * m:(i + 1) * m, j * m:(j + 1) * m] = coincident
                continue
            u = x1[i].detach().clone().requires_grad_(True)
            v = x2[j].detach().clone().requires_grad_(True)
            for a, sa in enumerate(_all_D(kfun(u, v), u, d, order)):
                for b, sab in enumerate(_all_D(sa, v, d, order)):
                    out[i * m + a, j * m + b] = sab.detach()
    return out


def coincident_block(fam, P, b, d):
    """Matern52KernelGrad at r = 0, from the formulas of its docstring: k = 1, first derivatives 0, Hessian block (5/3) delta_ij / l_i^2"""
    if fam != "matern52grad":
        return None
    ls = (P["ls"] if P["ls"].dim() == 2 else P["ls"][b])[0].expand(d)
    blk = torch.zeros(d + 1, d + 1, dtype=D64)
    blk[0, 0] = 1.0
    blk[1:, 1:] = torch.diag(5.0 / (3.0 * ls ** 2))
    return blk


def grad_reference(fam, P, x1, x2):
    order = GRAD_ORDER[fam]
    xb = torch.broadcast_shapes(x1.shape[:-2], x2.shape[:-2])
    d = x1.shape[-1]
    if len(xb) == 0:
        return deriv_matrix(base_scalar(fam, P, 0), x1, x2, order, coincident_block(fam, P, 0, d))
    x1e, x2e = x1.expand(*xb, *x1.shape[-2:]), x2.expand(*xb, *x2.shape[-2:])
    return torch.stack([deriv_matrix(base_scalar(fam, P, b), x1e[b], x2e[b], order, coincident_block(fam, P, b, d)) for b in range(xb[0])])


# ------------------------------------------------------------------------------------------------
# kernel trees: reference value and the real kernel
def ref_tree(node, x1, x2):
    t = node["t"]
    if t == "leaf":
        if node["ad"] is not None:
            idx = torch.tensor(node["ad"], dtype=torch.long)
            x1, x2 = x1.index_select(-1, idx), x2.index_select(-1, idx)
        return k_leaf(node["fam"], node["P"], x1, x2)
    if t == "scale":
        return node["s"][..., None, None] * ref_tree(node["a"], x1, x2)
    if t == "sum":
        return ref_tree(node["a"], x1, x2) + ref_tree(node["b"], x1, x2)
    if t == "product":
        return ref_tree(node["a"], x1, x2) * ref_tree(node["b"], x1, x2)
    if t in ("addstruct", "prodstruct"):
        leaf = node["a"]
        terms = []
        for k in range(x1.shape[-1]):                                   # one 1-d kernel per input dimension
            Pk = {n: (v[..., k:k + 1] if (torch.is_tensor(v) and n in ("ls", "period", "var") and v.shape[-1] > 1) else v) for n, v in leaf["P"].items()}
            terms.append(k_leaf(leaf["fam"], Pk, x1[..., k:k + 1], x2[..., k:k + 1]))
        return sum(terms) if t == "addstruct" else _prod(terms)
    raise KeyError(t)


def build_leaf(K, node):
    fam, d, ard, bs, P = node["fam"], node["d"], node["ard"], torch.Size(node["bs"]), node["P"]
    kw = {}
    if node["ad"] is not None:
        kw["active_dims"] = tuple(node["ad"])
    if len(bs):
        kw["batch_shape"] = bs
    if ard and fam != "sm":
        kw["ard_num_dims"] = d
    if fam == "rbf":
        k = K.RBFKernel(**kw)
    elif fam in MATERN_NU:
        k = K.MaternKernel(nu=MATERN_NU[fam], **kw)
    elif fam == "rq":
        k = K.RQKernel(**kw)
    elif fam == "periodic":
        k = K.PeriodicKernel(**kw)
    elif fam == "cosine":
        k = K.CosineKernel(**kw)
    elif fam == "linear":
        k = K.LinearKernel(**kw)
    elif fam == "polynomial":
        k = K.PolynomialKernel(power=P["power"], **kw)
    elif fam in PPQ:
        k = K.PiecewisePolynomialKernel(q=PPQ[fam], **kw)
    elif fam == "constant":
        k = K.ConstantKernel(**kw)
    elif fam == "sm":
        k = K.SpectralMixtureKernel(num_mixtures=P["w"].shape[-1], ard_num_dims=d, **kw)
    elif fam == "sdelta":
        k = K.SpectralDeltaKernel(num_dims=d, num_deltas=P["Z"].shape[-2], **kw)
    elif fam == "arc":
        k = K.ArcKernel(K.MaternKernel(nu=2.5), **kw)
    elif fam == "cyl":
        k = K.CylindricalKernel(num_angular_weights=P["aw"].shape[-1], radial_base_kernel=K.MaternKernel(nu=2.5, **({"batch_shape": bs} if len(bs) else {})), **kw)
    elif fam == "hamming":
        k = K.HammingIMQKernel(vocab_size=HAMMING_VOCAB, **kw)
    elif fam == "gskl":
        k = K.GaussianSymmetrizedKLKernel(**kw)
    elif fam == "rbfgrad":
        k = K.RBFKernelGrad(**kw)
    elif fam == "matern52grad":
        k = K.Matern52KernelGrad(**kw)
    elif fam == "polygrad":
        k = K.PolynomialKernelGrad(power=P["power"], **kw)
    elif fam == "rbfgradgrad":
        k = K.RBFKernelGradGrad(**kw)
    elif fam == "ngadd":
        base = K.RBFKernel(**{a: b for a, b in kw.items() if a != "active_dims"})
        k = K.NewtonGirardAdditiveKernel(base, num_dims=d, max_degree=P["R"], **({"batch_shape": bs} if len(bs) else {}))
    else:
        raise KeyError(fam)
    k = k.to(D64)
    # parameters through the public setters
    if fam == "ngadd":
        k.base_kernel.lengthscale = P["ls"]
        k.outputscale = P["o"]
    elif fam == "cyl":
        k.angular_weights = P["aw"]
        k.alpha = P["alpha"]
        k.beta = P["beta"]
        k.radial_base_kernel.lengthscale = P["ls"]
    else:
        if "ls" in P:
            k.lengthscale = P["ls"]
        if fam == "rq":
            k.alpha = P["alpha"]
        if fam in ("periodic", "cosine"):
            k.period_length = P["period"]
        if fam == "linear":
            k.variance = P["var"]
        if fam in ("polynomial", "polygrad"):
            k.offset = P["off"]
        if fam == "constant":
            k.constant = P["cv"]
        if fam == "sm":
            k.mixture_weights = P["w"]
            k.mixture_means = P["means"]
            k.mixture_scales = P["scales"]
        if fam == "sdelta":
            k.Z = P["Z"]
        if fam == "arc":
            k.angle = P["angle"]
            k.radius = P["radius"]
            k.base_kernel.lengthscale = torch.ones(1, 1, dtype=D64)      # ArcKernel.__init__ set it to 1 in float32 (1 - 4.5e-10 after .to(float64))
        if fam == "hamming":
            k.alpha = P["alpha"]
            k.beta = P["beta"]
    return k


def build_tree(K, node):
    t = node["t"]
    if t == "leaf":
        return build_leaf(K, node)
    if t == "scale":
        k = K.ScaleKernel(build_tree(K, node["a"]), **({"batch_shape": torch.Size(node["bs"])} if len(node["bs"]) else {})).to(D64)
        k.outputscale = node["s"]
        return k
    if t == "sum":
        return build_tree(K, node["a"]) + build_tree(K, node["b"])
    if t == "product":
        return build_tree(K, node["a"]) * build_tree(K, node["b"])
    if t == "addstruct":
        return K.AdditiveStructureKernel(build_tree(K, node["a"]), num_dims=node["D"])
    if t == "prodstruct":
        return K.ProductStructureKernel(build_tree(K, node["a"]), num_dims=node["D"])
    raise KeyError(t)


ACTIVE = {1: [1], 2: [2, 0], 3: [3, 0, 2]}          # active_dims for a kernel of d dims on inputs with d + 1 columns (not monotone on purpose)


def cell_tree(cell, g):
    """the kernel tree, the number of input columns and the input family of a lattice cell"""
    fam, d, ard = cell["fam"], cell["d"], cell["ard"]
    bs = [2] if cell["batch"] == "kernel" else []
    ad = ACTIVE[d] if cell["adims"] else None
    d_in = d + 1 if cell["adims"] else d
    leaf = dict(t="leaf", fam=fam, d=d, ard=ard, bs=bs, ad=ad, P=sample_params(fam, d, ard, bs, g))
    comp = cell["comp"]
    if comp == "plain":
        tree = leaf
    elif comp == "scale":
        tree = dict(t="scale", a=leaf, bs=bs, s=U(g, 0.5, 2.0, *bs))
    elif comp in ("sum", "product"):
        if fam in GRAD_ORDER:                      # same number of outputs per input: a second kernel of the same family
            other = dict(t="leaf", fam=fam, d=d, ard=ard, bs=bs, ad=ad, P=sample_params(fam, d, ard, bs, g))
            if fam == "polygrad":
                other["P"]["power"] = leaf["P"]["power"]
        else:
            cols = d_in * (HAMMING_VOCAB if fam == "hamming" else 2 if fam == "gskl" else 1)
            other = dict(t="leaf", fam="rq", d=cols, ard=False, bs=bs, ad=None, P=sample_params("rq", cols, False, bs, g))
        tree = dict(t=comp, a=dict(t="scale", a=leaf, bs=bs, s=U(g, 0.5, 2.0, *bs)), b=other)
    else:
        tree = dict(t=comp, a=leaf, D=d)
    return tree, d_in
