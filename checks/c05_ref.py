"""C05 helpers: the DOCUMENTED covariance functions written from the class docstrings in plain float64 torch
(no gpytorch code is used here), builders for the real kernels, and the kernel trees of the lattice cells.

A kernel tree node is a dict:
  leaf   dict(t="leaf", fam=..., d=<kernel input dims>, ard=bool, bs=[..], ad=[..]|None, P={name: tensor})
  scale  dict(t="scale", a=node, s=tensor)            sum / product  dict(t="sum"|"product", a=node, b=node)
  addstruct / prodstruct  dict(t=..., a=leaf, D=<dims>)
"""
import itertools
import math

import torch

D64 = torch.float64
PI = math.pi
MATERN_NU = {"matern05": 0.5, "matern15": 1.5, "matern25": 2.5}
PPQ = {"pp0": 0, "pp1": 1, "pp2": 2, "pp3": 3}
GRAD_ORDER = {"rbfgrad": 1, "matern52grad": 1, "polygrad": 1, "rbfgradgrad": 2}
CYL_EPS = 1e-6
GSKL_EPS = 1e-8
HAMMING_VOCAB = 3


def U(g, lo, hi, *shape):
    return lo + (hi - lo) * torch.rand(tuple(shape), generator=g, dtype=D64)


def UD(g, lo, hi, *shape):
    """like U, but ALL entries of the tensor are pairwise distinct (stratified: one entry per slot of a random permutation,
    pairwise gap >= 0.4 (hi - lo) / numel): no ARD / batched / multi-component parameter ever has two equal values"""
    n = 1
    for v in shape:
        n *= int(v)
    slots = torch.randperm(n, generator=g).to(D64)
    t = (slots + 0.2 + 0.6 * torch.rand(n, generator=g, dtype=D64)) / n
    return (lo + (hi - lo) * t).reshape(tuple(shape))


def all_distinct(P):
    """names of the tensor-valued parameters with two equal entries (must be empty)"""
    bad = []
    for n, v in P.items():
        if torch.is_tensor(v) and v.numel() > 1 and v.dtype.is_floating_point and torch.unique(v).numel() != v.numel():
            bad.append(n)
        elif isinstance(v, dict):
            bad += [n + "." + b for b in all_distinct(v)]
        elif isinstance(v, list):
            for t, w in enumerate(v):
                if isinstance(w, dict):
                    bad += ["%s[%d].%s" % (n, t, b) for b in all_distinct(w)]
    return bad


def tree_dups(node):
    """parameters of a kernel tree that have two equal entries"""
    out = list(all_distinct(node.get("P", {})))
    if torch.is_tensor(node.get("s")) and node["s"].numel() > 1 and torch.unique(node["s"]).numel() != node["s"].numel():
        out.append("outputscale")
    for key in ("a", "b"):
        if isinstance(node.get(key), dict):
            out += tree_dups(node[key])
    return out


NTASKS = 3
RANKS = {"1": 1, "2": 2, "full": NTASKS}


# ------------------------------------------------------------------------------------------------
# parameters (inside their constraints, away from the defaults); opt = dict(arg=<constructor argument>, val=<value class>) of an
# "args" cell of Kernels.tla (empty for the cells of the main lattice)
def sample_params(fam, d, ard, bs, g, opt=None):
    opt = opt or {}

    def ov(arg, default):
        return opt["val"] if opt.get("arg") == arg else default
    U = UD                                             # every parameter tensor has pairwise distinct entries
    k = d if ard else 1
    P = {}
    if fam in ("rbf", "matern05", "matern15", "matern25", "rq", "rbfgrad", "matern52grad", "rbfgradgrad", "sdelta", "ngadd", "rff"):
        P["ls"] = U(g, 0.6, 1.6, *bs, 1, k)
    if fam in PPQ:
        P["ls"] = U(g, 1.2, 2.6, *bs, 1, k)            # part of the pairs inside, part outside the support r < 1
    if fam == "rq":
        P["alpha"] = U(g, 0.5, 2.5, *bs, 1)
    if fam == "periodic":
        P["ls"] = U(g, 0.6, 1.6, *bs, 1, k)
        P["period"] = U(g, 0.7, 2.0, *bs, 1, k)
    if fam == "cosine":
        P["period"] = U(g, 0.7, 2.0, *bs, 1, 1)
    if fam == "linear":
        P["var"] = U(g, 0.5, 1.5, *bs, 1, k)
    if fam in ("polynomial", "polygrad"):
        P["off"] = U(g, 0.3, 1.5, *bs, 1)
        pw = ov("power", None)
        P["power"] = 2 + int(torch.randint(0, 2, (1,), generator=g)) if pw is None else int(pw[-1])
        P["power_tensor"] = pw is not None and pw.startswith("tensor")        # power handed over as a 0-d tensor
    if fam == "constant":
        P["cv"] = U(g, 0.3, 1.5, *bs, 1)
    if fam == "sm":
        nq = int(ov("num_mixtures", "3"))
        P["w"] = U(g, 0.2, 1.0, *bs, nq)
        P["means"] = U(g, 0.1, 0.8, *bs, nq, 1, d)
        P["scales"] = U(g, 0.1, 0.6, *bs, nq, 1, d)
    if fam == "sdelta":
        P["Z"] = U(g, 0.1, 1.0, *bs, int(ov("num_deltas", "4")), d)
    if fam == "arc":
        P["ls"] = U(g, 0.8, 1.6, *bs, 1, k)
        P["angle"] = U(g, 0.2, 0.8, *bs, 1, k)
        P["radius"] = U(g, 0.5, 1.5, *bs, 1, k)
        P["delta"] = ov("delta_func", "ones")
        P["base"] = ov("base_kernel", "matern25")
        if P["base"] == "rq":
            P["balpha"] = U(g, 0.5, 2.5, *bs, 1)
        if P["base"] == "poly2":
            P["boff"] = U(g, 0.3, 1.5, *bs, 1)
    if fam == "cyl":
        P["aw"] = U(g, 0.2, 1.0, *bs, int(ov("num_angular_weights", "3")))
        P["eps"] = float(ov("eps", "1e-6"))
        P["base"] = ov("radial_base_kernel", "matern25")
        P["alpha"] = U(g, 0.6, 1.8, *bs, 1)
        P["beta"] = U(g, 0.6, 1.8, *bs, 1)
        P["ls"] = U(g, 0.5, 1.5, *bs, 1, 1)
    if fam == "hamming":
        P["alpha"] = U(g, 0.5, 2.0, *bs, 1)
        P["beta"] = U(g, 0.5, 2.0, *bs, 1)
        P["vocab"] = int(ov("vocab_size", str(HAMMING_VOCAB)))
    if fam == "gskl":
        P["ls"] = U(g, 0.8, 2.0, *bs, 1, 1)
    if fam == "ngadd":
        md = ov("max_degree", "std")
        P["R"] = {"std": d if d <= 2 else 2, "none": d, "1": 1, "2": 2, "over": d}[md]        # documented: default d, silently capped at d
        P["Rarg"] = {"std": P["R"], "none": None, "1": 1, "2": 2, "over": d + 2}[md]
        P["o"] = U(g, 0.3, 1.2, *bs, P["R"])
        P["base"] = ov("base_kernel", "rbf")
        if P["base"] == "rq":
            P["balpha"] = U(g, 0.5, 2.5, *bs, 1)
    if fam in ("index", "multitask"):
        r = RANKS[ov("rank", "1")]
        P["B"] = U(g, -1.0, 1.0, *bs, NTASKS, r)
        P["v"] = U(g, 0.2, 1.0, *bs, NTASKS)
    if fam == "multitask":
        P["datafam"] = ov("data_covar_module", "rbf")
        P["data"] = sample_params(P["datafam"], d, ard, bs, g)
    if fam == "lcm":
        nb = int(ov("base_kernels", "2"))
        rk = ov("rank", "1")
        P["rank"] = [1, 2, 3][:nb] if rk == "list" else int(rk)
        P["terms"] = []
        for t in range(nb):
            f = ("rbf", "matern15", "rq")[t]
            r = P["rank"][t] if isinstance(P["rank"], list) else P["rank"]
            P["terms"].append(dict(fam=f, P=sample_params(f, d, ard, bs, g), B=U(g, -1.0, 1.0, *bs, NTASKS, r), v=U(g, 0.2, 1.0, *bs, NTASKS)))
    if fam == "rff":
        P["ns"] = int(ov("num_samples", "4"))
        P["nd"] = ov("num_dims", "none")
        P["wseed"] = int(torch.randint(0, 2 ** 31 - 1, (1,), generator=g))
    if fam == "distinput":
        P["ls"] = U(g, 0.8, 2.0, *bs, 1, 1)
        P["dist"] = ov("distance_function", "skl")
    return P


def sample_inputs(fam, d_in, xb, n, g, vocab=HAMMING_VOCAB):
    """rows of the input matrix for `fam` with d_in columns"""
    if fam == "hamming":                 # one-hot encoded token sequences of length d_in, flattened
        tok = torch.randint(0, vocab, (*xb, n, d_in), generator=g)
        return torch.nn.functional.one_hot(tok, vocab).reshape(*xb, n, d_in * vocab).to(D64)
    if fam == "index":                   # task indices
        return torch.randint(0, NTASKS, (*xb, n, 1), generator=g).to(D64)
    if fam in ("gskl", "distinput"):     # [means, log variances]
        return torch.cat([U(g, -1.0, 1.0, *xb, n, d_in), U(g, -1.0, 0.5, *xb, n, d_in)], dim=-1)
    if fam == "cyl":                     # inside the unit ball, away from the origin and from the boundary
        v = torch.randn(*xb, n, d_in, generator=g, dtype=D64)
        v = v / v.norm(dim=-1, keepdim=True)
        return v * U(g, 0.2, 0.9, *xb, n, 1)
    return U(g, -1.0, 1.0, *xb, n, d_in)


# ------------------------------------------------------------------------------------------------
# documented covariance functions; x1 (*b, n1, d), x2 (*b, n2, d); parameters (*bs, 1, k) broadcast over the pairs
def pdiff(x1, x2):
    return x1.unsqueeze(-2) - x2.unsqueeze(-3)                  # (*b, n1, n2, d)


def _pp(t):                                                     # (*bs, 1, k) -> (*bs, 1, 1, k)
    return t.unsqueeze(-3)


def sq_scaled(P, x1, x2):
    u = pdiff(x1, x2) / _pp(P["ls"])
    return (u * u).sum(-1)


def safe_sqrt(sq):
    """sqrt with value 0 and zero derivative at 0 (k(x, x) does not depend on the lengthscale)"""
    pos = sq > 0
    return torch.where(pos, sq, torch.ones_like(sq)).sqrt() * pos


def matern_of_r(nu, r):
    if nu == 0.5:
        return torch.exp(-r)
    if nu == 1.5:
        s = math.sqrt(3) * r
        return (1 + s) * torch.exp(-s)
    s = math.sqrt(5) * r
    return (1 + s + s * s / 3) * torch.exp(-s)


def matern_bessel(nu, r):
    """the docstring's formula, 2^(1-nu)/Gamma(nu) (sqrt(2 nu) d)^nu K_nu(sqrt(2 nu) d), in mpmath"""
    import mpmath
    mpmath.mp.dps = 30
    s = mpmath.sqrt(2 * nu) * mpmath.mpf(r)
    return float(2 ** (1 - nu) / mpmath.gamma(nu) * s ** nu * mpmath.besselk(nu, s))


def pp_of_r(q, dim, r):
    j = dim // 2 + q + 1
    h = (1 - r).clamp_min(0.0)
    if q == 0:
        return h ** j
    if q == 1:
        return h ** (j + 1) * ((j + 1) * r + 1)
    if q == 2:
        return h ** (j + 2) * (1 + (j + 2) * r + (j * j + 4 * j + 3) / 3.0 * r ** 2)
    return h ** (j + 3) * (1 + (j + 3) * r + (6 * j * j + 36 * j + 45) / 15.0 * r ** 2 + (j ** 3 + 9 * j * j + 23 * j + 15) / 15.0 * r ** 3)


def out_batch(P_any, x1, x2):
    shapes = [x1.shape[:-2], x2.shape[:-2]] + [tuple(v.shape[:-2]) for v in P_any if torch.is_tensor(v) and v.dim() >= 2]
    return torch.broadcast_shapes(*shapes)


def k_leaf(fam, P, x1, x2):
    """documented covariance function of family `fam` between the rows of x1 and x2 (already restricted to the active dims)"""
    d = x1.shape[-1]
    if fam == "rbf":
        return torch.exp(-0.5 * sq_scaled(P, x1, x2))
    if fam in MATERN_NU:
        return matern_of_r(MATERN_NU[fam], safe_sqrt(sq_scaled(P, x1, x2)))
    if fam == "rq":
        a = P["alpha"].unsqueeze(-1)
        return (1 + sq_scaled(P, x1, x2) / (2 * a)) ** (-a)
    if fam == "periodic":
        s = torch.sin(PI * pdiff(x1, x2) / _pp(P["period"]))
        return torch.exp(-2.0 * (s * s / _pp(P["ls"])).sum(-1))
    if fam == "cosine":
        r = (pdiff(x1, x2) ** 2).sum(-1).sqrt()
        return torch.cos(PI * r / P["period"])
    if fam == "linear":
        return (x1.unsqueeze(-2) * x2.unsqueeze(-3) * _pp(P["var"])).sum(-1)
    if fam == "polynomial":
        return ((x1.unsqueeze(-2) * x2.unsqueeze(-3)).sum(-1) + P["off"].unsqueeze(-1)) ** P["power"]
    if fam in PPQ:
        return pp_of_r(PPQ[fam], d, sq_scaled(P, x1, x2).sqrt())
    if fam == "constant":
        b = torch.broadcast_shapes(x1.shape[:-2], x2.shape[:-2], P["cv"].shape[:-1])
        return P["cv"].unsqueeze(-1).expand(*b, x1.shape[-2], x2.shape[-2]).clone()
    if fam == "sm":
        tau = pdiff(x1, x2).unsqueeze(-4)                               # (*b, 1, n1, n2, d)
        sc, mu = P["scales"].unsqueeze(-2), P["means"].unsqueeze(-2)    # (*bs, Q, 1, 1, d)
        comp = torch.exp(-2 * PI ** 2 * (tau * sc) ** 2) * torch.cos(2 * PI * tau * mu)
        w = P["w"][..., None, None, None]
        return (w * comp).sum(-4).prod(-1)                              # product over the input dimensions of 1-d mixtures
    if fam == "sdelta":
        u = pdiff(x1, x2) / _pp(P["ls"])                                # (*b, n1, n2, d)
        z = P["Z"].unsqueeze(-3).unsqueeze(-3)                          # (*bs, 1, 1, S, d)
        return torch.cos(2 * PI * (u.unsqueeze(-2) * z).sum(-1)).mean(-1)
    if fam == "arc":
        def emb(x):                                                     # g_i(x) = [0, 0] if delta_i(x) is false, else w_i [sin, cos](pi rho_i x_i / L_i)
            t = PI * P["angle"] * x / P["ls"]
            act = arc_delta(P.get("delta", "ones"), x).to(torch.bool)
            zero = torch.zeros_like(t)
            return torch.cat([torch.where(act, P["radius"] * torch.sin(t), zero), torch.where(act, P["radius"] * torch.cos(t), zero)], dim=-1)
        e1, e2 = emb(x1), emb(x2)
        base = P.get("base", "matern25")                                # base kernel with unit lengthscale on the embedded points
        if base == "poly2":
            return ((e1.unsqueeze(-2) * e2.unsqueeze(-3)).sum(-1) + P["boff"].unsqueeze(-1)) ** 2
        sq = (pdiff(e1, e2) ** 2).sum(-1)
        if base == "rbf":
            return torch.exp(-0.5 * sq)
        if base == "rq":
            a = P["balpha"].unsqueeze(-1)
            return (1 + sq / (2 * a)) ** (-a)
        return matern_of_r(MATERN_NU[base], safe_sqrt(sq))
    if fam == "cyl":
        r1, r2 = x1.norm(dim=-1, keepdim=True), x2.norm(dim=-1, keepdim=True)
        gram = (x1 / r1) @ (x2 / r2).transpose(-1, -2)
        ang = sum(P["aw"][..., p, None, None] * gram ** p for p in range(P["aw"].shape[-1]))
        al, be = P["alpha"].unsqueeze(-1), P["beta"].unsqueeze(-1)

        eps = P.get("eps", CYL_EPS)

        def kuma(r):
            return 1 - (1 - r ** al + eps) ** be
        rr = (kuma(r1) - kuma(r2).transpose(-1, -2)).abs() / P["ls"]
        base = P.get("base", "matern25")
        return (torch.exp(-0.5 * rr * rr) if base == "rbf" else matern_of_r(MATERN_NU[base], rr)) * ang
    if fam == "hamming":
        V = P.get("vocab", HAMMING_VOCAB)
        T = d // V
        t1 = x1.reshape(*x1.shape[:-1], T, V).argmax(-1)
        t2 = x2.reshape(*x2.shape[:-1], T, V).argmax(-1)
        dh = (t1.unsqueeze(-2) != t2.unsqueeze(-3)).sum(-1).to(D64)
        al, be = P["alpha"].unsqueeze(-1), P["beta"].unsqueeze(-1)
        return ((1 + al) / (al + dh)) ** be
    if fam == "gskl":
        h = d // 2
        m1, v1 = x1[..., :h].unsqueeze(-2), x1[..., h:].exp().unsqueeze(-2) + GSKL_EPS
        m2, v2 = x2[..., :h].unsqueeze(-3), x2[..., h:].exp().unsqueeze(-3) + GSKL_EPS
        skl = 0.5 * (v1 / v2 + v2 / v1 - 2 + (m1 - m2) ** 2 * (1 / v1 + 1 / v2)).sum(-1)
        return torch.exp(-skl / P["ls"])
    if fam == "ngadd":                                                  # sum_deg outputscale_deg * e_deg(k_1, .., k_d), k_t = 1-d RBF kernels
        ard = P["ls"].shape[-1] > 1
        zs = [k_leaf(P.get("base", "rbf"), {"ls": P["ls"][..., t:t + 1] if ard else P["ls"], "alpha": P.get("balpha")}, x1[..., t:t + 1], x2[..., t:t + 1]) for t in range(d)]
        res = 0
        for deg in range(1, P["R"] + 1):
            e = sum(_prod([zs[t] for t in S]) for S in itertools.combinations(range(d), deg))   # explicit sum over subsets
            res = res + P["o"][..., deg - 1, None, None] * e
        return res
    if fam in GRAD_ORDER:
        return grad_reference(fam, P, x1, x2)
    if fam == "index":                                                  # k(i, j) = (B B^T + diag(v))_{ij}
        Kt = task_cov(P["B"], P["v"])
        i1, i2 = x1[..., 0].long(), x2[..., 0].long()
        b = torch.broadcast_shapes(Kt.shape[:-2], i1.shape[:-1], i2.shape[:-1])
        Kt, i1, i2 = Kt.expand(*b, NTASKS, NTASKS), i1.expand(*b, i1.shape[-1]), i2.expand(*b, i2.shape[-1])
        rows = torch.gather(Kt, -2, i1.unsqueeze(-1).expand(*b, i1.shape[-1], NTASKS))
        return torch.gather(rows, -1, i2.unsqueeze(-2).expand(*b, i1.shape[-1], i2.shape[-1]))
    if fam == "multitask":                                              # K_XX (x) K_TT: Cov(f_s(x_i), f_t(x_j)) in row i T + s, column j T + t
        return kron_tasks(k_leaf(P["datafam"], P["data"], x1, x2), task_cov(P["B"], P["v"]))
    if fam == "lcm":                                                    # sum of multitask terms
        return sum(kron_tasks(k_leaf(t["fam"], t["P"], x1, x2), task_cov(t["B"], t["v"])) for t in P["terms"])
    if fam == "rff":                                                    # z(x)^T z(x') = (1/D) sum_i cos(w_i^T (x - x')), w = randn / lengthscale (drawn once, read back)
        W = P["_kernel"].randn_weights.detach().to(D64)                 # (*bs, d, D)
        om = W / P["ls"].transpose(-1, -2)
        ph = pdiff(x1, x2) @ om.unsqueeze(-3)                           # (*b, n1, n2, D)
        return torch.cos(ph).mean(-1)
    if fam == "distinput":                                              # exp(-dist / lengthscale) with the user's distance function
        return torch.exp(-DIST_REF[P["dist"]](x1, x2) / P["ls"])
    raise KeyError(fam)


def arc_delta(kind, x):
    """the activity indicators handed to ArcKernel as delta_func (1 = active)"""
    if kind == "ones":
        return torch.ones_like(x)
    if kind == "nonneg":                                                # inactive coordinates are encoded as negative numbers
        return (x >= 0).to(x.dtype)
    if kind == "gate":                                                  # conditional space: coordinates 1.. exist only where coordinate 0 is positive
        m = (x[..., :1] > 0).to(x.dtype).expand_as(x).clone()
        m[..., 0] = 1.0
        return m
    raise KeyError(kind)


def _skl_ref(x1, x2):
    h = x1.shape[-1] // 2
    m1, v1 = x1[..., :h].unsqueeze(-2), x1[..., h:].exp().unsqueeze(-2) + GSKL_EPS
    m2, v2 = x2[..., :h].unsqueeze(-3), x2[..., h:].exp().unsqueeze(-3) + GSKL_EPS
    return 0.5 * (v1 / v2 + v2 / v1 - 2 + (m1 - m2) ** 2 * (1 / v1 + 1 / v2)).sum(-1)


DIST_REF = {"skl": _skl_ref, "l1": lambda a, b: pdiff(a, b).abs().sum(-1), "sqmean": lambda a, b: (pdiff(a, b)[..., :a.shape[-1] // 2] ** 2).sum(-1)}


def dist_user(kind):
    """the distance_function handed to DistributionalInputKernel (written the way a user would: broadcasting over rows)"""
    if kind == "skl":
        from gpytorch.kernels.gaussian_symmetrized_kl_kernel import _symmetrized_kl
        return _symmetrized_kl
    if kind == "l1":
        return lambda a, b: (a.unsqueeze(-2) - b.unsqueeze(-3)).abs().sum(-1)
    return lambda a, b: ((a[..., :a.shape[-1] // 2].unsqueeze(-2) - b[..., :b.shape[-1] // 2].unsqueeze(-3)) ** 2).sum(-1)


def task_cov(B, v):
    return B @ B.transpose(-1, -2) + torch.diag_embed(v)


def kron_tasks(Kx, Kt):
    b = torch.broadcast_shapes(Kx.shape[:-2], Kt.shape[:-2])
    n1, n2, T = Kx.shape[-2], Kx.shape[-1], Kt.shape[-1]
    return torch.einsum("...ij,...st->...isjt", Kx.expand(*b, n1, n2), Kt.expand(*b, T, T)).reshape(*b, n1 * T, n2 * T)


def _prod(ts):
    out = ts[0]
    for t in ts[1:]:
        out = out * t
    return out


# ---- derivative kernels: autograd derivatives of the documented base kernel, entry by entry -----------------------
def base_scalar(fam, P, b):
    """k(u, v) for single rows u, v (1-d tensors) of batch element b"""
    def pick(t):
        return t if t.dim() == 2 else t[b]
    if fam in ("rbfgrad", "rbfgradgrad"):
        ls = pick(P["ls"])[0]
        return lambda u, v: torch.exp(-0.5 * (((u - v) / ls) ** 2).sum())
    if fam == "matern52grad":
        ls = pick(P["ls"])[0]

        def f(u, v):
            r = (((u - v) / ls) ** 2).sum().sqrt()
            s = math.sqrt(5) * r
            return (1 + s + s * s / 3) * torch.exp(-s)
        return f
    if fam == "polygrad":
        off = P["off"] if P["off"].dim() == 1 else P["off"][b]
        return lambda u, v: ((u * v).sum() + off[0]) ** P["power"]


def _all_D(s, v, d, order):
    """[D_a s : a = 0 .. order*d] for a scalar s (graph kept): s, ds/dv_1 .. ds/dv_d, d2s/dv_1^2 .. d2s/dv_d^2"""
    zero = torch.zeros((), dtype=D64)
    outs = [s]
    g = torch.autograd.grad(s, v, create_graph=True, allow_unused=True)[0] if s.requires_grad else None
    if g is None:
        return outs + [zero] * (order * d)
    outs += [g[k] for k in range(d)]
    if order == 2:
        for k in range(d):
            g2 = torch.autograd.grad(g[k], v, create_graph=True, allow_unused=True)[0] if g.requires_grad else None
            outs.append(zero if g2 is None else g2[k])
    return outs


def deriv_matrix(kfun, x1, x2, order, coincident=None):
    """M[i*m + a, j*m + b] = D_a^x D_b^x' k(x1_i, x2_j); a = 0 value, 1..d = d/dx_a, d+1..2d = d^2/dx_a^2 (m = order*d + 1).
    coincident: optional m x m block for x1_i == x2_j (kernels whose autograd derivative is 0 * inf there)"""
    n1, d = x1.shape
    n2 = x2.shape[0]
    m = order * d + 1
    out = torch.zeros(n1 * m, n2 * m, dtype=D64)
    for i in range(n1):
        for j in range(n2):
            if coincident is not None and torch.equal(x1[i], x2[j]):
                out[i * m:(i + 1) * m, j * m:(j + 1) * m] = coincident
                continue
            u = x1[i].detach().clone().requires_grad_(True)
            v = x2[j].detach().clone().requires_grad_(True)
            for a, sa in enumerate(_all_D(kfun(u, v), u, d, order)):
                for b, sab in enumerate(_all_D(sa, v, d, order)):
                    out[i * m + a, j * m + b] = sab.detach()
    return out


def coincident_block(fam, P, b, d):
    """Matern52KernelGrad at r = 0, from the formulas of its docstring: k = 1, first derivatives 0, Hessian block (5/3) delta_ij / l_i^2"""
    if fam != "matern52grad":
        return None
    ls = (P["ls"] if P["ls"].dim() == 2 else P["ls"][b])[0].expand(d)
    blk = torch.zeros(d + 1, d + 1, dtype=D64)
    blk[0, 0] = 1.0
    blk[1:, 1:] = torch.diag(5.0 / (3.0 * ls ** 2))
    return blk


def grad_reference(fam, P, x1, x2):
    order = GRAD_ORDER[fam]
    xb = torch.broadcast_shapes(x1.shape[:-2], x2.shape[:-2])
    d = x1.shape[-1]
    if len(xb) == 0:
        return deriv_matrix(base_scalar(fam, P, 0), x1, x2, order, coincident_block(fam, P, 0, d))
    x1e, x2e = x1.expand(*xb, *x1.shape[-2:]), x2.expand(*xb, *x2.shape[-2:])
    return torch.stack([deriv_matrix(base_scalar(fam, P, b), x1e[b], x2e[b], order, coincident_block(fam, P, b, d)) for b in range(xb[0])])


# ------------------------------------------------------------------------------------------------
# kernel trees: reference value and the real kernel
def ref_tree(node, x1, x2):
    t = node["t"]
    if t == "leaf":
        if node["ad"] is not None:
            idx = torch.tensor(node["ad"], dtype=torch.long)
            x1, x2 = x1.index_select(-1, idx), x2.index_select(-1, idx)
        return k_leaf(node["fam"], node["P"], x1, x2)
    if t == "scale":
        return node["s"][..., None, None] * ref_tree(node["a"], x1, x2)
    if t == "sum":
        return ref_tree(node["a"], x1, x2) + ref_tree(node["b"], x1, x2)
    if t == "product":
        return ref_tree(node["a"], x1, x2) * ref_tree(node["b"], x1, x2)
    if t in ("addstruct", "prodstruct"):
        leaf = node["a"]
        if node.get("ad") is not None:                                  # active_dims of the structure kernel itself
            idx = torch.tensor(node["ad"], dtype=torch.long)
            x1, x2 = x1.index_select(-1, idx), x2.index_select(-1, idx)
        terms = []
        for k in range(x1.shape[-1]):                                   # one 1-d kernel per input dimension
            Pk = {n: (v[..., k:k + 1] if (torch.is_tensor(v) and n in ("ls", "period", "var") and v.shape[-1] > 1) else v) for n, v in leaf["P"].items()}
            terms.append(k_leaf(leaf["fam"], Pk, x1[..., k:k + 1], x2[..., k:k + 1]))
        return sum(terms) if t == "addstruct" else _prod(terms)
    raise KeyError(t)


def neutral_kwargs(opt):
    """constructor keywords of a NEUTRAL argument (constraint / prior / eps of a stationary kernel) of an args cell"""
    import gpytorch
    arg, val = opt.get("arg"), opt.get("val")
    if arg is None or opt.get("effect") != "neutral":
        return {}
    if arg.endswith("_constraint"):
        if val == "positive":
            return {}
        return {arg: gpytorch.constraints.Interval(0.02, 30.0) if val == "interval" else gpytorch.constraints.GreaterThan(0.02)}
    if arg.endswith("prior"):
        return {} if val == "none" else {arg: gpytorch.priors.GammaPrior(2.0, 3.0)}
    if arg == "eps":
        return {"eps": float(val)}
    raise KeyError(arg)


def apply_sets(k, sets, opt):
    """parameters through the public setters - or, for the parameter of a '<name>_prior = closure' cell, through the setting closure
    registered together with the prior (what sample_from_prior / pyro use)"""
    for obj, attr, val in sets:
        if obj is k and opt.get("arg") == attr + "_prior" and opt.get("val") == "closure":
            obj._priors[attr + "_prior"][2](obj, val)
        else:
            setattr(obj, attr, val)


def base_of(K, name, bs=(), **kw):
    """inner kernels handed to ArcKernel / CylindricalKernel / NewtonGirardAdditiveKernel / the structure kernels"""
    if len(bs):
        kw["batch_shape"] = torch.Size(bs)
    if name == "rbf":
        return K.RBFKernel(**kw)
    if name in MATERN_NU:
        return K.MaternKernel(nu=MATERN_NU[name], **kw)
    if name == "rq":
        return K.RQKernel(**kw)
    if name == "poly2":
        return K.PolynomialKernel(power=2, **kw)
    raise KeyError(name)


def build_leaf(K, node):
    fam, d, ard, bs, P = node["fam"], node["d"], node["ard"], torch.Size(node["bs"]), node["P"]
    opt = node.get("opt") or {}
    kw = dict(neutral_kwargs(opt))
    if node["ad"] is not None:
        kw["active_dims"] = tuple(node["ad"])
    if len(bs):
        kw["batch_shape"] = bs
    if ard and fam not in ("sm", "multitask", "lcm"):
        kw["ard_num_dims"] = d
    if fam == "rbf":
        k = K.RBFKernel(**kw)
    elif fam in MATERN_NU:
        k = K.MaternKernel(nu=MATERN_NU[fam], **kw)
    elif fam == "rq":
        k = K.RQKernel(**kw)
    elif fam == "periodic":
        k = K.PeriodicKernel(**kw)
    elif fam == "cosine":
        k = K.CosineKernel(**kw)
    elif fam == "linear":
        k = K.LinearKernel(**kw)
    elif fam == "polynomial":
        k = K.PolynomialKernel(power=torch.tensor(P["power"]) if P.get("power_tensor") else P["power"], **kw)
    elif fam in PPQ:
        k = K.PiecewisePolynomialKernel(q=PPQ[fam], **kw)
    elif fam == "constant":
        k = K.ConstantKernel(**kw)
    elif fam == "sm":
        k = K.SpectralMixtureKernel(num_mixtures=P["w"].shape[-1], ard_num_dims=d, **kw)
    elif fam == "sdelta":
        k = K.SpectralDeltaKernel(num_dims=d, **({} if (opt.get("arg"), opt.get("val")) == ("num_deltas", "128") else {"num_deltas": P["Z"].shape[-2]}), **kw)
    elif fam == "arc":
        delta = P.get("delta", "ones")
        if opt.get("arg") == "base_kernel":            # built under a float64 default: ArcKernel.__init__ itself gives the base kernel its unit lengthscale (not re-set below)
            prev = torch.get_default_dtype()
            torch.set_default_dtype(D64)
            try:
                k = K.ArcKernel(base_of(K, P["base"], bs if P["base"] in ("rq", "poly2") else ()), **kw)
            finally:
                torch.set_default_dtype(prev)
            P["keep_base_ls"] = True
        else:
            k = K.ArcKernel(base_of(K, P.get("base", "matern25"), bs if P.get("base") in ("rq", "poly2") else ()),
                            **({} if delta == "ones" else {"delta_func": lambda x: arc_delta(delta, x)}), **kw)
    elif fam == "cyl":
        k = K.CylindricalKernel(num_angular_weights=P["aw"].shape[-1], radial_base_kernel=base_of(K, P.get("base", "matern25"), bs),
                                **({"eps": P["eps"]} if opt.get("arg") == "eps" else {}), **kw)
    elif fam == "hamming":
        k = K.HammingIMQKernel(vocab_size=P.get("vocab", HAMMING_VOCAB), **kw)
    elif fam == "gskl":
        k = K.GaussianSymmetrizedKLKernel(**kw)
    elif fam == "rbfgrad":
        k = K.RBFKernelGrad(**kw)
    elif fam == "matern52grad":
        k = K.Matern52KernelGrad(**kw)
    elif fam == "polygrad":
        k = K.PolynomialKernelGrad(power=torch.tensor(P["power"]) if P.get("power_tensor") else P["power"], **kw)
    elif fam == "rbfgradgrad":
        k = K.RBFKernelGradGrad(**kw)
    elif fam == "ngadd":
        base = base_of(K, P.get("base", "rbf"), **{a: b for a, b in kw.items() if a != "active_dims"})
        k = K.NewtonGirardAdditiveKernel(base, num_dims=d, max_degree=P.get("Rarg", P["R"]), **({"batch_shape": bs} if len(bs) else {}),
                                         **({"active_dims": kw["active_dims"]} if "active_dims" in kw else {}))
    elif fam == "index":
        k = K.IndexKernel(num_tasks=NTASKS, rank=P["B"].shape[-1], **kw)
    elif fam == "multitask":
        data = build_leaf(K, dict(t="leaf", fam=P["datafam"], d=d, ard=ard, bs=list(bs), ad=None, P=P["data"]))
        k = K.MultitaskKernel(data, num_tasks=NTASKS, rank=P["B"].shape[-1], **kw)
    elif fam == "lcm":
        k = K.LCMKernel([build_leaf(K, dict(t="leaf", fam=t["fam"], d=d, ard=ard, bs=list(bs), ad=None, P=t["P"])) for t in P["terms"]], num_tasks=NTASKS, rank=P["rank"])
    elif fam == "rff":
        torch.manual_seed(P["wseed"])                                   # the random frequencies are read back from the kernel by the reference
        k = K.RFFKernel(num_samples=P["ns"], **({"num_dims": d} if P["nd"] == "d" else {}), **kw)
    elif fam == "distinput":
        k = K.DistributionalInputKernel(dist_user(P["dist"]), **kw)
    else:
        raise KeyError(fam)
    k = k.to(D64)
    P["_kernel"] = k
    sets = []                                                           # (object, attribute, value)
    if fam == "ngadd":
        sets += [(k.base_kernel, "lengthscale", P["ls"]), (k, "outputscale", P["o"])]
        if P.get("base") == "rq":
            sets.append((k.base_kernel, "alpha", P["balpha"]))
    elif fam == "cyl":
        sets += [(k, "angular_weights", P["aw"]), (k, "alpha", P["alpha"]), (k, "beta", P["beta"]), (k.radial_base_kernel, "lengthscale", P["ls"])]
    elif fam in ("index", "multitask"):
        ik = k if fam == "index" else k.task_covar_module
        ik.initialize(covar_factor=P["B"])
        sets.append((ik, "var", P["v"]))
    elif fam == "lcm":
        for m, t in zip(k.covar_module_list, P["terms"]):
            m.task_covar_module.initialize(covar_factor=t["B"])
            sets.append((m.task_covar_module, "var", t["v"]))
    else:
        if "ls" in P:
            sets.append((k, "lengthscale", P["ls"]))
        if fam == "rq":
            sets.append((k, "alpha", P["alpha"]))
        if fam in ("periodic", "cosine"):
            sets.append((k, "period_length", P["period"]))
        if fam == "linear":
            sets.append((k, "variance", P["var"]))
        if fam in ("polynomial", "polygrad"):
            sets.append((k, "offset", P["off"]))
        if fam == "constant":
            sets.append((k, "constant", P["cv"]))
        if fam == "sm":
            sets += [(k, "mixture_weights", P["w"]), (k, "mixture_means", P["means"]), (k, "mixture_scales", P["scales"])]
        if fam == "sdelta":
            sets.append((k, "Z", P["Z"]))
        if fam == "arc":
            sets += [(k, "angle", P["angle"]), (k, "radius", P["radius"])]
            if k.base_kernel.has_lengthscale and not P.get("keep_base_ls"):
                sets.append((k.base_kernel, "lengthscale", torch.ones(1, 1, dtype=D64)))   # ArcKernel.__init__ set it to 1 in float32 (1 - 4.5e-10 after .to(float64))
            if P.get("base") == "rq":
                sets.append((k.base_kernel, "alpha", P["balpha"]))
            if P.get("base") == "poly2":
                sets.append((k.base_kernel, "offset", P["boff"]))
        if fam == "hamming":
            sets += [(k, "alpha", P["alpha"]), (k, "beta", P["beta"])]
    apply_sets(k, sets, opt)
    return k


def build_tree(K, node):
    t = node["t"]
    if t == "leaf":
        return build_leaf(K, node)
    if t == "scale":
        opt = node.get("opt") or {}
        k = K.ScaleKernel(build_tree(K, node["a"]), **({"batch_shape": torch.Size(node["bs"])} if len(node["bs"]) else {}), **neutral_kwargs(opt)).to(D64)
        apply_sets(k, [(k, "outputscale", node["s"])], opt)
        return k
    if t == "sum":
        return build_tree(K, node["a"]) + build_tree(K, node["b"])
    if t == "product":
        return build_tree(K, node["a"]) * build_tree(K, node["b"])
    if t == "addstruct":
        return K.AdditiveStructureKernel(build_tree(K, node["a"]), num_dims=node["D"], **({"active_dims": tuple(node["ad"])} if node.get("ad") is not None else {}))
    if t == "prodstruct":
        return K.ProductStructureKernel(build_tree(K, node["a"]), num_dims=node["D"], **({"active_dims": tuple(node["ad"])} if node.get("ad") is not None else {}))
    raise KeyError(t)


ACTIVE = {1: [1], 2: [2, 0], 3: [3, 0, 2]}          # active_dims for a kernel of d dims on inputs with d + 1 columns (not monotone on purpose)


def arg_cell_tree(cell, g):
    """an "args" cell of Kernels.tla: plain kernel of the family with ONE constructor argument at the value class cell["val"]"""
    fam, d, ard = cell["fam"], cell["d"], cell["ard"]
    bs = [2] if cell["batch"] == "kernel" else []
    opt = dict(arg=cell["arg"], val=cell["val"], effect=cell["effect"])
    ad = ACTIVE[d] if cell["adims"] else None
    d_in = d + 1 if cell["adims"] else d
    if fam in ("gskl", "distinput") and cell["adims"]:                 # columns [means, log variances] of d + 1 Gaussians; the kernel sees the means and log variances ACTIVE[d]
        ad = ACTIVE[d] + [a + d_in for a in ACTIVE[d]]
    if fam == "scale":
        leaf = dict(t="leaf", fam="rbf", d=d, ard=True, bs=bs, ad=None, P=sample_params("rbf", d, True, bs, g))
        return dict(t="scale", a=leaf, bs=bs, s=UD(g, 0.5, 2.0, *bs), opt=opt), d_in
    if fam in ("addstruct", "prodstruct"):
        base = cell["val"] if cell["arg"] == "base_kernel" else "rbf"
        leaf = dict(t="leaf", fam=base, d=d, ard=True, bs=bs, ad=None, P=sample_params(base, d, True, bs, g))
        return dict(t=fam, a=leaf, D=d, ad=ad), d_in
    return dict(t="leaf", fam=fam, d=d, ard=ard, bs=bs, ad=ad, P=sample_params(fam, d, ard, bs, g, opt), opt=opt), d_in


def cell_tree(cell, g):
    """the kernel tree, the number of input columns and the input family of a lattice cell"""
    if cell.get("arg"):
        return arg_cell_tree(cell, g)
    fam, d, ard = cell["fam"], cell["d"], cell["ard"]
    bs = [2] if cell["batch"] == "kernel" else []
    ad = ACTIVE[d] if cell["adims"] else None
    d_in = d + 1 if cell["adims"] else d
    leaf = dict(t="leaf", fam=fam, d=d, ard=ard, bs=bs, ad=ad, P=sample_params(fam, d, ard, bs, g))
    comp = cell["comp"]
    if comp == "plain":
        tree = leaf
    elif comp == "scale":
        tree = dict(t="scale", a=leaf, bs=bs, s=UD(g, 0.5, 2.0, *bs))
    elif comp in ("sum", "product"):
        if fam in GRAD_ORDER:                      # same number of outputs per input: a second kernel of the same family
            other = dict(t="leaf", fam=fam, d=d, ard=ard, bs=bs, ad=ad, P=sample_params(fam, d, ard, bs, g))
            if fam == "polygrad":
                other["P"]["power"] = leaf["P"]["power"]
        else:
            cols = d_in * (HAMMING_VOCAB if fam == "hamming" else 2 if fam == "gskl" else 1)
            other = dict(t="leaf", fam="rq", d=cols, ard=False, bs=bs, ad=None, P=sample_params("rq", cols, False, bs, g))
        tree = dict(t=comp, a=dict(t="scale", a=leaf, bs=bs, s=UD(g, 0.5, 2.0, *bs)), b=other)
    else:
        tree = dict(t=comp, a=leaf, D=d)
    return tree, d_in


# ------------------------------------------------------------------------------------------------
# part "dims" of Kernels.tla: stacks of one-dimensional kernels / base covariances along a NAMED dimension
SLICED = ("ls", "period", "var", "means", "scales")            # parameters with one entry per input dimension (under ARD)


def dim_terms(fam, P, x1, x2):
    """[k'(x1[..., t], x2[..., t]) : t] - the documented one-dimensional kernels of family `fam`, dimension t with ITS entry of every ARD parameter"""
    terms = []
    for t in range(x1.shape[-1]):
        Pt = {n: (v[..., t:t + 1] if (torch.is_tensor(v) and n in SLICED and v.shape[-1] > 1) else v) for n, v in P.items()}
        terms.append(k_leaf(fam, Pt, x1[..., t:t + 1], x2[..., t:t + 1]))
    shape = torch.broadcast_shapes(*[t.shape for t in terms])
    return [t.expand(shape) for t in terms]


def subsets_sum(parts, max_order, weights=None):
    """sum_{m <= max_order} w_m sum_{i_1 < .. < i_m} prod_j parts[i_j]: the explicit sum over index subsets (no recurrence)"""
    total = torch.zeros_like(parts[0])
    for m in range(1, max_order + 1):
        e = sum(_prod([parts[i] for i in S]) for S in itertools.combinations(range(len(parts)), m))
        total = total + (e if weights is None else weights[..., m - 1, None, None] * e)
    return total
