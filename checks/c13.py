"""C13 - non-Gaussian likelihoods: exact Gauss-Hermite rule, analytic Bernoulli marginal, log_normal_cdf.
Part "bigrules" carries the RULE SIZE (48 .. 128 nodes, constructor / setting / likelihood, float64 / float32) with the top degrees 2n-2, 2n-1 against exact integer moments.
Spec: Quadrature.tla (exact Gaussian moments, code-shaped rule for num_locs <= 3, shape/index model of forward, likelihood x
method x setting lattice, repeated differentiation of log_normal_cdf through one graph - part "rediff", machine of BackwardOps.tla).  Part "params" carries the constraint class of every likelihood parameter as a dimension (default / GreaterThan / Interval / exp transform; constructor or
register_constraint), part "condf" the conditional log-density and its gradient over the whole range of the function values (|f| = 1e-6 .. 1e3) for Bernoulli, Laplace, Student-t, Beta, Softmax.
Replay workers live in checks/c13_replay.py, references in checks/c13_ref.py."""
import os
import random
import re
from fractions import Fraction

from harness import core, tlc
from checks import c13_ref as ref
from checks import c13_replay as rp

LEVEL = "other"
PID = "C13"

# (mn, sn, dd): m = mn/dd, s = sn/dd; chosen so that every intermediate of Quadrature.tla stays below 2^31 up to degree 10
LATTICE = [(mn, sn, 1) for mn in (-2, -1, 0, 1, 2) for sn in (1, 2)] + [(mn, 1, 2) for mn in (-3, -1, 1, 3)]
# further rationals for the Fraction-only degrees (not dyadic, so the float inputs are rounded)
EXTRA = [(1, 9, 6), (-15, 8, 12), (21, 5, 15), (0, 3, 1), (-10, 1, 5),
         # "for all m and v" in orders of magnitude: v = 1e-6, 1e-8, 9, 100; |m| = 0, 3e-3, 0.1, 7, 100
         (3, 1, 1000), (0, 1, 1000), (1000, 1, 10000), (100, 3, 1), (-7, 10, 1)]
LOCS_SETTINGS = (0, 5, 10, 40)
BATCHES = ((), (2,), (3, 2))
DECADES = tuple(range(-6, 3))                # likelihood parameters (and function means / variances) range over lower bound + 10^e, e in DECADES
MIN_SPREAD = {"quick": 6, "thorough": 3}     # a batched parameter tensor mixes values at least this many decades apart
CON_CLASSES = ("default", "gt", "interval", "exp")      # constraint classes of a likelihood parameter (Quadrature.tla ConLower / ConUpper / ConTransform)
CON_DECADES = (-6, -1, 1)                    # exponents of the cases with a non-default constraint (10^1 < width of the interval class)
CON_HOWS = ("ctor", "register")
F_DECADES = tuple(range(-6, 4))              # part condf: |f| = 10^e up to 1e3
COND_FLOOR = 36                              # torch's Categorical(probs=..) floors log-probabilities at log(eps) = -36.04
BIG_LOCS = (48, 61, 64, 80, 100, 128)        # part bigrules: rule sizes (no weight underflows float32 up to 60 nodes)
BIG_HOWS = ("ctor", "setting", "likelihood")
BIG_DTYPES = ("float64", "float32")


def tla(v):
    if isinstance(v, bool):
        return "TRUE" if v else "FALSE"
    if isinstance(v, int):
        return str(v)
    if isinstance(v, str):
        return '"%s"' % v
    if isinstance(v, (list, tuple)):
        return "<<" + ", ".join(tla(x) for x in v) + ">>"
    if isinstance(v, dict):
        return "[" + ", ".join("%s |-> %s" % (k, tla(x)) for k, x in v.items()) + "]"
    raise TypeError(v)


BW_MAX = 3
BW_UP = {"quick": ["ones", "randA"], "thorough": ["ones", "randA", "randB", "unit"]}


def write_mc(workdir, part, instances=(), tier="quick", impure=(), name=None, floor=None, inline=(), cfloor=0, kept=None):
    os.makedirs(workdir, exist_ok=True)
    mod = "MC_Quadrature_" + (name or part)
    with open(os.path.join(workdir, mod + ".tla"), "w") as f:
        f.write("---- MODULE %s ----\nEXTENDS Quadrature\n" % mod)
        f.write("InstDef == {%s}\n" % ",\n  ".join(tla(i) for i in instances))
        f.write("LatDef == {%s}\n" % ", ".join(tla(dict(mn=a, sn=b, dd=d)) for a, b, d in LATTICE))
        f.write("DimsDef == {1, 2, 3}\nShLocsDef == {2, 4}\n")
        f.write("LocSetDef == {%s}\n" % ", ".join(str(k) for k in LOCS_SETTINGS))
        f.write("BatchDef == {%s}\n" % ", ".join(tla(list(b)) for b in BATCHES))
        f.write("DecDef == (%d)..(%d)\nFloorDef == %d\n" % (DECADES[0], DECADES[-1], -99 if floor is None else floor))
        f.write("ConClsDef == {%s}\nConDecDef == {%s}\nConHowDef == {%s}\nInlineDef == {%s}\nFDecDef == (%d)..(%d)\n" % (
            ", ".join(tla(k) for k in CON_CLASSES), ", ".join(str(e) for e in CON_DECADES), ", ".join(tla(h) for h in CON_HOWS), ", ".join(tla(list(i)) for i in inline), F_DECADES[0], F_DECADES[-1]))
        f.write("BigLocsDef == {%s}\nBigHowsDef == {%s}\nBigDtypesDef == {%s}\nBigKeptDef == %s\n" % (
            ", ".join(str(n) for n in BIG_LOCS), ", ".join(tla(h) for h in BIG_HOWS), ", ".join(tla(d) for d in BIG_DTYPES),
            " @@ ".join("(%d :> %d)" % (n, (kept or {}).get(n, n)) for n in BIG_LOCS)))
        f.write("BWUpDef == {%s}\nBWImpureDef == {%s}\n====\n" % (", ".join(tla(u) for u in BW_UP[tier]), ", ".join(tla(list(i)) for i in impure)))
    cfg = os.path.join(workdir, mod + ".cfg")
    inv = {"params": ["ParamsOK", "FuncOK", "ParamsNoFloorOK", "ParamsThroughConstraintOK"], "condf": ["CondFOK", "CondNoFloorOK"], "moments": "MomentsOK", "rule": "RuleOK", "shapes": "ShapesOK", "lattice": "LatticeOK", "bigrules": ["BigNodesOK"] if kept else ["BigRulesOK", "BigNodesOK", "BigCountOK"], "rediff": "RediffDerivOK" if impure else "RediffOK"}[part]
    tlc.write_cfg(cfg, spec="Spec", invariants=inv if isinstance(inv, list) else [inv],
                  constants={"Part": part, "BWMaxBwd": BW_MAX, "BWUpstreams": "<- BWUpDef", "BWImpure": "<- BWImpureDef", "Instances": "<- InstDef", "MaxDeg": 12, "RuleLattice": "<- LatDef", "ShapeDims": "<- DimsDef",
                             "ShapeRank": 2, "ShapeLocs": "<- ShLocsDef", "LocsSettings": "<- LocSetDef", "BatchShapes": "<- BatchDef",
                             "Decades": "<- DecDef", "MinSpread": MIN_SPREAD[tier], "ParamK": 2, "ParamFloor": "<- FloorDef", "ConClasses": "<- ConClsDef", "ConDecades": "<- ConDecDef", "ConHows": "<- ConHowDef", "ParamInline": "<- InlineDef",
                             "FDecades": "<- FDecDef", "CondFloor": cfloor, "BigLocs": "<- BigLocsDef", "BigHows": "<- BigHowsDef", "BigDtypes": "<- BigDtypesDef", "BigKept": "<- BigKeptDef", "DataN": rp.DATA_N, "NumSamples": rp.NUM_SAMPLES, "DefaultLocs": 20})
    return os.path.join(workdir, mod + ".tla"), cfg


def gen_coefs(rnd, per_n):
    """coefficient vectors: every monomial of degree 0..10 and `per_n` random integer polynomials of degree 2n-1 for n = 1..5"""
    out = [[0] * k + [1] for k in range(11)]
    seen = {tuple(c) for c in out}
    for n in range(1, 6):
        k = 0
        tries = 0
        while k < per_n and tries < 1000:
            tries += 1
            c = [rnd.randint(-3, 3) for _ in range(2 * n)]
            if c[-1] == 0 or tuple(c) in seen:
                continue
            seen.add(tuple(c))
            out.append(c)
            k += 1
    return out


def frac(v):
    return Fraction(int(v[0]), int(v[1]))


def run(ck):
    thorough = ck.tier == "thorough"
    core.setup_torch()
    rnd = random.Random(ck.seed)
    wd = os.path.join(tlc.BUILD, PID)
    coefs = gen_coefs(rnd, 12 if thorough else 3)
    insts = [dict(mn=a, sn=b, dd=d, coef=c) for (a, b, d) in LATTICE for c in coefs]
    jobs = []
    tw = max(1, min(4, core.NPROC // 3))
    PARTS = ("moments", "rule", "shapes", "lattice", "rediff", "params", "condf", "bigrules")
    for part in PARTS:
        mod, cfg = write_mc(wd, part, insts if part == "moments" else (), tier=ck.tier)
        jobs.append(((mod, cfg), dict(name=PID + "/" + part, dump=True, check=False, workers=tw, timeout=900, coverage=(part not in ("rediff", "params", "condf", "bigrules")))))
    # vacuity guard of the histories: a backward that overwrites ctx.denominator must be found, and only by a history with two passes
    mod, cfg = write_mc(wd, "rediff", (), tier=ck.tier, impure=[("lncdf", "denominator")], name="rediff_impure")
    jobs.append(((mod, cfg), dict(name=PID + "/rediff_impure", dump=False, check=False, workers=1, timeout=600, coverage=False)))
    # vacuity guard of the decades: a forward that floors its parameters at lower bound + 1e-4 (the seeded C13-r3s2) must be told apart by a case below the floor
    mod, cfg = write_mc(wd, "params", (), tier=ck.tier, name="params_floor", floor=-4)
    jobs.append(((mod, cfg), dict(name=PID + "/params_floor", dump=False, check=False, workers=1, timeout=600, coverage=False)))
    # vacuity guard of the constraint dimension: a forward that inlines the default transform for one parameter (the seeded C13-r4s1) must be told apart, and only by a case with a non-default class
    mod, cfg = write_mc(wd, "params", (), tier=ck.tier, name="params_inline", inline=[("Beta", "scale")])
    jobs.append(((mod, cfg), dict(name=PID + "/params_inline", dump=False, check=False, workers=1, timeout=600, coverage=False)))
    # vacuity guard of the function-value decades: a conditional that floors log-probabilities 36 below the most likely class (the seeded C13-r4s2) must be told apart
    mod, cfg = write_mc(wd, "condf", (), tier=ck.tier, name="condf_floor", cfloor=COND_FLOOR)
    jobs.append(((mod, cfg), dict(name=PID + "/condf_floor", dump=False, check=False, workers=1, timeout=600, coverage=False)))
    # vacuity guard of the rule sizes: a rule that drops the nodes whose weight is no float32 number (the seeded C13-r5s2) must be told apart, and only by a top-degree case of a rule with > 60 nodes
    kept = rp.float32_kept(BIG_LOCS)
    mod, cfg = write_mc(wd, "bigrules", (), tier=ck.tier, name="bigrules_drop", kept=kept)
    jobs.append(((mod, cfg), dict(name=PID + "/bigrules_drop", dump=False, check=False, workers=1, timeout=600, coverage=False)))
    res_all = tlc.run_many(jobs, parallel=3)
    r_drop = res_all.pop()
    ck.add_tlc(r_drop, "Quadrature bigrules with a rule that drops the nodes whose weight underflows float32 (must violate)")
    mm = re.search(r"BigNodesOK is violated by the initial state:.*?c = \[(.*?)\]\n", r_drop.stdout, re.S)
    cex = mm.group(1) if mm else ""
    cn = re.search(r"\bn \|-> (\d+)", cex)
    cd = re.search(r'deg \|-> "([^"]+)"', cex)
    if not r_drop.violation or r_drop.violation["name"] != "BigNodesOK" or not cn or not cd or int(cn.group(1)) <= 60 or not cd.group(1).startswith("top") or not any(k < n for n, k in kept.items()):
        ck.vacuous("the rule sizes do not distinguish a rule that drops the nodes with float32-underflowing weights (violation %r, counterexample %r, kept %s)" % (
            (r_drop.violation or {}).get("name"), cex[:200], kept))
    r_cfl = res_all.pop()
    ck.add_tlc(r_cfl, "Quadrature condf with a conditional that floors log-probabilities at -36 (must violate)")
    mm = re.search(r"CondNoFloorOK is violated by the initial state:.*?em \|-> (-?\d+)", r_cfl.stdout, re.S)
    if not r_cfl.violation or r_cfl.violation["name"] != "CondNoFloorOK" or not mm or int(mm.group(1)) < 1:
        ck.vacuous("the function-value lattice does not distinguish a conditional whose log-probabilities are floored at -36 (violation %r, decade of the counterexample %s)" % (
            (r_cfl.violation or {}).get("name"), mm.group(1) if mm else None))
    r_inl = res_all.pop()
    ck.add_tlc(r_inl, "Quadrature params with a Beta forward that inlines the default transform of raw_scale (must violate)")
    mm = re.search(r"ParamsThroughConstraintOK is violated by the initial state:.*?con \|-> \[scale \|-> \"(\w+)\"\]", r_inl.stdout, re.S)
    if not r_inl.violation or r_inl.violation["name"] != "ParamsThroughConstraintOK" or not mm or mm.group(1) == "default":
        ck.vacuous("the parameter lattice does not distinguish a forward that bypasses the registered constraint (violation %r, class in the counterexample %s)" % (
            (r_inl.violation or {}).get("name"), mm.group(1) if mm else None))
    r_floor = res_all.pop()
    ck.add_tlc(r_floor, "Quadrature params with a forward that floors the parameters at 1e-4 (must violate)")
    mm = re.search(r"ParamsNoFloorOK is violated by the initial state:.*?members \|-> <<(.*?)>>,?\n", r_floor.stdout, re.S)      # (the harness keeps no trace for an initial state)
    low = [int(x) for x in re.findall(r"\|-> (-?\d+)", mm.group(1))] if mm else []
    if not r_floor.violation or r_floor.violation["name"] != "ParamsNoFloorOK" or not low or min(low) >= -4:
        ck.vacuous("the parameter lattice does not distinguish a forward that floors its parameters at 1e-4 (violation %r, smallest exponent in the counterexample %s)" % (
            (r_floor.violation or {}).get("name"), min(low) if low else None))
    r_imp = res_all.pop()
    ck.add_tlc(r_imp, "Quadrature rediff with an in-place write on ctx.denominator (must violate)")
    passes = max([len(st.get("out", {}).get("m", {}).get("hist", ())) for _, st in (r_imp.violation or {}).get("trace", [])] or [0])
    if not r_imp.violation or r_imp.violation["name"] != "RediffDerivOK" or passes < 2:
        ck.vacuous("the repeated-differentiation machine does not distinguish an impure backward (violation %r, passes in the counterexample %d)" % ((r_imp.violation or {}).get("name"), passes))
    rs = dict(zip(PARTS, res_all))
    for part, r in rs.items():
        ck.add_tlc(r, "Quadrature " + part)
        if r.violation:
            ck.model_drift("Quadrature.tla part %s violates %s" % (part, r.violation["name"]))
        elif r.rc != 0:
            raise tlc.TLCError("TLC failed on Quadrature %s:\n%s" % (part, r.stdout[-1500:]))
    items = []
    # ---- (1) exact integrals -----------------------------------------------------------------------------------------------
    exact = {}
    for st in rs["moments"].states():
        c, out = st["c"], st["out"]
        key = (int(c["mn"]), int(c["sn"]), int(c["dd"]), tuple(int(x) for x in c["coef"]))
        got = frac(out["integral"])
        m, s = Fraction(key[0], key[2]), Fraction(key[1], key[2])
        if got != ref.poly_int(m, s, list(key[3])) or [frac(x) for x in out["moments"]] != [ref.moment(m, s, k) for k in range(len(key[3]))]:
            raise core.Machinery("TLC's exact integral and the Fraction recurrence disagree on %r: %s" % (key, got))
        exact[key] = got
    if len(exact) != len(insts):
        ck.vacuous("Quadrature moments run produced %d of %d instances" % (len(exact), len(insts)))
    items += rp.poly_items(exact, coefs, LATTICE, EXTRA, thorough, rnd)
    # ---- (2) rule table, shapes ----------------------------------------------------------------------------------------------
    rule_states = rs["rule"].states()
    if len(rule_states) != 3 * len(LATTICE):
        ck.vacuous("Quadrature rule run produced %d states" % len(rule_states))
    tables = {}
    for st in rule_states:
        n = int(st["c"]["n"])
        tables[n] = dict(n=n, zero_w=[int(x) for x in st["out"]["zero_w"]], pairs=[[[int(a) for a in q] for q in p] for p in st["out"]["pairs"]])
        m, s = Fraction(int(st["c"]["mn"]), int(st["c"]["dd"])), Fraction(int(st["c"]["sn"]), int(st["c"]["dd"]))
        if frac(st["out"]["deficit"]) != ref.deficit(s, n):
            raise core.Machinery("deficit formula of Quadrature.tla and c13_ref differ")
    items += [dict(kind="table", **t) for t in tables.values()]
    shape_cases = []
    for st in rs["shapes"].states():
        c, out = st["c"], st["out"]
        shape_cases.append(dict(kind="shape", n=int(c["n"]), ms=[int(x) for x in c["ms"]], os=[int(x) for x in c["os"]], cls=str(out["class"]),
                                shape=[int(x) for x in out["shape"]],
                                reads=sorted([[int(x) for x in b], [int(x) for x in mi], [int(x) for x in oi]] for b, mi, oi in out["reads"])))
    n_ok = sum(1 for s in shape_cases if s["cls"] == "ok")
    if n_ok < 50 or n_ok == len(shape_cases):
        ck.vacuous("Quadrature shapes run: %d in-domain of %d cases" % (n_ok, len(shape_cases)))
    items += shape_cases
    # ---- (3) lattice ---------------------------------------------------------------------------------------------------------
    cells = []
    for st in rs["lattice"].states():
        c, out = st["c"], st["out"]
        cells.append(dict(kind="cell", lik=str(c["lik"]), method=str(c["method"]), ctor=int(c["ctor"]), call=int(c["call"]), batch=[int(x) for x in c["batch"]],
                          path=str(out["path"]), nodes=int(out["nodes"]), shape=[int(x) for x in out["shape"]], decided=bool(out["decided"]),
                          seed=ck.seed))
    if len(cells) != 5 * 3 * len(LOCS_SETTINGS) ** 2 * len(BATCHES):
        ck.vacuous("Quadrature lattice run produced %d cells" % len(cells))
    items += cells
    # ---- (4) repeated differentiation: every maximal history of the machine ---------------------------------------------------
    hists = []
    for st in rs["rediff"].states():
        m = st["out"]["m"]
        hist = list(m["hist"])
        if not hist or (str(m["phase"]) == "recorded" and bool(m["alive"]) and len(hist) < BW_MAX):
            continue
        if any(int(v) != 0 for h in hist for v in h["saw"].values()):
            raise core.Machinery("C13: a history of the unchanged model reads a modified context")
        c = st["c"]
        hists.append((dict(route=str(c["route"]), zc=str(c["zc"]), batch=str(c["batch"])), [dict(u=str(h["u"]), how=str(h["how"])) for h in hist]))
    hists.sort(key=repr)
    routes = {r: sum(1 for c, _ in hists if c["route"] == r) for r in ("log_normal_cdf", "bernoulli_elp")}
    if not all(routes.values()) or not any(len(h) >= 2 for _, h in hists) or not any(h[0]["how"] == "jacobian" for _, h in hists):
        ck.vacuous("Quadrature rediff run: histories per route %s" % routes)
    items += rp.rediff_items(hists, ck.seed, thorough)
    # ---- (5) parameter lattice: every case of part "params" ------------------------------------------------------------------------
    pstates = rs["params"].states()
    places = {}
    for st in pstates:
        if str(st["c"]["kind"]) == "param" and str(st["c"]["lik"]) not in places:
            places[str(st["c"]["lik"])] = [[[int(x) for x in q] for q in pl] for pl in st["out"]["place"]]
    if set(places) != {"Bernoulli", "Laplace", "StudentT", "Beta"}:
        ck.vacuous("Quadrature params run covers the likelihoods %s" % sorted(places))
    refs = {}
    for r in core.pmap(rp.worker, rp.param_ref_items(DECADES, places), chunksize=1):
        refs[tuple(r["pref"])] = dict(elp=r["elp"], lm=r["lm"])
    p_items = rp.param_items(pstates, refs, ck.seed, thorough)
    f_items = rp.func_items(pstates)
    layouts = {(it["lik"], it["layout"]) for it in p_items}
    lo = min(min(m.values()) for it in p_items for m in it["exps"] if m)
    hi = max(max(m.values()) for it in p_items for m in it["exps"] if m)
    mixed = sum(1 for it in p_items if it["layout"] == "batch")
    if (lo, hi) != (DECADES[0], DECADES[-1]) or not mixed or len(f_items) != 2 * len(DECADES) or any((l, y) not in layouts for l in ("Laplace", "StudentT", "Beta") for y in ("scalar", "broadcast", "batch")):
        ck.vacuous("Quadrature params run: decades %s..%s, %d mixed batches, %d function-decade items, layouts %s" % (lo, hi, mixed, len(f_items), sorted(layouts)))
    con_seen = {(it["lik"], p, cc["cls"], it["conhow"] if cc["cls"] != "default" else "ctor") for it in p_items for p, cc in it["con"].items()}
    con_want = {(l, p, k, h) for l, ps in (("Laplace", ("noise",)), ("StudentT", ("noise", "deg_free")), ("Beta", ("scale",))) for p in ps for k in CON_CLASSES
                for h in (CON_HOWS if k != "default" else ("ctor",))}
    n_con = sum(1 for it in p_items if rp.nondefault(it))
    if con_seen != con_want or not any(rp.nondefault(it) and it["layout"] == "batch" for it in p_items):
        ck.vacuous("Quadrature params run: constraint classes missing from the lattice: %s" % sorted(con_want - con_seen))
    items += p_items + f_items
    # ---- (6) the conditional over the whole range of the function values: every case of part "condf" -----------------------------------
    cstates = rs["condf"].states()
    c_items = rp.condf_items(cstates, ck.seed)
    c_liks = {(it["lik"], it["mix"]) for it in c_items}
    c_wrong = sum(1 for it in c_items if it["lik"] == "Softmax" for q in it["cases"] if q["cls"] == "confidently-wrong")
    c_ems = {q["em"] for it in c_items for q in it["cases"]}
    if c_liks != {("Bernoulli", False), ("Laplace", False), ("StudentT", False), ("Beta", False), ("Softmax", False), ("Softmax", True)} or not c_wrong or c_ems != set(F_DECADES):
        ck.vacuous("Quadrature condf run: likelihoods %s, %d confidently misclassified Softmax cases, decades %s" % (sorted(c_liks), c_wrong, sorted(c_ems)))
    items += c_items
    # ---- (7) the rule size: every case of part "bigrules" ---------------------------------------------------------------------------------
    bstates = rs["bigrules"].states()
    b_items = rp.big_items(bstates)
    if len(bstates) != len(BIG_LOCS) * len(BIG_HOWS) * len(BIG_DTYPES) * 4 * 3 * 4 or len(b_items) != len(BIG_LOCS) * len(BIG_HOWS) * len(BIG_DTYPES) or max(BIG_LOCS) < 100:
        ck.vacuous("Quadrature bigrules run produced %d cases in %d items" % (len(bstates), len(b_items)))
    items += b_items
    # ---- (b), (c), (d): reference comparisons -----------------------------------------------------------------------------------
    items += rp.cond_items(ck.seed, thorough)
    items += rp.bern_items(ck.seed, thorough)
    items += rp.integral_items(ck.seed, thorough)
    items += rp.lncdf_items(ck.seed, thorough)
    rnd.shuffle(items)
    results = core.pmap(rp.worker, items, chunksize=1)
    for r in results:
        if r.get("machinery"):
            raise core.Machinery(r["machinery"])
    rp.aggregate(ck, results)          # shrink / bound verdicts over the fixed grid; fills ck.extra
    ck.absorb([r for r in results if not r.get("aux")])
    counts = {}
    for it in items:
        counts[it["kind"]] = counts.get(it["kind"], 0) + 1
    ck.section("replay", **{"items_" + k: v for k, v in counts.items()})
    ck.section("tlc", moment_instances=len(exact), rule_states=len(rule_states), shape_cases=len(shape_cases), shape_cases_in_domain=n_ok,
               lattice_cells=len(cells), lattice_cells_decided=sum(1 for c in cells if c["decided"]), param_cases=len(pstates) - len(DECADES) ** 2 * 2, param_cases_mixed_batch=mixed,
               param_decades="%d..%d" % (lo, hi), param_items_non_default_constraint=n_con, constraint_classes=len(CON_CLASSES), condf_cases=len(cstates),
               condf_softmax_cases_confidently_wrong=c_wrong // len(rp.CONDF_LAYOUTS), function_decade_cases=len(DECADES) ** 2 * 2, rediff_maximal_histories=len(hists), bigrule_cases=len(bstates), bigrule_sizes=len(BIG_LOCS), bigrule_max_nodes=max(BIG_LOCS),
               rediff_histories_log_normal_cdf=routes["log_normal_cdf"], rediff_histories_bernoulli_elp=routes["bernoulli_elp"], rediff_passes_per_graph_max=BW_MAX)
    ck.rule = ("cases = (a) TLC's exact integral of every (m, s, integer polynomial) instance x every num_locs whose degree bound covers it x how the "
               "rule object is built (default dtype float64, through the setting, inside a likelihood, float32 nodes cast to double) x batch layout, plus "
               "Fraction-only degrees up to 2*40-1; (b) every in-domain (num_locs, function batch shape, observation shape) of the forward shape model; "
               "(c) every cell of likelihood x method x setting-at-construction x setting-at-call x batch shape; (d) seeded conditional parameters, Bernoulli "
               "marginals, the fixed integral grid x {10, 20, 40} nodes, the log_normal_cdf grid; (e) every maximal history forward -> backward^k (k <= 3; upstream gradients, retain_graph, "
               "accumulation, Jacobian rows) of the machine of BackwardOps.tla x argument class x layout for log_normal_cdf (each history on its own slice of the grid) and for "
               "BernoulliLikelihood.expected_log_prob; (f) every case of the parameter lattice (part params): likelihood x every parameter at lower bound + 10^e, e = -6..2, x route (setter / "
               "initialize, tensor / float) x layout (scalar, one value broadcast over a batch, a batch mixing values >= MinSpread decades apart) x function shape, the "
               "parameters READ from the returned conditional and both integrals at placements without truncation error against closed forms (Laplace) / scale-equivariant "
               "mpmath references (Student-t, Beta) at 1e-9, x the CONSTRAINT class of every parameter (default, GreaterThan(b), Interval(a, b), exp transform; constructor argument or register_constraint): "
               "value = that constraint's lower bound + 10^e, the returned distribution's parameters against the spec's value AND against what the public property reports, integrals against a fresh "
               "default-constrained likelihood carrying the same values; (g) every case of part condf: likelihood (Bernoulli, Laplace, Student-t, Beta, Softmax with / without mixing weights) x |f| = 10^e, "
               "e = -6..3 x sign / direction x observation class, all magnitudes in one tensor (flat and 2 x n): log_prob of the returned distribution and its gradient w.r.t. f against mpmath at 1e-9, "
               "Softmax log-odds and the Laplace linear part / slope against the spec's exact rationals; (h) every case of part bigrules: num_locs in (48, 61, 64, 80, 100, 128) x (constructor argument, settings.num_gauss_hermite_locs, a likelihood built under the setting) x "
               "default dtype at construction (float64, float32 then .double()) x mean = (0, +-1/2, 8) sd x sd in (1/4, 1, 3/2) x degree (2n-2, 2n-1, n, n+1): the real rule on the monomial against the exact moment in Python integers "
               "(cases whose integrand leaves the float64 range at a node are counted, not decided), the node count, the sign and the sum of the weights; plus the Bernoulli marginal / expected_log_prob over function means +-10^e and variances 10^e; distinct = distinct abstract case; non-trivial = polynomial "
               "degree >= 1 / a batched or broadcast shape / a non-default setting or batch / every reference comparison")
    ck.explanation = ("TLC is exhaustive over (i) the rational lattice of %d (m, s) points x %d integer polynomials (exact moments, recurrence = closed form = "
                      "Stein recurrence, central moments), (ii) the code-shaped rule for num_locs <= 3 on that lattice (exact to degree 2n-1, deficit "
                      "s^2n n! at degree 2n), (iii) all %d (num_locs, function shape, observation shape) triples of rank <= 2 over {1,2,3} of the forward shape/index "
                      "model, (iv) all %d cells of the likelihood lattice, (v) all histories forward -> backward^k (k <= 3) of the repeated-differentiation machine (part rediff, "
                      "BackwardOps.tla): every pass reads the context the forward stored; with a backward modelled as writing to ctx.denominator TLC finds the two-pass counterexample, "
                      "(vi) the parameter lattice (part params): every likelihood parameter at lower bound + 10^e over the whole documented valid range x set route x scalar / broadcast / "
                      "mixed-magnitude batch layout x function shape; the documented reading of the conditional's parameters is injective on the lattice (no clamp inside the valid range) "
                      "and every result element reads exactly one member; the constraint class of every parameter is a dimension of that lattice (the conditional reads each parameter through the registered constraint: "
                      "a forward modelled as inlining the default transform is refuted by a non-default case), (vii) part condf: the function-value lattice |f| = 1e-6..1e3 of every conditional the library builds, with the exact "
                      "Softmax log-odds (logit differences, unbounded: a conditional floored 36 below the most likely class is refuted) and the exact Laplace slope, (viii) part bigrules: the rule size up to %d nodes x how it is given x dtype x "
                      "mean / sd cell x degree class; every case lies inside the quantifier and a modelled rule that keeps only the nodes whose weight is a float32 number is refuted by a top-degree case of a rule with more than 60 nodes.  "
                      "Every TLC case is replayed into the real code against the spec's exact value.  "
                      "Everything else - truncation error on non-polynomial integrands, the accuracy of log_normal_cdf, conditional parameters, the probit "
                      "identity at real (m, v) - is a float64-vs-mpmath reference comparison on a fixed grid plus seeded samples; TLA+ only names the "
                      "integrand there.  Hence level 'other'." % (len(LATTICE), len(coefs), len(shape_cases), len(cells), max(BIG_LOCS)))
    ck.assumptions = rp.ASSUMPTIONS
    ck.exhaustive = False


def replay(rep):
    core.setup_torch()
    res = rp.worker(rep["case"])
    bad = [r for r in res if not r.get("ok", True) or r.get("machinery")]
    if rep["case"].get("kind") == "integral-aggregate":
        bad = rp.replay_aggregate(rep["case"])
    for r in bad:
        print("VIOLATION property=C13 replay=- :: %s :: %s" % (r.get("sig"), r.get("detail", r.get("machinery"))))
    if not bad:
        print("replay passed")
    return 1 if bad else 0
