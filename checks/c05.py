"""C05 - kernel values equal the documented covariance functions and derivatives.
Spec: Kernels.tla (configuration lattice with the fast/generic dispatch predicate; derivative-kernel layout; exact rational
instances: linear / polynomial / constant expressions with Scale / Sum / Product and active_dims, PolynomialKernelGrad, RBF
derivative ratios, piecewise polynomials, Newton-Girard sums, ArcKernel with an activity indicator on quarter-turn phases,
Index / Multitask / LCM kernels; part "args": the constructor-argument lattice - every optional documented constructor argument
of every kernel over its non-default value classes; DistinctOK: no multi-valued parameter with two equal entries; part "dims": every argument / convention that names a DIMENSION
of a stacked tensor - dim of sum_interaction_terms over every batch position, last_dim_is_batch of Kernel.__call__ / covar_dist, the kernel dimension of
Additive / Product structure and Newton-Girard kernels - with 0..2 batch axes and pairwise distinct axis sizes in every order; exact kind "sitdim"; part "rel": how x1 and x2 relate as tensor
objects - views (offset, shape, strides) of one abstract memory: same object, equal clone, views of one storage with other strides / offsets / shape, transposed, expanded -
for every kernel family; a kernel may take x1 for x2 only when they are equal by value, which address + shape do not decide: RelOK).
Replay: every lattice cell through the real kernel against the documented formula (checks/c05_ref.py), both code paths of the
two-path kernels; TLC's exact rationals through the real kernels.  Level "other": reference-formula comparison on a
TLC-enumerated lattice; only the rational parts are decided exactly."""
import os
import random
from fractions import Fraction

from harness import core, tlc
from checks.c04 import tla

LEVEL = "other"
PID = "C05"
RTOL, ATOL = 1e-9, 1e-12
NS = {"gt": (3, 2), "lt": (2, 4), "same": (4, 4), "diag": (4, 4)}     # same / diag: n differs from every d (see the special cell diag-ldb)
KINK = ("matern05", "pp0", "matern52grad")      # not smooth at r = 0: k(x, x) inherits sqrt(rounding) of the squared distance


def write_mc(workdir, name, part, instances=(), inv=()):
    os.makedirs(workdir, exist_ok=True)
    mod = "MC_Kernels_" + name
    with open(os.path.join(workdir, mod + ".tla"), "w") as f:
        f.write("---- MODULE %s ----\nEXTENDS Kernels\nInstDef == {%s}\n====\n" % (mod, ",\n  ".join(tla(i) for i in instances)))
    cfg = os.path.join(workdir, mod + ".cfg")
    tlc.write_cfg(cfg, spec="Spec", constants={"Part": part, "Instances": "<- InstDef"}, invariants=list(inv))
    return os.path.join(workdir, mod + ".tla"), cfg


# ---------------------------------------------------------------------------------------------
# rational instances
def _q(rnd, choices=((1, 2), (1, 1), (3, 2), (2, 1), (1, 3), (2, 3))):
    return list(rnd.choice(choices))


def _qs(rnd, k, choices=((1, 2), (1, 1), (3, 2), (2, 1), (1, 3), (2, 3))):
    """k pairwise DISTINCT rationals (multi-valued parameters never carry two equal entries: DistinctOK in Kernels.tla)"""
    return [list(c) for c in rnd.sample(list(choices), k)]


def _mat(rnd, n, d, lo=-2, hi=2):
    return [[rnd.randint(lo, hi) for _ in range(d)] for _ in range(n)]


def _shape(rnd):
    return rnd.choice([(3, 2), (2, 3), (1, 2), (3, 1), (2, 4)])


def gen_expr(rnd, depth, d_in):
    if depth == 0 or rnd.random() < 0.25:
        kind = rnd.choice(["lin", "lin", "poly", "poly", "const"])
        ad = [] if rnd.random() < 0.4 else rnd.sample(range(1, d_in + 1), rnd.randint(1, d_in - 1))
        k = len(ad) or d_in
        if kind == "lin":
            return dict(op="lin", v=_qs(rnd, k if rnd.random() < 0.5 else 1), ad=ad)        # ARD variances pairwise distinct
        if kind == "poly":
            return dict(op="poly", off=_q(rnd, ((1, 2), (3, 2), (1, 3), (1, 1))), p=rnd.randint(1, 3), ad=ad)
        return dict(op="const", cv=_q(rnd))
    op = rnd.choice(["scale", "sum", "prod"])
    if op == "scale":
        return dict(op="scale", s=_q(rnd), a=gen_expr(rnd, depth - 1, d_in))
    return dict(op=op, a=gen_expr(rnd, depth - 1, d_in), b=gen_expr(rnd, depth - 1, d_in))


def gen_instances(rnd, thorough):
    mult = 4 if thorough else 1
    out = []
    for _ in range(40 * mult):
        n1, n2 = _shape(rnd)
        out.append(dict(kind="expr", X1=_mat(rnd, n1, 3), X2=_mat(rnd, n2, 3), e=gen_expr(rnd, 2, 3)))
    # a few fixed shapes of the composition algebra
    lin = dict(op="lin", v=[[3, 2]], ad=[])
    poly = dict(op="poly", off=[1, 2], p=2, ad=[3, 1])
    for e in (dict(op="scale", s=[2, 3], a=dict(op="sum", a=lin, b=poly)), dict(op="prod", a=dict(op="const", cv=[3, 2]), b=poly),
              dict(op="sum", a=dict(op="scale", s=[1, 2], a=lin), b=dict(op="prod", a=lin, b=poly)), dict(op="scale", s=[3, 1], a=dict(op="scale", s=[1, 2], a=dict(op="lin", v=[[1, 2], [2, 1]], ad=[2, 3]))),
              dict(op="prod", a=lin, b=dict(op="sum", a=poly, b=dict(op="const", cv=[2, 3]))),                       # a sum as the RIGHT factor of a product, a product as the right summand, sum * sum
              dict(op="sum", a=poly, b=dict(op="prod", a=lin, b=dict(op="const", cv=[3, 2]))),
              dict(op="prod", a=dict(op="sum", a=lin, b=dict(op="const", cv=[1, 2])), b=dict(op="sum", a=poly, b=lin))):
        out.append(dict(kind="expr", X1=_mat(rnd, 3, 3), X2=_mat(rnd, 2, 3), e=e))
    for _ in range(16 * mult):
        n1, n2 = _shape(rnd)
        d = rnd.randint(1, 3)
        out.append(dict(kind="polygrad", X1=_mat(rnd, n1, d), X2=_mat(rnd, n2, d), off=_q(rnd, ((1, 2), (3, 2), (1, 3), (2, 3))), p=rnd.randint(1, 3)))
    for t in range(24 * mult):
        order = 1 + t % 2
        n1, n2 = _shape(rnd) if (order == 1 or t % 4 == 1) else rnd.choice([(2, 2), (1, 1), (3, 3)])
        d = rnd.randint(1, 3 if order == 1 else 2)
        l2 = _qs(rnd, d if rnd.random() < 0.5 else 1, ((1, 2), (1, 1), (2, 1), (3, 2), (4, 1)))
        out.append(dict(kind="rbfratio", X1=_mat(rnd, n1, d), X2=_mat(rnd, n2, d), l2=l2, order=order))
    for t in range(32 * mult):
        D, q = 1 + t % 4, (t // 4) % 4
        small = D // 2 + 2 * q + 1 <= 5            # (1 - r)^(j+q) with denominator 4 stays inside TLC's 32-bit integers
        l = _q(rnd, ((2, 1), (3, 1), (3, 2), (4, 1), (1, 1)) if small else ((2, 1), (3, 1), (3, 2), (1, 1)))
        out.append(dict(kind="pp", A=[rnd.randint(0, 5) for _ in range(3)], B=[rnd.randint(0, 5) for _ in range(2)], l=l, D=D, q=q))
    for t in range(16 * mult):
        D = 2 + t % 3
        n1, n2 = _shape(rnd) if t % 3 else (2, 2)
        R = rnd.randint(1, D)
        out.append(dict(kind="ng", X1=_mat(rnd, n1, D), X2=_mat(rnd, n2, D), v=_q(rnd, ((1, 2), (1, 1), (3, 2))), o=_qs(rnd, R)))
    for t in range(24 * mult):          # ArcKernel with an activity indicator: quarter-turn phases Q, activity A, radius om (one per dimension with ARD)
        d = 1 + t % 3
        n1, n2 = _shape(rnd)
        ard = d > 1 and t % 2 == 0
        k = d if ard else 1
        inst = dict(kind="arcmask", Q1=_mat(rnd, n1, d, 0, 5), Q2=_mat(rnd, n2, d, 0, 5), A1=[[int(rnd.random() < 0.6) for _ in range(d)] for _ in range(n1)],
                    A2=[[int(rnd.random() < 0.6) for _ in range(d)] for _ in range(n2)], om=_qs(rnd, k, ((1, 2), (1, 1), (3, 2), (2, 1), (2, 3), (4, 3))),
                    rho=_qs(rnd, k, ((1, 4), (1, 2), (3, 4), (1, 5), (2, 5), (3, 5))), L=_qs(rnd, k, ((1, 1), (3, 2), (2, 1), (5, 4), (1, 2))), base=("rq", "lin", "poly")[t % 3])
        inst["A1"][0][0], inst["A2"][0][0] = 0, 1          # at least one pair active / inactive in the same coordinate
        if inst["base"] == "lin":
            inst["v"] = _q(rnd)
        if inst["base"] == "poly":
            inst.update(off=_q(rnd, ((1, 2), (3, 2), (1, 3), (1, 1))), p=rnd.randint(1, 3))
        out.append(inst)
    for t in range(18 * mult):          # IndexKernel / MultitaskKernel (one term) / LCMKernel (several terms with different ranks)
        T = 2 + t % 2
        nterms = 1 + t % 3
        n1, n2 = _shape(rnd)
        terms = []
        for k in range(nterms):
            r = 1 + (k + t // 3) % T
            e = dict(op="lin", v=_qs(rnd, 2), ad=[]) if (k + t) % 2 == 0 else dict(op="poly", off=_q(rnd, ((1, 2), (3, 2), (1, 3), (1, 1))), p=rnd.randint(1, 2), ad=[])
            terms.append(dict(B=_mat(rnd, T, r), v=_qs(rnd, T), e=e))
        out.append(dict(kind="mtask", T=T, terms=terms, X1=_mat(rnd, n1, 2), X2=_mat(rnd, n2, 2), I1=[rnd.randrange(T) for _ in range(n1)], I2=[rnd.randrange(T) for _ in range(n2)]))
    for t in range(12 * mult):          # sum_interaction_terms on a stack with a batch axis: sizes B, D, N, M pairwise distinct, the stacked axis before / after the batch axis
        D = 2 + t % 3
        lo, hi = [v for v in range(1, 6) if v < D], [v for v in range(1, 6) if v > D]
        B = rnd.choice(lo if t % 2 == 0 else hi)                       # fewer / more batch elements than base covariances
        n1, n2 = rnd.sample([v for v in range(1, 6) if v not in (D, B)], 2)
        smd = [0, D + 2, D, max(1, D - 1), 1][(t // 4) % 5 if t < 20 else rnd.randrange(5)]      # None, above D, D, D - 1, 1
        halves = D <= 3                                                 # power sums up to z^D: integers only for D = 4 (TLC's integers are 32 bit)
        out.append(dict(kind="sitdim", X1=_mat(rnd, n1, D), X2=_mat(rnd, n2, D), v=_q(rnd, ((1, 2), (1, 1), (3, 2)) if halves else ((1, 1), (2, 1))),
                        vb=_qs(rnd, B, ((0, 1), (1, 2), (1, 1), (3, 2), (2, 1), (5, 2)) if halves else ((0, 1), (1, 1), (2, 1), (3, 1), (4, 1))),
                        spos=0 if t % 4 in (0, 3) else 1, smd=smd))
    for k, inst in enumerate(out):
        inst["id"] = k
    return out


def fr(p):
    return Fraction(int(p[0]), int(p[1]))


# ---------------------------------------------------------------------------------------------
# replay workers
class _Spy(object):
    """stands in for RBFCovariance / MaternCovariance in the kernel modules: counts the calls of the hand-written path"""

    def __init__(self, orig):
        self.orig, self.n = orig, 0

    def apply(self, *a):
        self.n += 1
        return self.orig.apply(*a)


_SPIES = []


def _install_spies():
    if _SPIES:
        return
    import gpytorch.kernels.matern_kernel as mk
    import gpytorch.kernels.rbf_kernel as rk
    s1, s2 = _Spy(rk.RBFCovariance), _Spy(mk.MaternCovariance)
    rk.RBFCovariance, mk.MaternCovariance = s1, s2
    _SPIES.extend([s1, s2])


def _worker(item):
    torch = core.setup_torch()
    import logging
    import gpytorch  # noqa
    if not getattr(_worker, "quiet", False):                # the cells that hand priors to SpectralMixtureKernel are meant to: it logs a warning on the root logger
        logging.getLogger().addFilter(lambda rec: "Priors not implemented" not in rec.getMessage())
        _worker.quiet = True
    _install_spies()
    out = []
    for c in item["cases"]:
        fn = dict(cell=run_cell, expr=run_expr, polygrad=run_polygrad, rbfratio=run_rbfratio, pp=run_pp, ng=run_ng, layout=run_layout, special=run_special, arcmask=run_arcmask,
                  mtask=run_mtask, dim=run_dim, sitdim=run_sitdim, rel=run_rel)[c["kind"]]
        r = fn(torch, gpytorch, c)
        out.extend(r if isinstance(r, list) else [r])
    return out


def _dense(x):
    from linear_operator import to_dense
    return to_dense(x).detach()


def cell_desc(cell):
    return "%s%s d=%d%s%s comp=%s batch=%s mode=%s force=%s" % (cell["fam"], "(%s=%s)" % (cell["arg"], cell["val"]) if cell.get("arg") else "", cell["d"], " ARD" if cell["ard"] else "",
                                                               " active_dims" if cell["adims"] else "", cell["comp"], cell["batch"], cell["mode"], cell["force"])


def is_kink(cell):
    return cell["fam"] in KINK or (cell.get("arg"), cell.get("val")) in (("radial_base_kernel", "matern05"),)


def run_cell(torch, gpytorch, c):
    from checks import c05_ref as R
    cell, seed = c["cell"], c["seed"]
    fam, mode, force = cell["fam"], cell["mode"], cell["force"]
    desc = cell_desc(cell) + " seed=%d" % seed
    key = dict(cell)
    res = dict(key=key, ok=True, nontrivial=True, case=c)
    g = torch.Generator().manual_seed(seed)
    tree, d_in = R.cell_tree(cell, g)
    xb = [2] if cell["batch"] != "none" else []
    n1, n2 = NS[mode]
    vocab = tree.get("P", {}).get("vocab", R.HAMMING_VOCAB)
    x1 = R.sample_inputs(fam, d_in, xb, n1, g, vocab)
    x2 = R.sample_inputs(fam, d_in, xb, n2, g, vocab) if mode in ("gt", "lt") else None
    dup = R.tree_dups(tree)
    if dup:
        return dict(machinery="C05 instance with equal entries in a multi-valued parameter (%s) for %s" % (dup, desc))
    want = None                 # the reference is computed after the first successful evaluation (a cell that raises needs none)
    rt = 1e-7 if fam == "sm" else RTOL
    if cell.get("arg"):
        sigtail = "arg-%s=%s-%s" % (cell["arg"], cell["val"], mode)
    else:
        sigtail = "%s-%s%s" % (cell["comp"], mode, "" if cell["path"] == "single" else "-" + cell["path"])
    runs = [None]
    if fam == "ngadd":
        runs = [torch.float32, torch.float64]        # NewtonGirardAdditiveKernel allocates its work tensors in the default dtype
    for dflt in runs:
        for s in _SPIES:
            s.n = 0

        def call():
            from contextlib import ExitStack
            kernel = R.build_tree(gpytorch.kernels, tree)
            a = x1.clone().requires_grad_(True) if force == "x1grad" else x1
            b = None if x2 is None else (x2.clone().requires_grad_(True) if force == "x2grad" else x2)
            with ExitStack() as st:
                if force == "trace":
                    st.enter_context(gpytorch.settings.trace_mode(True))
                if mode == "diag":
                    return _dense(kernel(a, diag=True))
                return _dense(kernel(a) if b is None else kernel(a, b))
        prev = torch.get_default_dtype()
        try:
            if dflt is not None:
                torch.set_default_dtype(dflt)
            ok, got = core.guarded(call)
        finally:
            torch.set_default_dtype(prev)
        if not ok:
            res.update(ok=False, sig="C05/%s/raises/%s" % (fam, sigtail), detail="%s: kernel evaluation raised %s" % (desc, got))
            return res
        if want is None:
            want = R.ref_tree(tree, x1, x1 if x2 is None else x2)
            if mode == "diag":
                want = want.diagonal(dim1=-1, dim2=-2)
            if not torch.isfinite(want).all():
                return dict(machinery="C05 reference not finite for %s" % desc)
        tol = (2e-6, 1e-9) if dflt is torch.float32 else (rt, ATOL)
        if is_kink(cell) and mode in ("same", "diag"):
            # coincident points: the code takes the root of a squared distance that carries rounding ~1e-16, i.e. r ~ 1e-8 instead of 0
            if mode == "same":
                blk = torch.arange(got.shape[-1]) // (got.shape[-1] // n1)
                dm = blk[:, None] == blk[None, :]
                ok, why = core.close(got.masked_fill(dm, 0.0), want.masked_fill(dm, 0.0), *tol)
                if ok:
                    ok, why = core.close(got.masked_fill(~dm, 0.0), want.masked_fill(~dm, 0.0), 1e-7, 1e-9)
            else:
                ok, why = core.close(got, want, 1e-7, 1e-9)
        else:
            ok, why = core.close(got, want, *tol)
        if not ok:
            res.update(ok=False, sig="C05/%s/value/%s" % (fam, sigtail), detail="%s: kernel value differs from the documented covariance function: %s" % (desc, why))
            return res
    took_fast = any(s.n > 0 for s in _SPIES)
    if not cell.get("arg") and took_fast != (cell["path"] == "fast"):
        res["drift"] = "Kernels.tla predicts path %s for %s, the code %s the hand-written Function" % (cell["path"], desc, "called" if took_fast else "did not call")
    if seed % 97 == 0:
        res["sample"] = dict(cell=desc, path=cell.get("path"), shape=list(want.shape), first_entry=float(want.reshape(-1)[0]))
    return res


# ---- exact instances -----------------------------------------------------------------------------------------------
def fmat(torch, M):
    return torch.tensor([[float(fr(v)) for v in row] for row in M], dtype=torch.float64)


def build_expr(torch, K, e):
    D = torch.float64
    op = e["op"]
    if op in ("lin", "poly"):
        ad = tuple(a - 1 for a in e["ad"]) or None
    if op == "lin":
        k = K.LinearKernel(ard_num_dims=len(e["v"]) if len(e["v"]) > 1 else None, active_dims=ad).to(D)
        k.variance = torch.tensor([[float(fr(v)) for v in e["v"]]], dtype=D)
        return k
    if op == "poly":
        k = K.PolynomialKernel(power=e["p"], active_dims=ad).to(D)
        k.offset = torch.tensor([float(fr(e["off"]))], dtype=D)
        return k
    if op == "const":
        k = K.ConstantKernel().to(D)
        k.constant = torch.tensor([float(fr(e["cv"]))], dtype=D)
        return k
    if op == "scale":
        k = K.ScaleKernel(build_expr(torch, K, e["a"])).to(D)
        k.outputscale = torch.tensor(float(fr(e["s"])), dtype=D)
        return k
    a, b = build_expr(torch, K, e["a"]), build_expr(torch, K, e["b"])
    return a + b if op == "sum" else a * b


def expr_str(e):
    op = e["op"]
    if op == "lin":
        return "lin(v=%s,ad=%s)" % ("/".join(str(fr(v)) for v in e["v"]), e["ad"] or "all")
    if op == "poly":
        return "poly(c=%s,p=%d,ad=%s)" % (fr(e["off"]), e["p"], e["ad"] or "all")
    if op == "const":
        return "const(%s)" % fr(e["cv"])
    if op == "scale":
        return "%s*(%s)" % (fr(e["s"]), expr_str(e["a"]))
    return "(%s %s %s)" % (expr_str(e["a"]), "+" if op == "sum" else "*", expr_str(e["b"]))


def _ops(e):
    return {e["op"]} | (_ops(e["a"]) if "a" in e else set()) | (_ops(e["b"]) if "b" in e else set())


def run_expr(torch, gpytorch, c):
    inst, exp = c["inst"], c["exp"]
    D = torch.float64
    X1, X2 = torch.tensor(inst["X1"], dtype=D), torch.tensor(inst["X2"], dtype=D)
    desc = "k = %s on X1=%s X2=%s" % (expr_str(inst["e"]), inst["X1"], inst["X2"])
    res = dict(key=["expr", inst], ok=True, nontrivial=inst["e"]["op"] in ("scale", "sum", "prod"), case=c)
    if inst["id"] % 20 == 0:
        res["sample"] = dict(exact_instance=desc, K=[[str(fr(v)) for v in row] for row in exp["K"]])
    area = "+".join(sorted(_ops(inst["e"])))

    def call():
        k = build_expr(torch, gpytorch.kernels, inst["e"])
        return _dense(k(X1, X2)), _dense(k(X1, diag=True))
    ok, got = core.guarded(call)
    if not ok:
        res.update(ok=False, sig="C05/exact-expr/%s/raises" % area, detail="%s: raised %s" % (desc, got))
        return res
    ok, why = core.close(got[0], fmat(torch, exp["K"]), 1e-12, 1e-12)
    if not ok:
        res.update(ok=False, sig="C05/exact-expr/%s/value" % area, detail="%s: differs from the exact value computed by TLC: %s" % (desc, why))
        return res
    ok, why = core.close(got[1], torch.tensor([float(fr(v)) for v in exp["diag"]], dtype=D), 1e-12, 1e-12)
    if not ok:
        res.update(ok=False, sig="C05/exact-expr/%s/diag" % area, detail="%s: diag=True differs from the exact diagonal computed by TLC: %s" % (desc, why))
    return res


def run_polygrad(torch, gpytorch, c):
    inst, exp = c["inst"], c["exp"]
    D = torch.float64
    X1, X2 = torch.tensor(inst["X1"], dtype=D), torch.tensor(inst["X2"], dtype=D)
    desc = "PolynomialKernelGrad(power=%d, offset=%s) X1=%s X2=%s" % (inst["p"], fr(inst["off"]), inst["X1"], inst["X2"])
    res = dict(key=["polygrad", inst], ok=True, nontrivial=True, case=c)

    def call():
        k = gpytorch.kernels.PolynomialKernelGrad(power=inst["p"]).to(D)
        k.offset = torch.tensor([float(fr(inst["off"]))], dtype=D)
        return _dense(k(X1, X2))
    ok, got = core.guarded(call)
    tail = "n1%sn2" % ("=" if len(inst["X1"]) == len(inst["X2"]) else "!=")
    if not ok:
        res.update(ok=False, sig="C05/polygrad/exact/%s/raises" % tail, detail="%s: raised %s" % (desc, got))
        return res
    ok, why = core.close(got, fmat(torch, exp["K"]), 1e-12, 1e-12)
    if not ok:
        res.update(ok=False, sig="C05/polygrad/exact/%s/value" % tail, detail="%s: differs from the exact derivatives in the interleaved layout (TLC): %s" % (desc, why))
    return res


def run_rbfratio(torch, gpytorch, c):
    inst, exp = c["inst"], c["exp"]
    D = torch.float64
    X1, X2 = torch.tensor(inst["X1"], dtype=D), torch.tensor(inst["X2"], dtype=D)
    d, order = X1.shape[-1], inst["order"]
    m = order * d + 1
    fam = "rbfgrad" if order == 1 else "rbfgradgrad"
    l2 = torch.tensor([[float(fr(v)) for v in inst["l2"]]], dtype=D)
    desc = "%s lengthscale^2=%s X1=%s X2=%s" % (fam, [str(fr(v)) for v in inst["l2"]], inst["X1"], inst["X2"])
    res = dict(key=["rbfratio", inst], ok=True, nontrivial=True, case=c)
    tail = "n1%sn2" % ("=" if len(inst["X1"]) == len(inst["X2"]) else "!=")

    def call():
        cls = gpytorch.kernels.RBFKernelGrad if order == 1 else gpytorch.kernels.RBFKernelGradGrad
        k = cls(**({"ard_num_dims": d} if len(inst["l2"]) > 1 else {})).to(D)
        k.lengthscale = l2.sqrt()
        return _dense(k(X1, X2))
    ok, got = core.guarded(call)
    if not ok:
        res.update(ok=False, sig="C05/%s/raises/exact-%s" % (fam, tail), detail="%s: raised %s" % (desc, got))
        return res
    base = torch.exp(-0.5 * (((X1.unsqueeze(-2) - X2.unsqueeze(-3)) ** 2) / l2).sum(-1))
    ok, why = core.close(got[0::m, 0::m], base, RTOL, 1e-300)
    if not ok:
        res.update(ok=False, sig="C05/%s/exact-%s/value-block" % (fam, tail), detail="%s: value entries differ from exp(-r^2/2): %s" % (desc, why))
        return res
    ratio = got / base.repeat_interleave(m, 0).repeat_interleave(m, 1)
    ok, why = core.close(ratio, fmat(torch, exp["K"]), RTOL, 1e-12)
    if not ok:
        res.update(ok=False, sig="C05/%s/exact-%s/ratio" % (fam, tail), detail="%s: derivative entries / base value differ from the exact rational ratios (TLC): %s" % (desc, why))
    return res


def run_pp(torch, gpytorch, c):
    inst, exp = c["inst"], c["exp"]
    D = torch.float64
    X1, X2 = torch.zeros(len(inst["A"]), inst["D"], dtype=D), torch.zeros(len(inst["B"]), inst["D"], dtype=D)
    X1[:, 0] = torch.tensor(inst["A"], dtype=D)
    X2[:, 0] = torch.tensor(inst["B"], dtype=D)
    desc = "PiecewisePolynomialKernel(q=%d) D=%d lengthscale=%s first coordinates %s x %s" % (inst["q"], inst["D"], fr(inst["l"]), inst["A"], inst["B"])
    res = dict(key=["pp", inst], ok=True, nontrivial=True, case=c)
    if inst["id"] % 16 == 0:
        res["sample"] = dict(exact_instance=desc, K=[[str(fr(v)) for v in row] for row in exp["K"]])

    def call():
        k = gpytorch.kernels.PiecewisePolynomialKernel(q=inst["q"]).to(D)
        k.lengthscale = torch.tensor([[float(fr(inst["l"]))]], dtype=D)
        return _dense(k(X1, X2))
    ok, got = core.guarded(call)
    if not ok:
        res.update(ok=False, sig="C05/pp%d/raises/exact" % inst["q"], detail="%s: raised %s" % (desc, got))
        return res
    ok, why = core.close(got, fmat(torch, exp["K"]), RTOL, 1e-12)
    if not ok:
        res.update(ok=False, sig="C05/pp%d/value/exact" % inst["q"], detail="%s: differs from the documented polynomial evaluated exactly by TLC: %s" % (desc, why))
    return res


def run_ng(torch, gpytorch, c):
    import warnings
    inst, exp = c["inst"], c["exp"]
    D = torch.float64
    K = gpytorch.kernels
    X1, X2 = torch.tensor(inst["X1"], dtype=D), torch.tensor(inst["X2"], dtype=D)
    dim, Rr = X1.shape[-1], len(inst["o"])
    v = float(fr(inst["v"]))
    desc = "per-dimension base kernels x_k y_k + %s (PolynomialKernel, power 1) X1=%s X2=%s" % (fr(inst["v"]), inst["X1"], inst["X2"])
    out = []

    def lin():
        k = K.PolynomialKernel(power=1).to(D)
        k.offset = torch.tensor([v], dtype=D)
        return k

    def ngk():
        k = K.NewtonGirardAdditiveKernel(lin(), num_dims=dim, max_degree=Rr).to(D)
        k.outputscale = torch.tensor([float(fr(o)) for o in inst["o"]], dtype=D)
        return _dense(k(X1, X2))

    def sit():
        from gpytorch.utils.sum_interaction_terms import sum_interaction_terms
        covars = torch.stack([X1[:, t:t + 1] @ X2[:, t:t + 1].T + v for t in range(dim)])
        return sum_interaction_terms(covars, max_degree=Rr)
    subs = [("ngadd", "ng", ngk, "NewtonGirardAdditiveKernel(max_degree=%d, outputscale=%s)" % (Rr, [str(fr(o)) for o in inst["o"]]), (2e-6, 1e-6)),
            ("addstruct", "add", lambda: _dense(K.AdditiveStructureKernel(lin(), num_dims=dim)(X1, X2)), "AdditiveStructureKernel", (1e-12, 1e-12)),
            ("prodstruct", "prod", lambda: _dense(K.ProductStructureKernel(lin(), num_dims=dim)(X1, X2)), "ProductStructureKernel", (1e-12, 1e-12))]
    if len(inst["X1"]) == len(inst["X2"]):
        subs.append(("sum_interaction_terms", "upto", sit, "sum_interaction_terms(max_degree=%d)" % Rr, (1e-12, 1e-12)))
    for area, field, fn, what, tol in subs:
        res = dict(key=["ng", area, inst], ok=True, nontrivial=dim >= 2, case=c)
        with warnings.catch_warnings():
            warnings.simplefilter("ignore")
            ok, got = core.guarded(fn)
        if not ok:
            res.update(ok=False, sig="C05/%s/raises/exact" % area, detail="%s, %s: raised %s" % (what, desc, got))
        else:
            ok, why = core.close(got, fmat(torch, exp[field]), *tol)
            if not ok:
                res.update(ok=False, sig="C05/%s/value/exact" % area, detail="%s, %s: differs from the explicit sum over subsets evaluated exactly by TLC: %s" % (what, desc, why))
        out.append(res)
    return out


def run_sitdim(torch, gpytorch, c):
    """sum_interaction_terms on the exact stack B x D x N x M (dim=-3) / D x B x N x M (dim=-4) against TLC's explicit sums over index subsets"""
    from gpytorch.utils.sum_interaction_terms import sum_interaction_terms
    inst, exp = c["inst"], c["exp"]
    D = torch.float64
    X1, X2 = torch.tensor(inst["X1"], dtype=D), torch.tensor(inst["X2"], dtype=D)
    nd, nb = X1.shape[-1], len(inst["vb"])
    off = torch.tensor([float(fr(inst["v"]) + fr(w)) for w in inst["vb"]], dtype=D)
    covars = torch.stack([X1[:, t:t + 1] @ X2[:, t:t + 1].T for t in range(nd)]) + off[:, None, None, None]          # B x D x N x M
    dim = -3
    if inst["spos"] == 0:
        covars, dim = covars.transpose(0, 1).contiguous(), -4                                                          # D x B x N x M
    md = inst["smd"] or None
    desc = "sum_interaction_terms(covars %s, max_degree=%s, dim=%d), base covariances x_k y_k + %s + %s, X1=%s X2=%s" % (
        list(covars.shape), md, dim, fr(inst["v"]), [str(fr(w)) for w in inst["vb"]], inst["X1"], inst["X2"])
    res = dict(key=["sitdim", inst], ok=True, nontrivial=True, case=c)
    if inst["id"] % 6 == 0:
        res["sample"] = dict(exact_instance=desc, orders=exp["deg"], first_batch_element=[[str(fr(v)) for v in row] for row in exp["K"][0]])
    if covars.shape[dim] != nd or len({nb, nd, X1.shape[0], X2.shape[0]}) != 4:
        return dict(machinery="C05 sitdim instance with colliding axis sizes: %s" % desc)
    tail = "dim%d-md=%s" % (dim, "none" if md is None else "over" if md > nd else "D" if md == nd else "below")
    ok, got = core.guarded(lambda: _dense(sum_interaction_terms(covars, max_degree=md, dim=dim)))
    if not ok:
        res.update(ok=False, sig="C05/sum_interaction_terms/raises/exact-%s" % tail, detail="%s: raised %s" % (desc, got))
        return res
    want = torch.stack([fmat(torch, Mb) for Mb in exp["K"]])
    if list(got.shape) != list(want.shape):
        res.update(ok=False, sig="C05/sum_interaction_terms/shape/exact-%s" % tail, detail="%s: result has shape %s instead of %s" % (desc, list(got.shape), list(want.shape)))
        return res
    ok, why = core.close(got, want, 1e-12, 1e-12)
    if not ok:
        res.update(ok=False, sig="C05/sum_interaction_terms/value/exact-%s" % tail,
                   detail="%s: differs from the explicit sum over index subsets up to order %d evaluated exactly by TLC: %s" % (desc, exp["deg"], why))
    return res


def _nonneg(x):
    return (x >= 0).to(x.dtype)


def run_arcmask(torch, gpytorch, c):
    """ArcKernel(delta_func = coordinate is non-negative) on inputs whose active coordinates have phase pi rho x / L = q pi / 2 exactly"""
    import math  # noqa
    inst, exp = c["inst"], c["exp"]
    D = torch.float64
    K = gpytorch.kernels
    d, ard = len(inst["Q1"][0]), len(inst["om"]) > 1

    def vec(name):
        return torch.tensor([[float(fr(v)) for v in inst[name]]], dtype=D)
    rho, L, om = vec("rho"), vec("L"), vec("om")

    def inputs(Qm, Am):
        q, a = torch.tensor(Qm, dtype=D), torch.tensor(Am, dtype=D)
        return torch.where(a > 0, q, -(q + 1)) * L / (2 * rho)            # inactive coordinates are encoded as negative numbers
    X1, X2 = inputs(inst["Q1"], inst["A1"]), inputs(inst["Q2"], inst["A2"])
    desc = "ArcKernel(%s, delta_func = (x >= 0)%s) angle=%s radius=%s lengthscale=%s quarter turns %s x %s activity %s x %s" % (
        inst["base"], ", ard_num_dims=%d" % d if ard else "", [str(fr(v)) for v in inst["rho"]], [str(fr(v)) for v in inst["om"]], [str(fr(v)) for v in inst["L"]], inst["Q1"], inst["Q2"], inst["A1"], inst["A2"])
    res = dict(key=["arcmask", inst], ok=True, nontrivial=True, case=c)
    if inst["id"] % 12 == 0:
        res["sample"] = dict(exact_instance=desc, K=[[str(fr(v)) for v in row] for row in exp["K"]])

    def call():
        if inst["base"] == "rq":
            base = K.RQKernel()
        elif inst["base"] == "lin":
            base = K.LinearKernel()
        else:
            base = K.PolynomialKernel(power=inst["p"])
        k = K.ArcKernel(base, delta_func=_nonneg, **({"ard_num_dims": d} if ard else {})).to(D)
        k.angle, k.radius, k.lengthscale = rho, om, L
        if inst["base"] == "rq":
            k.base_kernel.lengthscale = torch.ones(1, 1, dtype=D)
            k.base_kernel.alpha = torch.ones(1, dtype=D)
        elif inst["base"] == "lin":
            k.base_kernel.variance = torch.tensor([[float(fr(inst["v"]))]], dtype=D)
        else:
            k.base_kernel.offset = torch.tensor([float(fr(inst["off"]))], dtype=D)
        return _dense(k(X1, X2)), _dense(k(X1, diag=True))
    ok, got = core.guarded(call)
    area = "C05/arc/exact-delta_func-%s" % inst["base"]
    if not ok:
        res.update(ok=False, sig=area + "/raises", detail="%s: raised %s" % (desc, got))
        return res
    ok, why = core.close(got[0], fmat(torch, exp["K"]), 1e-11, 1e-12)
    if not ok:
        res.update(ok=False, sig=area + "/value", detail="%s: differs from the base kernel on the documented embedding (inactive coordinates at the origin) evaluated exactly by TLC: %s" % (desc, why))
        return res
    ok, why = core.close(got[1], torch.tensor([float(fr(v)) for v in exp["diag"]], dtype=D), 1e-11, 1e-12)
    if not ok:
        res.update(ok=False, sig=area + "/diag", detail="%s: diag=True differs from the exact diagonal computed by TLC: %s" % (desc, why))
    return res


def run_mtask(torch, gpytorch, c):
    inst, exp = c["inst"], c["exp"]
    D = torch.float64
    K = gpytorch.kernels
    T, terms = inst["T"], inst["terms"]
    X1, X2 = torch.tensor(inst["X1"], dtype=D), torch.tensor(inst["X2"], dtype=D)
    I1, I2 = torch.tensor(inst["I1"]).unsqueeze(-1), torch.tensor(inst["I2"]).unsqueeze(-1)
    desc = "T=%d terms=%s X1=%s X2=%s" % (T, ["k=%s B=%s v=%s" % (expr_str(t["e"]), t["B"], [str(fr(v)) for v in t["v"]]) for t in terms], inst["X1"], inst["X2"])
    out = []

    def set_task(ik, t):
        ik.initialize(covar_factor=torch.tensor(t["B"], dtype=D))
        ik.var = torch.tensor([float(fr(v)) for v in t["v"]], dtype=D)

    def index():
        k = K.IndexKernel(num_tasks=T, rank=len(terms[0]["B"][0])).to(D)
        set_task(k, terms[0])
        return _dense(k(I1, I2)), None

    def multi():
        if len(terms) == 1:
            k = K.MultitaskKernel(build_expr(torch, K, terms[0]["e"]), num_tasks=T, rank=len(terms[0]["B"][0])).to(D)
            set_task(k.task_covar_module, terms[0])
        else:
            k = K.LCMKernel([build_expr(torch, K, t["e"]) for t in terms], num_tasks=T, rank=[len(t["B"][0]) for t in terms]).to(D)
            for m, t in zip(k.covar_module_list, terms):
                set_task(m.task_covar_module, t)
        return _dense(k(X1, X2)), _dense(k(X1, diag=True))
    for area, fn, field, what in (("index", index, "idx", "IndexKernel on indices %s x %s" % (inst["I1"], inst["I2"])),
                                  ("multitask" if len(terms) == 1 else "lcm", multi, "K", "MultitaskKernel" if len(terms) == 1 else "LCMKernel(rank=%s)" % [len(t["B"][0]) for t in terms])):
        res = dict(key=["mtask", area, inst], ok=True, nontrivial=True, case=c)
        ok, got = core.guarded(fn)
        if not ok:
            res.update(ok=False, sig="C05/%s/raises/exact" % area, detail="%s, %s: raised %s" % (what, desc, got))
        else:
            ok, why = core.close(got[0], fmat(torch, exp[field]), 1e-12, 1e-12)
            if not ok:
                res.update(ok=False, sig="C05/%s/value/exact" % area, detail="%s, %s: differs from B B^T + diag(v) / the per-point interleaved Kronecker product evaluated exactly by TLC: %s" % (what, desc, why))
            elif got[1] is not None:
                ok, why = core.close(got[1], torch.tensor([float(fr(v)) for v in exp["diag"]], dtype=D), 1e-12, 1e-12)
                if not ok:
                    res.update(ok=False, sig="C05/%s/diag/exact" % area, detail="%s, %s: diag=True differs from the exact diagonal computed by TLC: %s" % (what, desc, why))
        out.append(res)
    return out


def run_layout(torch, gpytorch, c):
    """TLC's permutation applied to the reference derivatives in BLOCK order must give the kernel's output (shape and entries)"""
    from checks import c05_ref as R
    cell, exp = c["cell"], c["exp"]
    D = torch.float64
    n1, n2, d, order = cell["n1"], cell["n2"], cell["d"], cell["order"]
    m = order * d + 1
    fam = "rbfgrad" if order == 1 else "rbfgradgrad"
    g = torch.Generator().manual_seed(c["seed"])
    x1, x2 = R.U(g, -1, 1, n1, d), R.U(g, -1, 1, n2, d)
    P = dict(ls=R.U(g, 0.6, 1.6, 1, d))
    desc = "%s n1=%d n2=%d d=%d" % (fam, n1, n2, d)
    res = dict(key=["layout", cell], ok=True, nontrivial=n1 != n2, case=c)
    tail = "n1%sn2" % ("=" if n1 == n2 else "!=")
    inter = R.deriv_matrix(R.base_scalar(fam, P, 0), x1, x2, order)                    # [i*m + a, j*m + b]
    blocks = torch.zeros_like(inter)
    for i in range(n1):
        for a in range(m):
            for j in range(n2):
                for b in range(m):
                    blocks[a * n1 + i, b * n2 + j] = inter[i * m + a, j * m + b]
    want = blocks[list(exp["perm1"]), :][:, list(exp["perm2"])]

    def call():
        cls = gpytorch.kernels.RBFKernelGrad if order == 1 else gpytorch.kernels.RBFKernelGradGrad
        k = cls(ard_num_dims=d).to(D)
        k.lengthscale = P["ls"]
        return _dense(k(x1, x2))
    ok, got = core.guarded(call)
    if not ok:
        res.update(ok=False, sig="C05/%s/raises/layout-%s" % (fam, tail), detail="%s: raised %s" % (desc, got))
        return res
    if list(got.shape) != [exp["rows"], exp["cols"]]:
        res.update(ok=False, sig="C05/%s/layout-%s/shape" % (fam, tail), detail="%s: output shape %s, documented %s" % (desc, list(got.shape), [exp["rows"], exp["cols"]]))
        return res
    ok, why = core.close(got, want, RTOL, ATOL)
    if not ok:
        res.update(ok=False, sig="C05/%s/layout-%s/entries" % (fam, tail), detail="%s: entries are not the partial derivatives in the per-point interleaved layout: %s" % (desc, why))
    return res


def dim_desc(cell, exp):
    return "%s[%s] batch=%s (kernel batch %s) K=%d N=%d M=%s mode=%s%s%s" % (
        cell["tgt"], cell["fam"], list(exp["b"]), list(exp["kbatch"]), exp["K"], exp["N"], exp["M"] if cell["mode"] == "two" else "-", cell["mode"],
        " covars%s dim=%d" % (list(exp["inshape"]), exp["dim"]) if cell["tgt"] == "sit" else "", "" if cell["md"] == "-" else " max_degree=%s" % (exp["mdarg"] or None))


def run_dim(torch, gpytorch, c):
    """a cell of part "dims" of Kernels.tla: the stack of K base covariances / one-dimensional kernels along the NAMED dimension, all axis sizes pairwise
    distinct, against the explicit sum over index subsets of the documented one-dimensional kernels"""
    import warnings
    from checks import c05_ref as R
    cell, exp, seed = c["cell"], c["exp"], c["seed"]
    tgt, fam, mode, md = cell["tgt"], cell["fam"], cell["mode"], cell["md"]
    D = torch.float64
    K = gpytorch.kernels
    g = torch.Generator().manual_seed(seed)
    b, kd, n, m, kb = list(exp["b"]), exp["K"], exp["N"], exp["M"], list(exp["kbatch"])
    desc = dim_desc(cell, exp) + " seed=%d" % seed
    res = dict(key=["dim", cell], ok=True, nontrivial=True, case=c)
    tail = "%s-nb%dkb%d-%s%s%s" % (fam, cell["nb"], cell["kb"], mode, "-dim%d" % exp["dim"] if tgt == "sit" else "", "" if md == "-" else "-md=" + md)
    sizes = b + [kd, n] + ([m] if mode == "two" else [])
    if len(set(sizes)) != len(sizes):
        return dict(machinery="C05 dims cell with two equal axis sizes %s: %s" % (sizes, desc))
    runs = [None]
    if tgt == "sit":
        from gpytorch.utils.sum_interaction_terms import sum_interaction_terms
        from linear_operator import to_linear_operator
        covars = R.U(g, 0.2, 1.4, *exp["inshape"])
        dim = exp["dim"]
        if covars.shape[dim] != kd:
            return dict(machinery="C05 dims cell: covars%s has %d entries along dim=%d, the cell says K=%d" % (list(covars.shape), covars.shape[dim], dim, kd))
        kw = {}
        if md != "none":
            kw["max_degree"] = exp["mdarg"]
        if dim != -3 or cell["rot"] % 2 == 1:                               # the documented default dim=-3 is also exercised by omission
            kw["dim"] = dim
        want = R.subsets_sum(list(covars.unbind(dim)), exp["deg"])

        def call():
            return _dense(sum_interaction_terms(covars.clone() if fam == "tensor" else to_linear_operator(covars.clone()), **kw))
    else:
        x1 = R.U(g, -1.0, 1.0, *b, n, kd)
        x2 = R.U(g, -1.0, 1.0, *b, m, kd) if mode == "two" else None
        xr = x1 if x2 is None else x2
        if tgt == "cdist":
            want = torch.stack([(x1[..., :, None, t] - xr[..., None, :, t]).abs() for t in range(kd)], dim=-3)
            if fam == "sqdist":
                want = want ** 2

            def call():
                return _dense(K.RBFKernel().to(D).covar_dist(x1, xr, diag=mode == "diag", last_dim_is_batch=True, square_dist=fam == "sqdist"))
        else:
            if tgt == "ngadd":
                P = R.sample_params("ngadd", kd, True, kb, g, dict(arg="max_degree", val=md))
                P["base"] = fam
                if fam == "rq":
                    P["balpha"] = R.UD(g, 0.5, 2.5, *kb, 1)
                if P["R"] != exp["deg"] or (P["Rarg"] or 0) != exp["mdarg"]:
                    return dict(machinery="C05 dims cell: max_degree %r / %r orders instead of the spec's %r / %r: %s" % (P["Rarg"], P["R"], exp["mdarg"], exp["deg"], desc))
                tree = dict(t="leaf", fam="ngadd", d=kd, ard=True, bs=kb, ad=None, P=P)
                terms = R.dim_terms(fam, {"ls": P["ls"], "alpha": P.get("balpha")}, x1, xr)
                want = R.subsets_sum(terms, P["R"], P["o"])
                runs = [torch.float32, torch.float64]                       # NewtonGirardAdditiveKernel allocates its work tensors in the default dtype
            else:
                lf = "rbf" if fam == "scale" else fam
                ard = lf not in ("polynomial", "constant", "cosine")
                leaf = dict(t="leaf", fam=lf, d=kd, ard=ard, bs=kb, ad=None, P=R.sample_params(lf, kd, ard, kb, g))
                terms = R.dim_terms(lf, leaf["P"], x1, xr)
                if tgt == "ldb":
                    tree = leaf
                    want = torch.stack(terms, dim=-3)
                    if fam == "scale":
                        tree = dict(t="scale", a=leaf, bs=kb, s=R.UD(g, 0.5, 2.0, *kb))
                        want = tree["s"][..., None, None, None] * want
                else:
                    tree = dict(t=tgt, a=leaf, D=kd)
                    want = sum(terms) if tgt == "addstruct" else R._prod(terms)
            dup = R.tree_dups(tree)
            if dup:
                return dict(machinery="C05 dims cell with equal entries in a multi-valued parameter (%s): %s" % (dup, desc))
            kw = {"last_dim_is_batch": True} if tgt == "ldb" else {}

            def call():
                with warnings.catch_warnings():
                    warnings.simplefilter("ignore")
                    kernel = R.build_tree(K, tree)
                    if mode == "diag":
                        return _dense(kernel(x1, diag=True, **kw))
                    return _dense(kernel(x1, **kw) if x2 is None else kernel(x1, x2, **kw))
        if mode == "diag":
            want = want.diagonal(dim1=-1, dim2=-2)
    if not torch.isfinite(want).all():
        return dict(machinery="C05 reference not finite for %s" % desc)
    if list(want.shape) != list(exp["shape"]):
        return dict(machinery="C05 dims cell: the reference has shape %s, the spec says %s: %s" % (list(want.shape), list(exp["shape"]), desc))
    for dflt in runs:
        prev = torch.get_default_dtype()
        try:
            if dflt is not None:
                torch.set_default_dtype(dflt)
            ok, got = core.guarded(call)
        finally:
            torch.set_default_dtype(prev)
        if not ok:
            res.update(ok=False, sig="C05/dims/%s/raises/%s" % (tgt, tail), detail="%s: raised %s" % (desc, got))
            return res
        if list(got.shape) != list(exp["shape"]):
            res.update(ok=False, sig="C05/dims/%s/shape/%s" % (tgt, tail), detail="%s: result has shape %s, documented %s" % (desc, list(got.shape), list(exp["shape"])))
            return res
        ok, why = core.close(got, want, *((2e-6, 1e-9) if dflt is torch.float32 else (1e-7 if fam == "sm" else RTOL, ATOL)))
        if not ok:
            res.update(ok=False, sig="C05/dims/%s/value/%s" % (tgt, tail),
                       detail="%s: differs from the explicit sum over index subsets of the %d documented one-dimensional terms along the named dimension: %s" % (desc, kd, why))
            return res
    if seed % 97 == 0:
        res["sample"] = dict(dims_cell=desc, shape=list(want.shape), first_entry=float(want.reshape(-1)[0]))
    return res


def rel_desc(cell, exp):
    return "%s%s comp=%s%s rel=%s (x1: offset %d shape %s strides %s; x2: offset %d shape %s strides %s%s) %s%s" % (
        cell["fam"], " ARD" if cell["ard"] else "", cell["comp"], " last_dim_is_batch" if cell["ldb"] else "", cell["rel"], exp["v1"]["off"], list(exp["v1"]["shape"]), list(exp["v1"]["st"]),
        exp["v2"]["off"], list(exp["v2"]["shape"]), list(exp["v2"]["st"]), "; the same object" if exp["sameobj"] else "", cell["mode"],
        " via kernel(A)[%s, %s]" % (":".join(map(str, exp["sl1"])), ":".join(map(str, exp["sl2"]))) if cell["how"] == "lazy" else "")


def run_rel(torch, gpytorch, c):
    """a cell of part "rel" of Kernels.tla: x1 and x2 are the two VIEWS of the spec (built with the ordinary slicing / transposing / expanding
    operations, geometry asserted against the spec); the reference is the documented formula on fresh contiguous copies of the rows read
    through the spec's element maps"""
    import warnings
    from checks import c05_ref as R
    cell, exp, seed = c["cell"], c["exp"], c["seed"]
    fam, rel, mode, how, ldb = cell["fam"], cell["rel"], cell["mode"], cell["how"], cell["ldb"]
    n, C = int(exp["n"]), int(exp["cols"])
    desc = rel_desc(cell, exp) + " seed=%d" % seed
    res = dict(key=["rel", cell], ok=True, nontrivial=True, case=c)
    lcell = dict(fam=fam, d=cell["d"], ard=cell["ard"], adims=False, comp=cell["comp"], batch="none", mode="gt", force="none", path=None)
    if fam == "rff":
        lcell.update(arg="num_samples", val="4", effect="formula", dflt="4")
    g = torch.Generator().manual_seed(seed)
    tree, d_in = R.cell_tree(lcell, g)
    dup = R.tree_dups(tree)
    if dup:
        return dict(machinery="C05 rel instance with equal entries in a multi-valued parameter (%s) for %s" % (dup, desc))
    vocab = tree.get("P", {}).get("vocab", R.HAMMING_VOCAB)
    A = R.sample_inputs(fam, d_in, [], 2 * n, g, vocab)
    fresh = R.sample_inputs(fam, d_in, [], n, g, vocab)
    if list(A.shape) != [2 * n, C]:
        return dict(machinery="C05 rel cell: the base array has shape %s, the spec says %s: %s" % (list(A.shape), [2 * n, C], desc))
    B = fresh.clone()
    for r, src in enumerate(exp["copy"]):
        if int(src) >= 0:
            B[r] = A[int(src)]
    mem = torch.cat([A, B]).reshape(-1)                                  # the abstract memory of the spec
    sh1, sh2 = [int(v) for v in exp["v1"]["shape"]], [int(v) for v in exp["v2"]["shape"]]
    ref1 = mem[torch.tensor([int(e) for e in exp["e1"]])].reshape(sh1).clone()
    ref2 = mem[torch.tensor([int(e) for e in exp["e2"]])].reshape(sh2).clone()
    At, Bt = A.clone(), B.clone()                                       # two storages
    x1 = At[:n]
    if rel == "same":
        x2 = x1
    elif rel == "alias":
        x2 = At[:n]
    elif rel in ("clone", "lastrow", "fresh"):
        x2 = Bt
    elif rel == "sclone":
        x1, x2 = At[::2], Bt
    elif rel == "stride":
        x2 = At[::2]
    elif rel == "offset":
        x2 = At[n:]
    elif rel == "overlap":
        x2 = At[1:n + 1]
    elif rel == "prefix":
        x2 = At[:n - 1]
    elif rel == "transpose":
        x2 = x1.t()
    elif rel == "expand":
        x2 = At[0:1].expand(n, C)
    elif rel == "colstride":
        Wd = At.view(n, 2 * C)
        x1, x2 = Wd[:, :C], Wd[:, ::2]
    elif rel == "batchexp":
        x1, x2 = At.view(2, n, C), At[:n].expand(2, n, C)
    else:
        raise core.Machinery("unknown relation %r" % rel)
    for x, v, ref, nm in ((x1, exp["v1"], ref1, "x1"), (x2, exp["v2"], ref2, "x2")):
        inB = x.untyped_storage().data_ptr() == Bt.untyped_storage().data_ptr()
        off = int(v["off"]) - (2 * n * C if inB else 0)
        if inB != (int(v["off"]) >= 2 * n * C) or [x.storage_offset(), list(x.shape), list(x.stride())] != [off, [int(t) for t in v["shape"]], [int(t) for t in v["st"]]] or not torch.equal(x, ref):
            return dict(machinery="C05 rel cell: %s built as offset %d shape %s strides %s, the spec says %s: %s" % (nm, x.storage_offset(), list(x.shape), list(x.stride()), v, desc))
    facts = dict(sameobj=x1 is x2, sameptr=x1.data_ptr() == x2.data_ptr(), sameshape=x1.shape == x2.shape, samestrides=x1.stride() == x2.stride())
    if any(bool(exp[k]) != v for k, v in facts.items()) or (exp["valeq"] and not torch.equal(x1, x2)):
        return dict(machinery="C05 rel cell: the tensors relate as %s, the spec says %s: %s" % (facts, {k: exp[k] for k in facts}, desc))
    if not exp["valeq"] and x1.shape == x2.shape and torch.equal(x1, x2):
        res["nontrivial"] = False                                       # one-hot rows may coincide by chance
    sigtail = "rel-%s-%s%s-%s%s" % (rel, cell["comp"], "-ldb" if ldb else "", mode, "-lazy" if how == "lazy" else "")
    rt = 1e-7 if fam == "sm" else RTOL
    if ldb:
        want = torch.stack(R.dim_terms(fam, tree["P"], ref1, ref2), dim=-3)
    else:
        want = None
    runs = [torch.float32, torch.float64] if fam == "ngadd" else [None]
    kw = {"last_dim_is_batch": True} if ldb else {}

    def call():
        with warnings.catch_warnings():
            warnings.simplefilter("ignore")
            kernel = R.build_tree(gpytorch.kernels, tree)
            if how == "lazy":
                s1, s2 = [int(t) for t in exp["sl1"]], [int(t) for t in exp["sl2"]]
                return _dense(kernel(At)[slice(*s1), slice(*s2)])
            if mode == "diag":
                return _dense(kernel(x1, x2, diag=True, **kw))
            return _dense(kernel(x1, x2, **kw))
    for dflt in runs:
        prev = torch.get_default_dtype()
        try:
            if dflt is not None:
                torch.set_default_dtype(dflt)
            ok, got = core.guarded(call)
        finally:
            torch.set_default_dtype(prev)
        if not ok:
            res.update(ok=False, sig="C05/%s/raises/%s" % (fam, sigtail), detail="%s: kernel evaluation raised %s" % (desc, got))
            return res
        if want is None:                                                # after the first evaluation: RFFKernel's frequencies are read back from the kernel
            want = R.ref_tree(tree, ref1, ref2)
        wd = want.diagonal(dim1=-1, dim2=-2) if mode == "diag" else want
        if not torch.isfinite(wd).all():
            return dict(machinery="C05 reference not finite for %s" % desc)
        if list(got.shape) != list(wd.shape):
            res.update(ok=False, sig="C05/%s/shape/%s" % (fam, sigtail), detail="%s: result has shape %s, documented %s" % (desc, list(got.shape), list(wd.shape)))
            return res
        tol = (2e-6, 1e-9) if dflt is torch.float32 else (rt, ATOL)
        if is_kink(lcell):
            # coincident rows of x1 and x2: the code takes the root of a squared distance that may carry rounding ~1e-16, i.e. r ~ 1e-8 instead of 0
            if mode == "diag":
                ok, why = core.close(got, wd, 1e-7, 1e-9)
            else:
                dm = (ref1.unsqueeze(-2) == ref2.unsqueeze(-3)).all(-1)
                m = got.shape[-1] // dm.shape[-1]
                dm = dm.repeat_interleave(m, -1).repeat_interleave(m, -2).expand(got.shape)
                ok, why = core.close(got.masked_fill(dm, 0.0), wd.masked_fill(dm, 0.0), *tol)
                if ok:
                    ok, why = core.close(got.masked_fill(~dm, 0.0), wd.masked_fill(~dm, 0.0), 1e-7, 1e-9)
        else:
            ok, why = core.close(got, wd, *tol)
        if not ok:
            res.update(ok=False, sig="C05/%s/value/%s" % (fam, sigtail),
                       detail="%s: kernel value differs from the documented covariance function of the rows of x1 and x2: %s" % (desc, why))
            return res
    if seed % 97 == 0:
        res["sample"] = dict(rel_cell=desc, shape=list(want.shape), first_entry=float(want.reshape(-1)[0]))
    return res


def run_special(torch, gpytorch, c):
    from checks import c05_ref as R
    D = torch.float64
    what = c["what"]
    if what == "matern-bessel":          # ties the closed forms used as reference to the docstring's Bessel formula (harness self check)
        for nu in (0.5, 1.5, 2.5):
            for r in (0.05, 0.7, 2.3):
                a, b = float(R.matern_of_r(nu, torch.tensor(r, dtype=D))), R.matern_bessel(nu, r)
                if abs(a - b) > 1e-13 * max(1.0, abs(b)):
                    return dict(machinery="C05 reference: Matern closed form nu=%s r=%s is %r, Bessel formula %r" % (nu, r, a, b))
        return dict(key=["special", what], ok=True, nontrivial=False, case=c)
    if what == "sit-default":            # documented: max_degree defaults to D
        from gpytorch.utils.sum_interaction_terms import sum_interaction_terms
        g = torch.Generator().manual_seed(c["seed"])
        covars = R.U(g, 0.1, 1.0, 3, 4, 4)
        want = (1 + covars).prod(0) - 1                                  # sum over all non-empty subsets of products
        res = dict(key=["special", what], ok=True, nontrivial=True, case=c)
        ok, got = core.guarded(lambda: sum_interaction_terms(covars))
        if not ok:
            res.update(ok=False, sig="C05/sum_interaction_terms/raises/max_degree=None", detail="sum_interaction_terms(covars) with the documented default max_degree=None (= D): raised %s" % got)
            return res
        ok, why = core.close(got, want, RTOL, ATOL)
        if not ok:
            res.update(ok=False, sig="C05/sum_interaction_terms/value/max_degree=None", detail="sum_interaction_terms(covars) with the default max_degree differs from the sum over all subsets: %s" % why)
        return res
    if what == "diag-ldb":               # kernel(x, diag=True) of the structure kernels when the number of rows equals the number of dimensions
        import warnings
        K = gpytorch.kernels
        g = torch.Generator().manual_seed(c["seed"])
        n = c["n"]
        x = R.U(g, -1, 1, n, n)
        ls = R.U(g, 0.6, 1.6, 1, 1)
        z = [R.k_leaf("rbf", {"ls": ls}, x[:, t:t + 1], x[:, t:t + 1]) for t in range(n)]
        res = dict(key=["special", what, n], ok=True, nontrivial=True, case=c)

        def call():
            with warnings.catch_warnings():
                warnings.simplefilter("ignore")
                base = K.RBFKernel().to(D)
                base.lengthscale = ls
                return _dense(K.AdditiveStructureKernel(base, num_dims=n)(x, diag=True))
        ok, got = core.guarded(call)
        if not ok:
            res.update(ok=False, sig="C05/kernel-call/diag-last_dim_is_batch/n==d/raises", detail="AdditiveStructureKernel(RBFKernel)(x, diag=True) with x of shape %d x %d: raised %s" % (n, n, got))
            return res
        ok, why = core.close(got, sum(z).diagonal(), RTOL, ATOL)
        if not ok:
            res.update(ok=False, sig="C05/kernel-call/diag-last_dim_is_batch/n==d/value", detail="AdditiveStructureKernel(RBFKernel)(x, diag=True) with x of shape %d x %d is not the diagonal of the sum of 1-d kernels: %s" % (n, n, why))
        return res
    raise core.Machinery("unknown special case %r" % what)


# ---------------------------------------------------------------------------------------------
def fams_with_shortcut():
    """kernels whose forward (or the distance helper it calls) tests whether x1 equals x2: grep torch.equal / x1_eq_x2 in gpytorch/kernels"""
    return {"linear", "sdelta", "rff", "hamming", "sm", "rbf", "matern05", "matern15", "matern25", "rq", "periodic", "cosine", "pp0", "pp1", "pp2", "pp3",
            "rbfgrad", "matern52grad", "rbfgradgrad", "gskl", "arc", "cyl"}


def _plain(v):
    if isinstance(v, dict):
        return {k: _plain(x) for k, x in v.items()}
    if isinstance(v, (tuple, list)):
        return [_plain(x) for x in v]
    if isinstance(v, bool) or isinstance(v, int):
        return v
    return str(v)


def run(ck):
    thorough = ck.tier == "thorough"
    core.setup_torch()
    rnd = random.Random(ck.seed)
    ck.rule = ("cells = every valid combination of kernel family (25) x input dim x ARD x active_dims x composition (plain, Scale, Sum, Product, additive / product structure) x "
               "batch (none, kernel+inputs, inputs only) x mode (n1>n2, n1<n2, x2=None, diag) x path forcing (none, x1/x2.requires_grad, trace_mode) enumerated by TLC with the branch the "
               "dispatch predicate selects; each cell is evaluated through the real kernel on seeded float64 inputs and compared with the documented formula (derivative kernels: autograd "
               "derivatives of the base formula, entry by entry); args cells = every (kernel, optional documented constructor argument, value class incl. every non-default class) x ARD x batch x "
               "mode of the constructor-argument lattice of Kernels.tla (delta_func, base kernels, eps, power, num_mixtures, num_deltas, num_angular_weights, vocab_size, max_degree, rank, "
               "distance_function, active_dims, every *_constraint and *_prior), same replay; every parameter tensor has pairwise distinct entries (asserted per cell); dims cells = "
               "every (target in sum_interaction_terms on Tensor / LinearOperator, covar_dist, kernel(last_dim_is_batch=True) for 11 kernels, AdditiveStructure / ProductStructure / "
               "NewtonGirardAdditive kernels) x number of batch axes 0..2 x how many of them the kernel parameters carry x position of the stacked axis (sum_interaction_terms: "
               "every dim in -(3 + nb) .. -3) x max_degree class (None, 1, 2, K-1, K, K+2) x mode (n1 != n2, x2=None, diag) x rotation of the size assignment (all axis sizes "
               "pairwise distinct, every ordered pair of axes in increasing size in some cell: DimsOK), compared with the explicit sum over index subsets of the documented "
               "one-dimensional terms along the NAMED dimension and with the documented output shape; rel cells = every kernel family (26, ARD where offered, the two-path kernels "
               "also without) x composition (plain; Product; Scale / Sum for the kernels with their own x1-equals-x2 test; additive structure; last_dim_is_batch) x how x1 and x2 relate "
               "as tensor OBJECTS (same object, second view with the same geometry, equal clone contiguous / with other strides, clone differing in the last row, fresh values, "
               "stepped / shifted / overlapping / shorter row views of one storage, transposed view of a square input, stride-0 expanded row, stepped columns, batch-expanded "
               "view) x (direct call, diag=True where x1 == x2 as documented, the views kernel(A)[rows, cols] builds lazily), the views of Kernels.tla part rel built with the "
               "ordinary slicing operations (geometry asserted against the spec) and compared with the documented formula on fresh copies of the rows; exact = rational "
               "instances evaluated by TLC; non-trivial = every lattice cell (distinct by cell) and every exact instance with a composite expression / derivative / d >= 2")
    ck.assumptions = [
        "level 'other': the numeric dimension is sampled (seeded inputs and parameters), only the configuration lattice and the rational instances are exhaustive / exact",
        "tolerance 1e-9 relative to the largest entry of the matrix (+1e-12 absolute); SpectralMixtureKernel 1e-7; exact instances 1e-12",
        "MaternKernel: d in the docstring is read as the lengthscale-scaled Euclidean DISTANCE (the docstring writes the quadratic form); the closed forms used as reference are tied to the "
        "docstring's Bessel formula by mpmath on every run",
        "PeriodicKernel: exp(-2 sum_i sin^2(pi (x_i - x'_i) / p_i) / lambda_i) with per-dimension p_i, lambda_i under ARD (docstring: per-dimension sum, lengthscale not squared)",
        "SpectralMixtureKernel: prod over input dimensions of sum_q w_q exp(-2 pi^2 tau_d^2 s_qd^2) cos(2 pi tau_d mu_qd); mixture_scales s are the standard deviations of the spectral "
        "components, i.e. the paper's v_q = s_q^2 for d = 1",
        "SpectralDeltaKernel: (1/S) sum_s cos(2 pi z_s . (x - x') / lengthscale) (spectral density = mixture of S point masses); ArcKernel: base kernel (Matern-5/2, unit lengthscale) on the "
        "documented cylindrical embedding, u_i - l_i = lengthscale",
        "CylindricalKernel: inputs inside the unit ball without zero coordinates; the Kumaraswamy warp is 1 - (1 - r^alpha + eps)^beta with the documented stability constant eps = 1e-6",
        "GaussianSymmetrizedKLKernel: exp(-sKL / lengthscale) (the lengthscale divides the distance; the base class docstring's 'a' is read as 1/lengthscale) with the documented variance jitter 1e-8",
        "LinearKernel with ard_num_dims: one variance per input dimension; PiecewisePolynomialKernel: D = number of (active) input columns; piecewise polynomial kernels are not replayed "
        "inside Additive/ProductStructureKernel (D is not defined there)",
        "NewtonGirardAdditiveKernel stores its intermediate sums in the DEFAULT dtype: compared at 2e-6 under the float32 default and at 1e-9 with torch.set_default_dtype(float64)",
        "diag=True is evaluated as kernel(x, diag=True) (x1 == x2, as documented); parameters are set through the public setters as float64 tensors and the reference uses the values set",
        "constructor arguments: a constraint / prior / the eps of a stationary kernel (documented as the minimum lengthscale; lengthscales here are >= 0.5) is NEUTRAL - the covariance function at "
        "the parameter values set does not mention it; for '<name>_prior = closure' the parameter is set through the setting closure registered with the prior instead of the setter; "
        "SpectralMixtureKernel accepts and ignores priors (it logs a warning), IndexKernel's prior has no setting closure: both only checked as neutral",
        "ArcKernel: delta_func in {x >= 0 per coordinate, coordinates 1.. active iff coordinate 0 > 0}; an inactive coordinate embeds at [0, 0] (docstring), base kernel in {Matern 5/2, 3/2, RBF, RQ, "
        "polynomial} with the unit lengthscale ArcKernel.__init__ gives it; lengthscale / angle / radius per dimension with ard_num_dims",
        "CylindricalKernel(eps): the stability constant of the Kumaraswamy warp, 1 - (1 - r^alpha + eps)^beta; RFFKernel: (1/D) sum_i cos(w_i . (x - x')), w = randn_weights / lengthscale with "
        "the randn_weights buffer read back from the kernel; DistributionalInputKernel: exp(-distance_function(x1, x2) / lengthscale) for user-supplied distance functions",
        "IndexKernel B B^T + diag(var); MultitaskKernel K_XX (x) K_TT with the task index fastest; LCMKernel the sum of its terms; MultitaskKernel with a batched task covariance AND batched inputs "
        "raises (recorded under C08) and is not part of the lattice; NewtonGirardAdditiveKernel(max_degree) defaults to num_dims and is capped at num_dims (both documented)",
        "dims cells: sum_interaction_terms is documented for D x N x N stacks; it is replayed on N x M stacks as well (the property quantifies over n1 != n2 and the function is "
        "entrywise), `dim` over the BATCH positions only (docstring: 'the batch dimension containing the base covariance matrices', negative); last_dim_is_batch=True is read as documented "
        "in Kernel.__call__: K one-dimensional kernels (dimension t with entry t of every ARD parameter) stacked as ... x K x N x M (... x K x N with diag); the kernel batch shape is a "
        "suffix of the input batch shape",
        "rel cells: diag=True only where x1 equals x2 by value (documented precondition of Kernel.__call__); the transposed / column-stepped relations regroup elements into new rows and "
        "are not built for kernels with a per-row input domain (Hamming one-hot, GaussianSymmetrizedKL [mean, log variance], Cylindrical unit ball); index expressions on lazily "
        "evaluated derivative kernels belong to C06",
        "not replayed: GridKernel / GridInterpolationKernel / InducingPointKernel (approximations, C09 / C02), MultiDeviceKernel (CUDA), KeOps kernels (excluded by the quantifier), the deprecated "
        "param_transform / batch_size arguments",
    ]
    wd = os.path.join(tlc.BUILD, PID)
    insts = gen_instances(rnd, thorough)
    pps = [i for i in insts if i["kind"] == "pp"]
    half = len(insts) // 2
    jobs = []
    for name, part, ii, inv in (("lattice", "lattice", (), ["LatticeOK"]), ("layout", "layout", (), ["LayoutOK"]), ("exactA", "exact", insts[:half], ["ExactOK", "DistinctOK"]),
                                ("exactB", "exact", insts[half:], ["ExactOK", "DistinctOK"]), ("ppcode", "ppcode", pps, ["PPCodeOK"]), ("args", "args", (), ["ArgsOK"]), ("dims", "dims", (), ["DimsOK"]), ("rel", "rel", (), ["RelOK"])):
        mod, cfg = write_mc(wd, name, part, ii, inv)
        jobs.append(((mod, cfg), dict(name=PID + "/" + name, dump=True, check=False, workers=2, timeout=1500, coverage=False)))
    rs = tlc.run_many(jobs, parallel=3)
    labels = ("configuration lattice + dispatch predicate", "derivative-kernel layout", "exact rational instances A", "exact rational instances B", "piecewise polynomial: code transcription vs documentation",
              "constructor-argument lattice", "named-dimension lattice (pairwise distinct axis sizes)", "input-relationship lattice (x1 and x2 as views of one memory)")
    for lab, r in zip(labels, rs):
        ck.add_tlc(r, "Kernels " + lab)
        if r.violation:
            ck.model_drift("Kernels.tla (%s) violates %s: %s" % (lab, r.violation["name"],
                           "the transcription of _get_cov deviates from the documented polynomial (prediction; decided by the replay of the pp cells)" if r.violation["name"] == "PPCodeOK" else "see tlc.out"))
        elif r.rc != 0:
            raise tlc.TLCError("TLC failed on Kernels %s:\n%s" % (lab, r.stdout[-1500:]))
    decl = rs[:4] + rs[5:]
    if any(r.violation for r in decl):
        raise tlc.TLCError("Kernels.tla: an invariant of the declarative parts is violated (%s); the generated cases are incomplete" % [r.violation["name"] for r in decl if r.violation])
    cells = [dict(st["c"], path=st["out"]) for st in rs[0].states()]
    cells.sort(key=lambda c: sorted(c.items()).__repr__())
    if len(cells) < 5000:
        ck.vacuous("configuration lattice has only %d cells" % len(cells))
    argcells = [dict(st["c"], path=None, effect=st["out"]["effect"], dflt=st["out"]["dflt"]) for st in rs[5].states()]
    argcells.sort(key=lambda c: sorted((k, str(v)) for k, v in c.items()).__repr__())
    pairs = {(c["fam"], c["arg"]) for c in argcells}
    nondefault = {(c["fam"], c["arg"]) for c in argcells if c["val"] != c["dflt"]}
    if len(argcells) < 3000 or pairs != nondefault:
        ck.vacuous("constructor-argument lattice: %d cells, (kernel, argument) pairs without a non-default value: %s" % (len(argcells), sorted(pairs - nondefault)))
    if not any(c["fam"] == "arc" and c["arg"] == "delta_func" and c["val"] != "ones" for c in argcells):
        ck.vacuous("no cell builds ArcKernel with a user-supplied delta_func")
    dimcells = [(dict(st["c"]), _plain(st["out"])) for st in rs[6].states()]
    dimcells.sort(key=lambda ce: sorted((k, str(v)) for k, v in ce[0].items()).__repr__())
    dim_targets = {c["tgt"] for c, _ in dimcells}
    if len(dimcells) < 2000 or dim_targets != {"sit", "cdist", "ldb", "addstruct", "prodstruct", "ngadd"}:
        ck.vacuous("named-dimension lattice: %d cells, targets %s" % (len(dimcells), sorted(dim_targets)))
    for tgt in sorted(dim_targets):      # every pair of axes of every target occurs in both size orders (also an invariant of the spec: DimsOK)
        ords = set()
        for c, e in dimcells:
            if c["tgt"] == tgt:
                ax = dict(zip(["b1", "b2"], e["b"]), K=e["K"], N=e["N"], **({"M": e["M"]} if c["mode"] == "two" else {}))
                ords |= {(a, b) for a in ax for b in ax if ax[a] < ax[b]}
        miss = [(a, b) for a in ("b1", "b2", "K", "N", "M") for b in ("b1", "b2", "K", "N", "M") if a != b and (a, b) not in ords]
        if miss:
            ck.vacuous("named-dimension lattice: target %s never has size(%s) < size(%s)" % (tgt, miss[0][0], miss[0][1]))
    if not any(c["tgt"] == "sit" and e["dim"] != -3 and e["inshape"][-3] < e["K"] and c["md"] in ("none", "over") for c, e in dimcells):
        ck.vacuous("no sum_interaction_terms cell stacks more base covariances along dim != -3 than dimension -3 holds")
    relcells = [(dict(st["c"]), _plain(st["out"])) for st in rs[7].states()]
    relcells.sort(key=lambda ce: sorted((k, str(v)) for k, v in ce[0].items()).__repr__())
    rel_fams = {c["fam"] for c, _ in relcells}
    if len(relcells) < 1000 or not fams_with_shortcut() <= rel_fams:
        ck.vacuous("input-relationship lattice: %d cells, kernels with an x1-equals-x2 test that are not enumerated: %s" % (len(relcells), sorted(fams_with_shortcut() - rel_fams)))
    for fam in sorted(rel_fams):         # every family meets a pair of DIFFERENT views with the same address and shape, an equal tensor at another address, and a lazily built pair
        mine = [(c, e) for c, e in relcells if c["fam"] == fam]
        if not any(e["sameptr"] and e["sameshape"] and not e["valeq"] for c, e in mine) or not any(e["valeq"] and not e["sameptr"] for c, e in mine) \
                or not any(e["sameptr"] and not e["sameshape"] for c, e in mine):
            ck.vacuous("input-relationship lattice: %s never meets (same address and shape, different values) / (equal values, other storage) / (same address, other shape)" % fam)
    layout = [(dict(st["c"]), _plain(st["out"])) for st in rs[1].states()]
    if len(layout) != 54:
        ck.vacuous("layout lattice has %d cells instead of 54" % len(layout))
    byid = {i["id"]: i for i in insts}
    cases = []
    n_exact = 0
    for r in rs[2:4]:
        for st in r.states():
            inst = byid[st["c"]["id"]]
            cases.append(dict(kind=inst["kind"], inst=inst, exp=_plain(st["out"])))
            n_exact += 1
    if n_exact != len(insts):
        ck.vacuous("TLC evaluated %d of %d rational instances" % (n_exact, len(insts)))
    for k, (cell, exp) in enumerate(layout):
        cases.append(dict(kind="layout", cell=cell, exp=exp, seed=ck.seed * 1000 + k))
    cases.append(dict(kind="special", what="matern-bessel"))
    cases.append(dict(kind="special", what="sit-default", seed=ck.seed))
    for n in (2, 3):
        cases.append(dict(kind="special", what="diag-ldb", n=n, seed=ck.seed + n))
    seeds = 3 if thorough else 1
    for k, cell in enumerate(cells + argcells):
        for s in range(seeds):
            cases.append(dict(kind="cell", cell=cell, seed=(ck.seed * 7919 + k) * 4 + s))
    for k, (cell, exp) in enumerate(dimcells):
        for s in range(seeds):
            cases.append(dict(kind="dim", cell=cell, exp=exp, seed=(ck.seed * 7919 + len(cells) + len(argcells) + k) * 4 + s))
    for k, (cell, exp) in enumerate(relcells):
        for s in range(seeds):
            cases.append(dict(kind="rel", cell=cell, exp=exp, seed=(ck.seed * 7919 + len(cells) + len(argcells) + len(dimcells) + k) * 4 + s))
    fams = {c["fam"] for c in cells}
    two = [c for c in cells if c["fam"] in ("rbf", "matern05", "matern15", "matern25")]
    for fam in ("rbf", "matern05", "matern15", "matern25"):
        for p in ("fast", "generic"):
            if not any(c["fam"] == fam and c["path"] == p for c in two):
                ck.vacuous("no lattice cell sends %s through the %s path" % (fam, p))
    rnd.shuffle(cases)
    items = [dict(cases=cases[i:i + 12]) for i in range(0, len(cases), 12)]
    results = core.pmap(_worker, items, chunksize=1)
    ck.absorb(results)
    import collections
    sigs = collections.Counter(r["sig"] for r in results if not r.get("ok", True) and not r.get("machinery"))
    ck.extra["failing_signature_counts"] = dict(sorted(sigs.items()))
    ck.exhaustive = False
    ck.section("lattice", cells=len(cells), families=len(fams), fast_path_cells=sum(1 for c in cells if c["path"] == "fast"), generic_path_cells=sum(1 for c in cells if c["path"] == "generic"),
               single_path_cells=sum(1 for c in cells if c["path"] == "single"), seeds_per_cell=seeds)
    ck.section("constructor_arguments", cells=len(argcells), kernel_argument_pairs=len(pairs), families=len({c["fam"] for c in argcells}),
               neutral_pairs=len({(c["fam"], c["arg"]) for c in argcells if c["effect"] == "neutral"}), formula_pairs=len({(c["fam"], c["arg"]) for c in argcells if c["effect"] == "formula"}),
               non_default_cells=sum(1 for c in argcells if c["val"] != c["dflt"]))
    ck.extra["constructor_argument_pairs"] = ["%s.%s in {%s}" % (f, a, ", ".join(sorted({c["val"] for c in argcells if (c["fam"], c["arg"]) == (f, a)}))) for f, a in sorted(pairs)]
    ck.section("named_dimensions", cells=len(dimcells), **{t: sum(1 for c, _ in dimcells if c["tgt"] == t) for t in sorted(dim_targets)},
               sit_cells_dim_not_default=sum(1 for c, e in dimcells if c["tgt"] == "sit" and e["dim"] != -3), max_batch_axes=max(c["nb"] for c, _ in dimcells))
    ck.section("input_relationships", cells=len(relcells), families=len(rel_fams), relations=len({c["rel"] for c, _ in relcells}),
               same_address_and_shape_not_equal=sum(1 for c, e in relcells if e["sameptr"] and e["sameshape"] and not e["valeq"]),
               equal_in_other_storage=sum(1 for c, e in relcells if e["valeq"] and not e["sameptr"]), lazily_sliced=sum(1 for c, _ in relcells if c["how"] == "lazy"),
               last_dim_is_batch=sum(1 for c, _ in relcells if c["ldb"]))
    ck.section("exact", rational_instances=len(insts), **{k: sum(1 for i in insts if i["kind"] == k) for k in ("expr", "polygrad", "rbfratio", "pp", "ng", "arcmask", "mtask", "sitdim")}, layout_cells=len(layout))
    ck.extra["trusted_base"] = ["checks/c05_ref.py (documented formulas in plain torch / mpmath)", "torch.autograd (reference derivatives)", "TLC + Rational.tla / LinAlg.tla"]


def replay(rep):
    core.setup_torch()
    res = _worker(dict(cases=[rep["case"]]))
    bad = [r for r in res if not r.get("ok", True) or r.get("machinery")]
    for r in bad:
        print("VIOLATION property=C05 replay=- :: %s :: %s" % (r.get("sig"), r.get("detail", r.get("machinery"))))
    if not bad:
        print("replay passed")
    return 1 if bad else 0
