"""C20 - global settings are scoped.  Spec: Settings.tla, SettingsCatalog.tla, SettingsTrace.tla."""
import json
import os
import random

from harness import core, tlc

LEVEL = "model_checking"
PID = "C20"


# ---------------------------------------------------------------------------------------------
# TLC side
# ---------------------------------------------------------------------------------------------
def tla_fn(d):
    if not d:
        return "[x \\in {} |-> x]"
    return "(" + " @@ ".join('"%s" :> %s' % (k, v) for k, v in d.items()) + ")"


EXIT_SKIPS_NONE = {"dtypeGP": False, "dtypeLO": True}  # code-shaped: gpytorch's __exit__ restores unconditionally
                                                        # (after the fix: commit), linear_operator's skips None


def write_mc(workdir, name, settings, depth, maxlen, record, exit_skips=None, warn_before_set=True, lib_reuses=False, with_lib=True):
    """settings: {name: dict(kind=, defon=, halfnone=)}; returns absolute module path (without .tla) and cfg."""
    os.makedirs(workdir, exist_ok=True)
    mod = "MC_Settings_" + name
    es = dict(EXIT_SKIPS_NONE)
    if exit_skips:
        es.update(exit_skips)
    kinds = ["flag", "value", "dtypeGP", "dtypeLO", "fpv", "fc", "ld"]
    src = ["---- MODULE %s ----" % mod, "EXTENDS Settings",
           "SettingDef == {%s}" % ", ".join('"%s"' % s for s in settings),
           "KindDef == " + tla_fn({s: '"%s"' % v["kind"] for s, v in settings.items()}),
           "DefOnDef == " + tla_fn({s: '"%s"' % v.get("defon", "F") for s, v in settings.items()}),
           "HalfNoneDef == " + tla_fn({s: "TRUE" if v.get("halfnone") else "FALSE" for s, v in settings.items()}),
           "ExitSkipsNoneDef == " + tla_fn({k: "TRUE" if es.get(k, False) else "FALSE" for k in kinds}),
           "WarnsDef == {%s}" % ", ".join('"%s"' % s for s, v in settings.items() if v.get("warns")),
           "===="]
    with open(os.path.join(workdir, mod + ".tla"), "w") as f:
        f.write("\n".join(src) + "\n")
    cfg = os.path.join(workdir, mod + ".cfg")
    tlc.write_cfg(cfg, spec="Spec",
                  constants={"Setting": "<- SettingDef", "Kind": "<- KindDef", "DefOn": "<- DefOnDef", "HalfNone": "<- HalfNoneDef",
                             "ExitSkipsNone": "<- ExitSkipsNoneDef", "WarnsOnEnter": "<- WarnsDef", "WarnBeforeSet": warn_before_set, "LibReusesObject": lib_reuses, "WithLibOp": with_lib, "MaxDepth": depth, "MaxLen": maxlen, "RecordHist": record},
                  invariants=["TypeOK", "InnermostWins", "DefaultsOutside"],
                  properties=["RestoredOnExit", "EnterIsLocal", "ConstructIsPure", "LibOpIsInvisible"])
    return os.path.join(workdir, mod + ".tla"), cfg


MC_RUNS = {  # name -> (settings, depth quick, depth thorough)
    "flags_value": ({"fT": dict(kind="flag", defon="T"), "fF": dict(kind="flag", defon="F"), "val": dict(kind="value")}, 4, 5),
    "dtypeGP": ({"dgp": dict(kind="dtypeGP")}, 2, 3),
    "dtypeLO": ({"dlo": dict(kind="dtypeLO")}, 2, 3),
    "fpv_flag": ({"fpv": dict(kind="fpv", defon="F"), "fF": dict(kind="flag", defon="F")}, 3, 4),
    "fc": ({"fc": dict(kind="fc", defon="T")}, 3, 4),
    "ld_value": ({"ld": dict(kind="ld"), "val": dict(kind="value")}, 3, 4),
    "mixed": ({"fT": dict(kind="flag", defon="T"), "val": dict(kind="value"), "fpv": dict(kind="fpv", defon="F"), "ld": dict(kind="ld")}, 3, 3),
    "warning_on_enter": ({"wv": dict(kind="value", warns=True), "fF": dict(kind="flag", defon="F")}, 3, 4),
}
# code-shaped model of the two dtype settings whose half-precision default is None
PREDICT_RUNS = {
    "dtypeGP_halfNone": ({"dgpN": dict(kind="dtypeGP", halfnone=True)}, 2),
    "dtypeLO_halfNone": ({"dloN": dict(kind="dtypeLO", halfnone=True)}, 2),
}
GEN_RUNS = {  # name -> (settings, depth, maxlen quick, maxlen thorough)
    "flags": ({"fT": dict(kind="flag", defon="T"), "fF": dict(kind="flag", defon="F")}, 3, 6, 8),
    "value": ({"val": dict(kind="value"), "val2": dict(kind="value")}, 3, 6, 7),
    "dtypeGP": ({"dgp": dict(kind="dtypeGP")}, 2, 4, 6),
    "dtypeGPn": ({"dgpN": dict(kind="dtypeGP", halfnone=True)}, 2, 4, 6),
    "dtypeLOn": ({"dloN": dict(kind="dtypeLO", halfnone=True)}, 2, 4, 6),
    "fpv": ({"fpv": dict(kind="fpv", defon="F")}, 3, 4, 6),
    "fc": ({"fc": dict(kind="fc", defon="T")}, 3, 4, 6),
    "ld": ({"ld": dict(kind="ld")}, 3, 4, 6),
    "mixed": ({"fT": dict(kind="flag", defon="T"), "val": dict(kind="value"), "fpv": dict(kind="fpv", defon="F")}, 3, 6, 6),
    "warns": ({"wv": dict(kind="value", warns=True), "fF": dict(kind="flag", defon="F")}, 2, 5, 6),
    "libops": ({"fF": dict(kind="flag", defon="F"), "val": dict(kind="value")}, 2, 4, 5),      # with the LibOp action
}


def load_catalog(ck):
    out = os.path.join(tlc.BUILD, PID, "catalog.json")
    os.makedirs(os.path.dirname(out), exist_ok=True)
    res = tlc.run("SettingsCatalog", "SettingsCatalog.cfg", name=PID + "/catalog", workers=1, env={"CATALOG_OUT": out}, coverage=False, keep_work=True)
    ck.add_tlc(res, "SettingsCatalog")
    with open(out) as f:
        return json.load(f)


# ---------------------------------------------------------------------------------------------
# implementation side
# ---------------------------------------------------------------------------------------------
class Real:
    """Adapter from the spec's abstract settings/values to the real classes."""

    def __init__(self, catalog):
        import torch
        import gpytorch
        self.torch = torch
        self.entries = {}
        for e in catalog:
            holder = gpytorch.settings if e["where"] == "settings" else gpytorch.beta_features
            cls = getattr(holder, e["name"], None)
            self.entries[e["name"]] = dict(e, cls=cls)
        self.S = gpytorch.settings
        self.by_kind = {}
        for n, e in self.entries.items():
            self.by_kind.setdefault(e["kind"], []).append(n)

    # concrete value for abstract value `a` of field f of class n
    def conc(self, n, f, a):
        e = self.entries[n]
        torch = self.torch
        if a == "None":
            return None
        if a in ("T", "F"):
            return a == "T"
        d = e["default"][f]
        if a == "d0":
            return self.parse(d)
        i = 1 if a == "v1" else 2
        # v2 is realised by the ZERO of the field's type wherever that is a valid, non-default argument: a falsy value
        # must be honoured like any other (`x or default` style slips)
        if d.startswith("torch."):
            return [torch.float32, torch.float16][i - 1]
        if n == "observation_nan_policy":
            return ["mask", "fill"][i - 1]
        if d == "None":
            return [0.125, 0.0][i - 1]
        v = self.parse(d)
        if isinstance(v, int):
            return v + 3 if i == 1 else (0 if v != 0 else 8)
        return [0.125, 0.0][i - 1]

    def parse(self, s):
        if s == "None":
            return None
        if s in ("T", "F"):
            return s == "T"
        if s.startswith("torch."):
            return getattr(self.torch, s.split(".", 1)[1])
        try:
            return int(s)
        except ValueError:
            pass
        try:
            return float(s)
        except ValueError:
            return s

    def observe(self, n):
        """The public read API of class n, as {field: concrete value}."""
        e = self.entries[n]
        c, k, torch = e["cls"], e["kind"], self.torch
        if k == "flag":
            on = c.on()
            if c.off() == on:
                return {"state": "on()/off() inconsistent"}
            return {"state": on}
        if k == "value":
            return {"v": c.value()}
        if k in ("dtypeGP", "dtypeLO"):
            return {"f": c.value(torch.float), "d": c.value(torch.double), "h": c.value(torch.half)}
        if k == "fpv":
            return {"state": c.on(), "probes": c.num_probe_vectors()}
        if k == "fc":
            return {"root": c.covar_root_decomposition.on(), "logprob": c.log_prob.on(), "solves": c.solves.on()}
        if k == "ld":
            return {"symeig": self.S._linalg_dtype_symeig.value(), "chol": self.S._linalg_dtype_cholesky.value()}

    def construct(self, n, args, rnd):
        e = self.entries[n]
        c, k = e["cls"], e["kind"]
        a = {f: self.conc(n, f, v) for f, v in args.items()}
        if k == "flag":
            return c(a["state"]) if (a["state"] is False or rnd.random() < 0.5) else c()
        if k == "value":
            return c(a["v"])
        if k in ("dtypeGP", "dtypeLO"):
            kw = {}
            for f, key in (("f", "float_value"), ("d", "double_value"), ("h", "half_value")):
                if a[f] is not None or rnd.random() < 0.3:
                    kw[key] = a[f]
            return c(**kw)
        if k == "fpv":
            if args["probes"] == "d0" and rnd.random() < 0.5:
                return c(a["state"])
            return c(a["state"], num_probe_vectors=a["probes"])
        if k == "fc":
            return c(covar_root_decomposition=a["root"], log_prob=a["logprob"], solves=a["solves"])
        if k == "ld":
            if a["symeig"] == a["chol"]:
                return c(a["symeig"]) if rnd.random() < 0.5 else c(default=self.torch.float16, symeig=a["symeig"], cholesky=a["chol"])
            pick = rnd.random()
            if pick < 0.34:
                return c(default=a["symeig"], cholesky=a["chol"])
            if pick < 0.67:
                return c(default=a["chol"], symeig=a["symeig"])
            return c(symeig=a["symeig"], cholesky=a["chol"])

    def expected(self, n, obs):
        """Spec observation {field: abstract} -> concrete."""
        return {f: self.conc(n, f, a) for f, a in obs.items()}

    def all_defaults(self):
        bad = []
        for n, e in self.entries.items():
            if e["cls"] is None:
                bad.append((n, "class missing", None))
                continue
            got = self.observe(n)
            want = {f: self.parse(v) for f, v in e["default"].items()}
            if not same(got, want):
                bad.append((n, got, want))
        return bad


def same(got, want):
    if set(got) != set(want):
        return False
    for f in want:
        g, w = got[f], want[f]
        if isinstance(w, bool) or isinstance(g, bool) or w is None or g is None or isinstance(w, str):
            if g is not w and g != w or (isinstance(w, bool) != isinstance(g, bool)):
                return False
        elif isinstance(w, (int, float)) and isinstance(g, (int, float)):
            if float(g) != float(w):
                return False
        elif g != w:
            return False
    return True


class _Unwind(Exception):
    def __init__(self, k, next_i):
        super().__init__("unwind %d" % k)
        self.k, self.next_i = k, next_i


class Mismatch(Exception):
    def __init__(self, step, what, cls="", clause="", fields=()):
        super().__init__(what)
        self.step, self.what, self.cls, self.clause, self.fields = step, what, cls, clause, tuple(fields)


CLAUSE = {"LibOp": "LibOpIsInvisible", "Construct": "ConstructIsPure", "Enter": "EnterSetsRequested", "Exit": "RestoredOnExit", "Raise": "RestoredOnExit", "EnterFails": "FailedEnterLeavesNoEffect"}


def diff_fields(got, want):
    return sorted(f for f in set(got) | set(want) if not same({f: got.get(f)}, {f: want.get(f)}))


def affected(real, used):
    out = set(used)
    if any(real.entries[u]["kind"] == "ld" for u in used):
        out |= {"_linalg_dtype_symeig", "_linalg_dtype_cholesky"}
    if any(u.startswith("_linalg_dtype") for u in used):
        out |= {"linalg_dtypes"}
    return out


def run_program(real, ops, mapping, rnd):
    """Execute one spec behaviour with real `with` statements.

    ops: list of dict(a, s, args, k, obs) from the spec's history (obs = the SEMANTIC machine's observation
    after the action).  mapping: abstract setting -> real class name.  Raises Mismatch at the first step whose
    observation differs."""
    aff = affected(real, set(mapping.values()))
    others = [n for n in real.entries if n not in aff]

    def check(i):
        op = ops[i]
        what = "%s %s%s" % (op["a"], mapping.get(op["s"], op["s"]), "" if not op["k"] else " k=%d" % op["k"])
        for s, n in mapping.items():
            got = real.observe(n)
            want = real.expected(n, op["obs"][s])
            if not same(got, want):
                raise Mismatch(i, "after step %d (%s) %s reads %r, the semantics require %r" % (i, what, n, got, want),
                               n, CLAUSE[op["a"]], diff_fields(got, want))
        for n in others:
            e = real.entries[n]
            got = real.observe(n)
            want = {f: real.parse(v) for f, v in e["default"].items()}
            if not same(got, want):
                raise Mismatch(i, "after step %d (%s) the untouched setting %s reads %r instead of its default %r" % (i, what, n, got, want),
                               n, "EnterIsLocal", diff_fields(got, want))

    def body(i):
        """Run ops[i:] inside the current block.  Returns (next index, True if the block was closed by an Exit op)."""
        while i < len(ops):
            op = ops[i]
            if op["a"] == "Construct":
                obj = real.construct(mapping[op["s"]], op["args"], rnd)
                check(i)
                i += 1
                if i >= len(ops):
                    return i, False  # constructed, never entered
                if ops[i]["a"] == "EnterFails":
                    # the caller has escalated warnings to errors: __enter__ raises, __exit__ is never called
                    import warnings
                    raised = False
                    with warnings.catch_warnings():
                        warnings.simplefilter("error")
                        try:
                            with obj:
                                pass
                        except Warning:
                            raised = True
                    if not raised:
                        raise core.Machinery("%s does not warn on __enter__ (catalog says it does)" % mapping[op["s"]])
                    check(i)
                    i += 1
                    continue
                if ops[i]["a"] != "Enter":
                    raise core.Machinery("behaviour has Construct not followed by Enter")
                enter_i = i
                raised = False
                closed = False
                try:
                    with obj:
                        check(enter_i)
                        try:
                            i, closed = body(enter_i + 1)
                        except _Unwind:
                            raised = True
                            raise
                except _Unwind as u:
                    u.k -= 1
                    if u.k > 0:
                        raise
                    i = u.next_i
                    check(i - 1)
                    continue
                if raised:
                    raise Mismatch(enter_i, "an exception raised inside `with %s(...)` did not propagate (swallowed by __exit__)" % mapping[op["s"]],
                                   mapping[op["s"]], "ExceptionPropagates", ())
                if closed:
                    check(i - 1)  # ops[i-1] is the Exit that closed this block
                else:
                    return i, False  # the behaviour ended with this block open; it has just been exited normally
            elif op["a"] == "LibOp":
                # library code needing a setting for one internal computation: construct + enter + exit within one call
                with real.construct(mapping[op["s"]], op["args"], rnd):
                    pass
                check(i)
                i += 1
            elif op["a"] == "Exit":
                return i + 1, True
            elif op["a"] == "Raise":
                raise _Unwind(op["k"], i + 1)
            else:
                raise core.Machinery("unknown op %r" % (op,))
        return i, False

    body(0)
    # frames still open at the end of the behaviour were closed normally by the `with` statements above
    bad = real.all_defaults()
    if bad:
        n, got, want = bad[0]
        raise Mismatch(len(ops), "after the program ended (all blocks exited) %s reads %r instead of its documented default %r" % (n, got, want),
                       n, "RestoredOnExit", diff_fields(got, want))


_PRISTINE_REAL = None


def _pristine_child(a):
    """runs in a process forked from a parent that has never entered any settings block: setting `a` is entered first"""
    real = _PRISTINE_REAL
    rnd = random.Random(0)
    names = sorted(n for n, e in real.entries.items() if e["cls"] is not None)

    def nondefault(n):
        k = real.entries[n]["kind"]
        if k == "flag":
            return {"state": "F" if real.parse(real.entries[n]["default"]["state"]) else "T"}
        if k == "value":
            return {"v": "v1"}
        return None
    out = []
    aa = nondefault(a)
    defaults = {n: {f: real.parse(v) for f, v in real.entries[n]["default"].items()} for n in names}
    aff_a = affected(real, {a})

    def others_default(skip, when, r):
        for n in names:
            if n in skip:
                continue
            got = real.observe(n)
            if not same(got, defaults[n]):
                r.update(ok=False, sig="C20/cross-setting/%s-changes-%s" % (a, n), detail="%s: %s reads %r instead of its default %r (first blocks of a fresh process)" % (
                    when, n, got, defaults[n]), case=dict(pristine=a))
                return False
        return True
    # both an explicit non-default AND the explicit default value for the outer block (state shared between classes can hide behind either)
    a_values = [{"state": "T"}, {"state": "F"}] if real.entries[a]["kind"] == "flag" else [{"v": "v1"}, {"v": "d0"}]
    for b, aa in [(b_, v_) for b_ in names for v_ in a_values]:
        bb = nondefault(b)
        if b == a or bb is None:
            continue
        r = dict(key=["pristine", a, aa, b], ok=True, nontrivial=True, sig="C20/cross-setting/%s" % a, case=dict(pristine=a))
        aff = aff_a | affected(real, {b})
        with real.construct(a, aa, rnd):
            if others_default(aff_a, "inside `with %s(...)`" % a, r):
                with real.construct(b, bb, rnd):
                    others_default(aff, "inside `with %s(...): with %s(...)`" % (a, b), r)
                if r["ok"]:
                    others_default(aff_a, "after the inner block of `with %s(...): with %s(...)`" % (a, b), r)
        if r["ok"]:
            others_default(set(), "after `with %s(...): with %s(...)`" % (a, b), r)
        out.append(r)
        if not r["ok"]:
            break
    return out


def pristine_pairs(real):
    """every ordered pair of flag / value settings, the outer one being the FIRST block its process ever enters (one forked process
    per outer setting): no setting may read anything but its default because ANOTHER setting's block is active or was exited"""
    import multiprocessing as mp
    global _PRISTINE_REAL
    _PRISTINE_REAL = real
    outer = sorted(n for n, e in real.entries.items() if e["cls"] is not None and e["kind"] in ("flag", "value"))
    ctx = mp.get_context("fork")
    with ctx.Pool(processes=min(core.NPROC, 8), maxtasksperchild=1) as pool:
        res = pool.map(_pristine_child, outer, chunksize=1)
    return [r for rs in res for r in rs]


def lib_sweep(real, seed):
    """LibOpIsInvisible on the real library: operations that enter settings blocks internally (lazy kernel evaluation, exact prediction,
    heteroskedastic noise, fantasy models, objectives, variational calls) are run INSIDE user blocks of every catalogued setting (a
    non-default value and the default value); every visible setting must read the same before and after the operation."""
    import torch
    import gpytorch
    from checks import gpmodels as G
    rnd = random.Random(seed)
    x, y, xs = G.data(3)
    out = []

    def mk_ops():
        m, l = G.build("exact", x, y)
        m.eval(); l.eval()
        lazy = m.covar_module(xs)                         # created OUTSIDE the user's block, evaluated inside
        sv, sl = G.build("svgp", x, y)
        sv.eval()

        def hetero():
            nm, nl = G.build("exact", x, y.abs() + 0.1)
            nm.eval()
            hl = gpytorch.likelihoods._GaussianLikelihoodBase(noise_covar=gpytorch.likelihoods.noise_models.HeteroskedasticNoise(nm)).double()
            return hl(gpytorch.distributions.MultivariateNormal(torch.zeros(3, dtype=torch.float64), torch.eye(3, dtype=torch.float64)), xs)

        def objective():
            m.train(); l.train()
            v = gpytorch.mlls.ExactMarginalLogLikelihood(l, m)(m(x), y)
            m.eval(); l.eval()
            return v
        ops = {"evaluate-lazy-kernel": lambda: lazy.to_dense(), "exact-predict": lambda: m(xs).variance, "heteroskedastic-noise": hetero,
               "fantasy": lambda: (m(xs), m.get_fantasy_model(xs[:1], y[:1]))[1](xs).mean, "exact-mll": objective, "svgp-call": lambda: sv(xs).variance}
        # every kernel class: an object CONSTRUCTED in one settings context and called in another (full matrix, diagonal request, bare forward)
        K = gpytorch.kernels
        xu = torch.rand(4, 2, dtype=torch.float64) * 0.6 - 0.3
        zoo = {"RBF": lambda: K.RBFKernel(), "Matern": lambda: K.MaternKernel(nu=1.5), "RQ": lambda: K.RQKernel(), "Periodic": lambda: K.PeriodicKernel(),
               "Cosine": lambda: K.CosineKernel(), "Linear": lambda: K.LinearKernel(), "Polynomial": lambda: K.PolynomialKernel(power=2),
               "PiecewisePolynomial": lambda: K.PiecewisePolynomialKernel(q=1), "SpectralMixture": lambda: K.SpectralMixtureKernel(num_mixtures=2, ard_num_dims=2),
               "Cylindrical": lambda: K.CylindricalKernel(num_angular_weights=2, radial_base_kernel=K.MaternKernel(nu=2.5)),
               "Scale(RBF)": lambda: K.ScaleKernel(K.RBFKernel()), "RBF+Matern": lambda: K.RBFKernel() + K.MaternKernel(nu=0.5), "RBF*Linear": lambda: K.RBFKernel() * K.LinearKernel(),
               "RBFGrad": lambda: K.RBFKernelGrad(), "Multitask(RBF)": lambda: K.MultitaskKernel(K.RBFKernel(), num_tasks=2, rank=1),
               "GridInterpolation": lambda: K.GridInterpolationKernel(K.RBFKernel(), grid_size=8, num_dims=2, grid_bounds=[(-1.0, 1.0)] * 2),
               "InducingPoint": lambda: K.InducingPointKernel(K.RBFKernel(), inducing_points=xu[:2].clone(), likelihood=gpytorch.likelihoods.GaussianLikelihood().double()),
               "RFF": lambda: K.RFFKernel(num_samples=4, num_dims=2), "AdditiveStructure": lambda: K.AdditiveStructureKernel(K.RBFKernel(), num_dims=2)}
        for kn, mkk in sorted(zoo.items()):
            try:
                kk = mkk().double()
                kk.eval()
            except Exception:
                continue
            ops["kernel:%s:dense" % kn] = (lambda kk=kk: kk(xu).to_dense())
            ops["kernel:%s:diag" % kn] = (lambda kk=kk: kk(xu, diag=True))
            ops["kernel:%s:forward-diag" % kn] = (lambda kk=kk: kk.forward(xu, xu, diag=True))
            ops["kernel:%s:cross" % kn] = (lambda kk=kk: kk(xu[:2], xu[2:]).to_dense())
        return ops

    blocks = [None]
    for n, e in sorted(real.entries.items()):
        if e["cls"] is None:
            continue
        k = e["kind"]
        fields = sorted(e["default"])
        if k == "flag":
            blocks += [(n, {"state": "T"}), (n, {"state": "F"})]
        elif k == "value":
            blocks += [(n, {"v": "v1"}), (n, {"v": "d0"})]
    for blk in blocks:
        ops = mk_ops()
        names = sorted(real.entries)
        for opname, fn in sorted(ops.items()):
            key = ["lib", opname, list(blk) if blk else None]
            r = dict(key=key, ok=True, nontrivial=blk is not None, sig="C20/library-operation/%s" % opname, case=dict(lib=opname, block=blk))

            def once():
                before = {n: real.observe(n) for n in names}
                try:
                    fn()
                except Exception:
                    pass                                 # an operation that a setting makes fail must still leave the settings alone
                after = {n: real.observe(n) for n in names}
                return [n for n in names if not same(before[n], after[n])], before, after
            if blk is None:
                changed, before, after = once()
            else:
                with real.construct(blk[0], blk[1], rnd):
                    changed, before, after = once()
            if changed:
                n0 = changed[0]
                r.update(ok=False, sig=r["sig"] + "/" + n0, detail="library operation %s inside `with %s(%s)`: %s read %r before and %r after the operation" % (
                    opname, blk[0] if blk else "-", blk[1] if blk else "", n0, before[n0], after[n0]))
            out.append(r)
    # the other direction: library objects CONSTRUCTED inside a user block and used after it (outside all blocks): every setting reads its
    # default before and after every operation
    for blk in blocks[1:]:
        with real.construct(blk[0], blk[1], rnd):
            ops = mk_ops()
        names = sorted(real.entries)
        for opname, fn in sorted(ops.items()):
            r = dict(key=["lib-built-inside", opname, list(blk)], ok=True, nontrivial=True, sig="C20/library-object-built-inside-a-block/%s" % opname,
                     case=dict(lib=opname, block=blk, built_inside=True))
            before = {n: real.observe(n) for n in names}
            try:
                fn()
            except Exception:
                pass
            after = {n: real.observe(n) for n in names}
            changed = [n for n in names if not same(before[n], after[n])]
            if changed:
                n0 = changed[0]
                r.update(ok=False, sig=r["sig"] + "/" + n0, detail="library object built inside `with %s(%s)` and used after the block: operation %s changed %s from %r to %r" % (
                    blk[0], blk[1], opname, n0, before[n0], after[n0]))
                out.append(r)
                continue
            out.append(r)
    bad = real.all_defaults()
    if bad:
        out.append(dict(key=["lib", "defaults-after"], ok=False, nontrivial=True, sig="C20/library-operation/defaults-after/%s" % bad[0][0],
                        detail="after the library-operation sweep %s reads %r instead of %r" % bad[0], case=dict(lib="all")))
    return out


_REAL = None
_CATALOG = None
try:
    import harness.lo_wrap  # noqa: F401  (wraps linear_operator's bases when the guard is on)
    from gpytorch import _verif
    if not _verif.ON:
        _verif = None
except ImportError:
    _verif = None


def _replay_worker(item):
    """item = dict(gen=run name, ops=[...], mappings=[{abs: real}], seed)"""
    global _REAL
    if _REAL is None:
        _REAL = Real(_CATALOG)
    out = []
    for mapping in item["mappings"]:
        rnd = random.Random(item["seed"])
        ops = [dict(o) for o in item["ops"]]
        key = [item["gen"], [(o["a"], o["s"], sorted(o["args"].items()) if isinstance(o["args"], dict) else [], o["k"]) for o in ops], sorted(mapping.items())]
        depth = mx = 0
        for o in ops:
            if o["a"] == "Enter":
                depth += 1
                mx = max(mx, depth)
            elif o["a"] == "Exit":
                depth -= 1
            elif o["a"] == "Raise":
                depth -= o["k"]
        nontrivial = mx >= 2 or any(o["a"] == "Raise" for o in ops)
        r = dict(key=key, nontrivial=nontrivial, n=len(ops), ok=True)
        if _verif is not None:
            del _verif.events[:]
        try:
            run_program(_REAL, ops, mapping, rnd)
        except Mismatch as m:
            r.update(ok=False, sig=signature(item, mapping, m, ops), detail=m.what,
                     case=dict(gen=item["gen"], ops=item["ops"], mapping=mapping, seed=item["seed"]))
        except core.Machinery:
            raise
        except Exception as e:  # the implementation raised where the spec enables the operation
            r.update(ok=False, sig="C20/%s/%s/raised-%s" % (item["gen"], "+".join(sorted(mapping.values())), type(e).__name__),
                     detail="program raised %s: %s" % (type(e).__name__, e),
                     case=dict(gen=item["gen"], ops=item["ops"], mapping=mapping, seed=item["seed"]))
        finally:
            _reset(_REAL)
        if _verif is not None and (not r["ok"] or item.get("trace")):
            r["trace"] = [e for e in _verif.events if e["ev"].startswith("s_")]
            del _verif.events[:]
        if len(out) < 1:
            r["sample"] = dict(program=pretty(ops, mapping))
        out.append(r)
    return out


def signature(item, mapping, m, ops):
    """Cell signature: the class whose observation is wrong, the violated clause, the fields that differ."""
    return "C20/%s/%s/%s" % (m.cls, m.clause, ",".join(m.fields))


def _reset(real):
    """Put every class attribute back (a failed program may have leaked state)."""
    for n, e in real.entries.items():
        c, k = e["cls"], e["kind"]
        d = {f: real.parse(v) for f, v in e["default"].items()}
        if c is None:
            continue
        if k == "flag":
            c._state = None
        elif k == "value":
            c._global_value = d["v"]
        elif k in ("dtypeGP", "dtypeLO"):
            c._global_float_value, c._global_double_value, c._global_half_value = d["f"], d["d"], d["h"]
        elif k == "fpv":
            c._state = None
            c._num_probe_vectors = d["probes"]
        elif k == "fc":
            c.covar_root_decomposition._state = None
            c.log_prob._state = None
            c.solves._state = None
        elif k == "ld":
            real.S._linalg_dtype_symeig._global_value = d["symeig"]
            real.S._linalg_dtype_cholesky._global_value = d["chol"]


def pretty(ops, mapping):
    out = []
    for o in ops:
        if o["a"] == "Construct":
            out.append("%s(%s)" % (mapping[o["s"]], ",".join("%s=%s" % kv for kv in sorted(o["args"].items()))))
        elif o["a"] == "Enter":
            out.append("enter")
        elif o["a"] == "EnterFails":
            out.append("enter-raises(warning as error)")
        elif o["a"] == "Exit":
            out.append("exit")
        else:
            out.append("raise(k=%d)" % o["k"])
    return " ; ".join(out)


def mappings_for(real, settings, rnd, per_kind_all):
    """All assignments of real classes to the abstract settings of a generation run."""
    names = list(settings)
    pools = []
    for s in names:
        k = settings[s]["kind"]
        pool = []
        for n in real.by_kind.get(k, []):
            e = real.entries[n]
            if k == "flag" and ("T" if e["default"]["state"] == "T" else "F") != settings[s].get("defon", "F"):
                continue
            if k in ("dtypeGP", "dtypeLO") and (e["default"]["h"] == "None") != bool(settings[s].get("halfnone")):
                continue
            if settings[s].get("warns") and e.get("warns") != "T":
                continue
            pool.append(n)
        pools.append(pool)
    if len(names) == 1:
        return [{names[0]: n} for n in pools[0]]
    # several abstract settings: rotate the pools against each other so every class appears
    L = max(len(p) for p in pools)
    out = []
    for shift in range(L):
        m = {}
        for j, s in enumerate(names):
            if not pools[j]:
                break
            m[s] = pools[j][(shift * (j + 1) + j) % len(pools[j])]
        if len(m) == len(names) and len(set(m.values())) == len(names) and m not in out:
            out.append(m)
    return out


def run(ck):
    global _CATALOG
    thorough = ck.tier == "thorough"
    rnd = random.Random(ck.seed)
    ck.rule = ("behaviours = all histories of the Settings.tla machine (Construct/Enter/Exit/Raise(k)) up to the run's depth and "
               "length bound, each executed with real `with` statements on every real class of the abstract setting's kind; "
               "non-trivial = nesting depth >= 2 or an exception unwinding; distinct = distinct (history, class assignment)")
    ck.assumptions = ["settings are only changed through the exported context managers (single-threaded)",
                      "abstract values d0/v1/v2 are realised by one concrete value each per class",
                      "documented defaults are those transcribed into SettingsCatalog.tla at the pinned commit"]
    catalog = load_catalog(ck)
    _CATALOG = catalog
    core.setup_torch()
    real = Real(catalog)
    ck.absorb(pristine_pairs(real))        # first: this process has not entered any settings block yet

    # (0) the catalog covers exactly what is exported, every class exists, and reports its documented default
    import gpytorch
    exported = set(gpytorch.settings.__all__) | set(gpytorch.beta_features.__all__)
    listed = set(real.entries)
    for n in sorted(exported - listed):
        ck.model_drift("exported setting %s is not in SettingsCatalog.tla (not checked)" % n)
    for n, got, want in real.all_defaults():
        ck.violation("C20/%s/DefaultsOutside/%s" % (n, ",".join(diff_fields(got, want)) if isinstance(got, dict) else "missing"), "outside all blocks %s reads %r; documented default is %r" % (n, got, want), dict(setting=n))
    ck.case(["defaults", sorted(listed)], True, n=len(listed))

    # (1) exhaustive model checking of the scoping machine
    wd = os.path.join(tlc.BUILD, PID, "mc")
    for name, (settings, dq, dt) in MC_RUNS.items():
        mod, cfg = write_mc(wd, name, settings, dt if thorough else dq, 0, False)
        res = tlc.run(mod, cfg, name=PID + "/mc_" + name, timeout=900)
        ck.add_tlc(res, "MC " + name)
        ck.require_coverage(res, ["Construct", "Enter", "Pop"])
        if not res.ok:
            ck.model_drift("Settings.tla run %s violates %s on the code-shaped model" % (name, res.violation["name"]))
    mod, cfg = write_mc(wd, "lib_reuses_object", {"fF": dict(kind="flag", defon="F"), "val": dict(kind="value")}, 2, 0, False, lib_reuses=True)
    res = tlc.run(mod, cfg, name=PID + "/mc_lib_reuses_object", timeout=600, check=False)
    ck.add_tlc(res, "MC library code reusing one context object (must be rejected)")
    if not res.violation:
        ck.vacuous("Settings.tla accepts library code that re-enters a context object built at import")
    ck.absorb(lib_sweep(real, ck.seed))
    predictions = {}
    for name, (settings, d) in PREDICT_RUNS.items():
        mod, cfg = write_mc(wd, name, settings, d, 0, False)
        res = tlc.run(mod, cfg, name=PID + "/mc_" + name, timeout=600, check=False)
        ck.add_tlc(res, "MC(prediction) " + name)
        predictions[name] = (res.violation or {}).get("name")
    ck.extra["model_predictions"] = predictions

    # (2) behaviours for replay
    items = []
    gwd = os.path.join(tlc.BUILD, PID, "gen")
    nbeh = 0
    for name, (settings, depth, lq, lt) in GEN_RUNS.items():
        maxlen = lt if thorough else lq
        mod, cfg = write_mc(gwd, name, settings, depth, maxlen, True, with_lib=(name == "libops"))
        res = tlc.run(mod, cfg, name=PID + "/gen_" + name, timeout=1800, dump=True, check=False, coverage=False, heap="8g")
        if res.violation is None and (res.rc != 0):
            raise tlc.TLCError("generation run %s failed:\n%s" % (name, res.stdout[-2000:]))
        ck.add_tlc(res, "Gen " + name)
        maps = mappings_for(real, settings, rnd, thorough)
        if not maps:
            ck.vacuous("no real class for generation run %s" % name)
            continue
        behs = []
        for st in res.states():
            h = st["hist"]
            if len(h) == maxlen or (len(h) == maxlen - 1 and len(st["stack"]) == 0 and len(st["pend"]) == 0):
                behs.append(h)
        nbeh += len(behs)
        ck.section("gen_" + name, behaviours=len(behs), class_assignments=len(maps), model_violation=(res.violation or {}).get("name"))
        cap = None if thorough else 4000
        if cap and len(behs) > cap:
            rnd.shuffle(behs)
            behs = behs[:cap]
        for bi, h in enumerate(behs):
            ops = [dict(a=o["a"], s=o["s"], args=dict(o["args"]) if isinstance(o["args"], dict) else {}, k=o["k"], obs=o["obs"]) for o in h]
            if thorough or len(maps) <= 3:
                mm = maps
            else:  # quick: every behaviour on 3 classes, rotating so that all classes are used
                mm = [maps[(bi + j * 7) % len(maps)] for j in range(3)]
            items.append(dict(gen=name, ops=ops, mappings=mm, seed=ck.seed + bi, trace=(thorough or bi % 8 == 0)))
    results = core.pmap(_replay_worker, items, chunksize=32)
    ck.absorb(results)
    ck.extra["_replay_traces"] = [r.pop("trace") for r in results if "trace" in r]
    ck.section("replay", behaviours=nbeh, programs=len(results))
    classes_used = set()
    for it in items:
        for m in it["mappings"]:
            classes_used.update(m.values())
    ck.extra["classes_driven"] = len(classes_used)
    untested = sorted(set(real.entries) - classes_used - {"_linalg_dtype_symeig", "_linalg_dtype_cholesky"})
    if untested:
        ck.vacuous("settings never driven through a program: %s" % untested)

    # (3) model predictions vs code: a predicted violation that the replays did not reproduce is model drift
    ck.extra["predictions_note"] = "a TLC violation on a *_halfNone run predicts that a dtype setting whose half default is None leaks half_value"

    # (4) trace validation of recorded executions
    from checks import c20_trace
    c20_trace.validate(ck, real)


def replay(rep):
    global _CATALOG
    ck = core.Check(PID, "quick", rep.get("seed", 0), LEVEL)
    _CATALOG = load_catalog(ck)
    core.setup_torch()
    case = rep["case"]
    if "ops" not in case:
        real = Real(_CATALOG)
        bad = real.all_defaults()
        for n, got, want in bad:
            print("VIOLATION property=C20 replay=%s :: %s reads %r, documented %r" % ("-", n, got, want))
        return 1 if bad else 0
    res = _replay_worker(dict(gen=case["gen"], ops=case["ops"], mappings=[case["mapping"]], seed=case["seed"]))
    for r in res:
        if not r["ok"]:
            print("VIOLATION property=C20 replay=- :: %s :: %s" % (r["sig"], r["detail"]))
            return 1
    print("replay passed: " + pretty(case["ops"], case["mapping"]))
    return 0
