"""C01, level L4 - histories of predictions under changing switches (ExactPosterior.tla part "history") and the model
lattice shared with level L2: kernels with active_dims on multi-column inputs (on the top-level kernel module, inside a
ScaleKernel, on parts of sums / products with different active_dims) and kernels / means that consume call-time keyword
arguments (passed by the model's forward or by the caller).

The oracle is written out by hand: a kernel TREE is evaluated with textbook formulas on the hand-selected input columns,
with the hyperparameters read from the kernel modules; the mean and the noise likewise; the conditional by Cholesky.  Nothing
of it goes through Kernel.__call__, LazyEvaluatedKernelTensor or the prediction strategy, and it does not depend on the state
of the kernel objects after a prediction.

Every history TLC generates (a sequence of predictions, each under one global switch or none, with model.train();
model.eval() or set_train_data in between) is walked through a real model of the abstract class (ad, kw, site) on the path of the cell, then
closed by one more prediction under default settings; EVERY prediction (different test inputs each time) is compared with
the hand-written conditional.
"""
import math
from contextlib import ExitStack

from harness import core

SWITCHES = ("debug-off", "memory-efficient", "trace-mode", "fast-pred-samples", "verbose-linalg", "deterministic-probes", "skip-logdet-forward", "no-toeplitz")

# kernel trees: ["rbf", dims, ard] ["matern", dims] ["linear", dims] ["warp", dims] ["scale", t] ["sum", a, b] ["prod", a, b]
# (dims: active_dims or None; "warp": an RBF kernel defined here whose forward consumes the call-time keyword `warp`)
TREES = {
    "scale(rbf)": ["scale", ["rbf", None, False]],
    "scale(matern)+linear": ["sum", ["scale", ["matern", None]], ["linear", None]],
    "rbf@02": ["rbf", [0, 2], False],
    "scale(matern@12)": ["scale", ["matern", [1, 2]]],
    "scale(rbf-ard@20)": ["scale", ["rbf", [2, 0], True]],
    "scale(scale(rbf@1))": ["scale", ["scale", ["rbf", [1], False]]],
    "scale(rbf@0)+matern@12": ["sum", ["scale", ["rbf", [0], False]], ["matern", [1, 2]]],
    "rbf@01*linear@2": ["prod", ["rbf", [0, 1], False], ["linear", [2]]],
    "scale(rbf@02+linear@1)": ["scale", ["sum", ["rbf", [0, 2], False], ["linear", [1]]]],
    "rbf-ard@10+rbf@2": ["sum", ["rbf", [1, 0], True], ["scale", ["rbf", [2], False]]],
    "warp": ["warp", None],
    "scale(warp)": ["scale", ["warp", None]],
    "scale(warp)+linear": ["sum", ["scale", ["warp", None]], ["linear", None]],
    "warp@02": ["warp", [0, 2]],
    "scale(warp@12)": ["scale", ["warp", [1, 2]]],
    "warp@0+matern@12": ["sum", ["warp", [0]], ["matern", [1, 2]]],
    "scale(warp@01*linear@2)": ["scale", ["prod", ["warp", [0, 1]], ["linear", [2]]]],
}
D_COLS = 3


def tree_class(t):
    """(ad, has keyword kernel) of a tree: where active_dims sits"""
    def top(t):
        return top(t[1]) if t[0] == "scale" else (t[0] in ("rbf", "matern", "linear", "warp") and t[1] is not None)

    def anyw(t):
        return any(anyw(s) for s in t[1:]) if t[0] in ("scale", "sum", "prod") else t[1] is not None

    def warp(t):
        return any(warp(s) for s in t[1:]) if t[0] in ("scale", "sum", "prod") else t[0] == "warp"
    return ("top" if top(t) else "inner" if anyw(t) else "none"), warp(t)


BY_CLASS = {}
for _n, _t in TREES.items():
    BY_CLASS.setdefault(tree_class(_t), []).append(_n)

_CLS = {}


def classes(gpytorch):
    """the keyword-consuming kernel and mean (defined once per process)"""
    import torch
    if _CLS:
        return _CLS

    class WarpRBF(gpytorch.kernels.RBFKernel):
        """RBF kernel on inputs rescaled by the call-time keyword `warp` (default: not rescaled)"""

        def forward(self, x1, x2, diag=False, warp=None, **params):
            if warp is not None:
                x1, x2 = x1 * warp, x2 * warp
            return super().forward(x1, x2, diag=diag, **params)

    class ShiftMean(gpytorch.Module):
        """constant + shift * first input column, `shift` a call-time keyword (default: 0); gpytorch.means.Mean.__call__ takes no keywords,
        so this mean is a plain gpytorch.Module"""

        def __init__(self):
            super().__init__()
            self.register_parameter("constant", torch.nn.Parameter(torch.zeros(())))

        def forward(self, x, shift=None):
            m = self.constant.unsqueeze(-1).expand(x.shape[:-1])
            return m if shift is None else m + shift * x[..., 0]
    _CLS.update(WarpRBF=WarpRBF, ShiftMean=ShiftMean)
    return _CLS


def build_kernel(torch, gpytorch, t, bs=()):
    K = gpytorch.kernels
    bs = torch.Size(bs)
    kind = t[0]
    if kind == "scale":
        return K.ScaleKernel(build_kernel(torch, gpytorch, t[1], bs), batch_shape=bs)
    if kind == "sum":
        return build_kernel(torch, gpytorch, t[1], bs) + build_kernel(torch, gpytorch, t[2], bs)
    if kind == "prod":
        return build_kernel(torch, gpytorch, t[1], bs) * build_kernel(torch, gpytorch, t[2], bs)
    kw = dict(batch_shape=bs)
    if t[1] is not None:
        kw["active_dims"] = tuple(t[1])
    if kind == "rbf":
        if t[2]:
            kw["ard_num_dims"] = len(t[1]) if t[1] is not None else D_COLS
        return K.RBFKernel(**kw)
    if kind == "matern":
        return K.MaternKernel(nu=2.5, **kw)
    if kind == "linear":
        return K.LinearKernel(**kw)
    if kind == "warp":
        return classes(gpytorch)["WarpRBF"](**kw)
    raise core.Machinery("unknown kernel tree node %r" % (t,))


def _sqdist(a, b):
    return ((a.unsqueeze(-2) - b.unsqueeze(-3)) ** 2).sum(-1)


def ref_kernel(torch, t, mod, a, b, warp=None):
    """the kernel tree by hand: a, b (..., n, D_COLS) -> (..., n, m); hyperparameters read from the modules"""
    kind = t[0]
    if kind == "scale":
        return mod.outputscale.detach()[..., None, None] * ref_kernel(torch, t[1], mod.base_kernel, a, b, warp)
    if kind in ("sum", "prod"):
        ka = ref_kernel(torch, t[1], mod.kernels[0], a, b, warp)
        kb = ref_kernel(torch, t[2], mod.kernels[1], a, b, warp)
        return ka + kb if kind == "sum" else ka * kb
    if t[1] is not None:
        a, b = a[..., list(t[1])], b[..., list(t[1])]
    if kind == "linear":
        return mod.variance.detach() * (a @ b.transpose(-1, -2))
    ls = mod.lengthscale.detach()
    if kind == "warp" and warp is not None:
        a, b = a * warp, b * warp
    sq = _sqdist(a / ls, b / ls)
    if kind in ("rbf", "warp"):
        return torch.exp(-0.5 * sq)
    r = sq.clamp_min(0).sqrt()
    return (1 + math.sqrt(5) * r + 5.0 / 3.0 * sq) * torch.exp(-math.sqrt(5) * r)


def switch_contexts(settings, sw):
    import linear_operator
    if sw in (None, "none"):
        return []
    if sw == "debug-off":
        return [settings.debug(False)]
    if sw == "memory-efficient":
        return [settings.memory_efficient(True), linear_operator.settings.memory_efficient(True)]
    if sw == "trace-mode":
        return [settings.trace_mode(True)]
    if sw == "fast-pred-samples":
        return [settings.fast_pred_samples(True)]
    if sw == "verbose-linalg":
        import io
        for h in settings.verbose_linalg.logger.handlers:       # the messages are still produced and formatted; they go to a buffer instead of stderr
            if hasattr(h, "setStream"):
                h.setStream(io.StringIO())
        return [settings.verbose_linalg(True)]
    if sw == "deterministic-probes":
        return [settings.deterministic_probes(True)]
    if sw == "skip-logdet-forward":
        return [settings.skip_logdet_forward(True)]
    if sw == "no-toeplitz":
        return [settings.use_toeplitz(False)]
    raise core.Machinery("unknown switch %r" % (sw,))


def path_contexts(settings, p):
    if p == "evaluated":
        return [settings.lazily_evaluate_kernels(False)]
    return [settings.lazily_evaluate_kernels(True), settings.max_eager_kernel_size(10 ** 6 if p == "lazy-dense" else 1)]


def perturb(torch, module, g):
    """hyperparameters inside their constraints, away from the defaults, pairwise distinct"""
    with torch.no_grad():
        for p in module.parameters():
            p.add_(0.8 * (torch.rand(p.shape, generator=g, dtype=p.dtype) - 0.5))


def conditional(torch, Kj, mj, Str, Ste, y, n):
    A = Kj[..., :n, :n] + Str
    Lc = torch.linalg.cholesky(A)
    Ksx = Kj[..., n:, :n]
    sol = torch.cholesky_solve((y - mj[..., :n]).unsqueeze(-1), Lc).squeeze(-1)
    wm = mj[..., n:] + (Ksx @ sol.unsqueeze(-1)).squeeze(-1)
    wc = Kj[..., n:, n:] - Ksx @ torch.cholesky_solve(Ksx.transpose(-1, -2), Lc)
    return wm, wc, wc + Ste, float(torch.linalg.cond(A).max())


def softplus(torch, x):
    return torch.log1p(torch.exp(x))


class Live(object):
    pass


FIXED_KINDS = ("fixed", "fixedlearn")


def build_model(torch, gpytorch, m, tree_name, lik_kind, seed):
    """a real exact GP of the abstract class m = (ad, kw, site) + everything the hand-written conditional needs"""
    D = torch.float64
    g = torch.Generator().manual_seed(seed)
    L = Live()
    L.m, L.tree_name, L.lik_kind = m, tree_name, lik_kind
    n = 5 + seed % 3
    L.n = n
    L.X = torch.rand(n, D_COLS, generator=g, dtype=D) * 2 - 1
    L.y = torch.randn(n, generator=g, dtype=D)
    L.g = g
    cls = classes(gpytorch)
    kw_mode = m["kw"]
    L.warp = torch.tensor(0.5 + 0.3 * float(torch.rand(1, generator=g)), dtype=D)        # widens the effective lengthscale; the default is "no warp"
    L.shift = torch.tensor(0.5 + float(torch.rand(1, generator=g)), dtype=D)
    site = m["site"]
    # the tracked kernel tree sits in the model (site covar) or in the noise model (site noise)
    L.tree = TREES[tree_name]
    L.ctree = L.tree if site == "covar" else TREES["scale(rbf)"]

    class M(gpytorch.models.ExactGP):
        def __init__(s_, x, yy, l, tree, kwm):
            super().__init__(x, yy, l)
            s_.mean_module = cls["ShiftMean"]() if kwm != "none" else gpytorch.means.ConstantMean()
            s_.covar_module = build_kernel(torch, gpytorch, tree)
            s_.kwm = kwm
            if kwm == "forward":
                s_.register_buffer("warp", L.warp.clone())
                s_.register_buffer("shift", L.shift.clone())

        def forward(s_, x, warp=None, shift=None):
            if s_.kwm == "forward":
                warp, shift = s_.warp, s_.shift
            if s_.kwm == "none":
                return gpytorch.distributions.MultivariateNormal(s_.mean_module(x), s_.covar_module(x))
            return gpytorch.distributions.MultivariateNormal(s_.mean_module(x, shift=shift), s_.covar_module(x, warp=warp))
    L.noise_tr = None
    L.nm = None
    if site == "noise":
        from gpytorch.likelihoods.gaussian_likelihood import _GaussianLikelihoodBase
        from gpytorch.likelihoods.noise_models import HeteroskedasticNoise
        nn = 4 + seed % 2
        L.Xn = torch.rand(nn, D_COLS, generator=g, dtype=D) * 2 - 1
        L.yn = 0.4 * torch.randn(nn, generator=g, dtype=D)
        nlik = gpytorch.likelihoods.GaussianLikelihood().to(D)
        nm = M(L.Xn, L.yn, nlik, L.tree, "none").to(D)
        perturb(torch, nm, g)
        with torch.no_grad():
            nlik.noise = 0.1 + 0.1 * float(torch.rand(1, generator=g))
            nm.mean_module.constant.fill_(-0.5)
        nm.eval()
        nlik.eval()
        L.nm, L.nlik = nm, nlik
        lik = _GaussianLikelihoodBase(noise_covar=HeteroskedasticNoise(nm)).to(D)
    elif lik_kind in FIXED_KINDS:
        L.noise_tr = 0.1 + 0.2 * torch.rand(n, generator=g, dtype=D)
        lik = gpytorch.likelihoods.FixedNoiseGaussianLikelihood(noise=L.noise_tr, learn_additional_noise=(lik_kind == "fixedlearn")).to(D)
    else:
        lik = gpytorch.likelihoods.GaussianLikelihood().to(D)
    model = M(L.X, L.y, lik, L.ctree, kw_mode if site == "covar" else "none").to(D)
    perturb(torch, model.covar_module, g)
    perturb(torch, model.mean_module, g)
    with torch.no_grad():
        if site == "covar" and lik_kind == "fixedlearn":
            lik.second_noise = 0.65 + 0.1 * float(torch.rand(1, generator=g))       # (the noise setter of this likelihood sets the stored per-point noise)
        elif site == "covar" and lik_kind != "fixed":
            lik.noise = 0.15 + 0.1 * float(torch.rand(1, generator=g))
    model.eval()
    lik.eval()
    L.model, L.lik = model, lik
    return L


def hand_mean(torch, L, mod, Z, use_kw):
    c = mod.constant.detach()
    out = c.unsqueeze(-1).expand(*Z.shape[:-1]) if hasattr(c, "unsqueeze") else c
    return out + (L.shift * Z[..., 0] if use_kw else 0.0)


def hand_noise(torch, L, Z):
    """S at inputs Z of the HeteroskedasticNoise likelihood: softplus(posterior mean of the noise GP) + 1e-4 (GreaterThan(1e-4))"""
    nm, nn = L.nm, L.Xn.shape[0]
    ZZ = torch.cat([L.Xn, Z], dim=-2)
    Kj = ref_kernel(torch, L.tree, nm.covar_module, ZZ, ZZ)
    mj = hand_mean(torch, L, nm.mean_module, ZZ, False)
    Sn = L.nlik.noise.detach() * torch.eye(nn, dtype=Z.dtype)
    mu, _, _, cond = conditional(torch, Kj, mj, Sn, torch.zeros(Z.shape[-2], Z.shape[-2], dtype=Z.dtype), L.yn, nn)
    return softplus(torch, mu) + 1e-4, cond


def hand_conditional(torch, L, Xs, noise_te):
    """the Gaussian conditional of the declared prior, by hand"""
    n = L.n
    use_kw = L.m["kw"] != "none" and L.m["site"] == "covar"
    Z = torch.cat([L.X, Xs], dim=-2)
    with torch.no_grad():
        Kj = ref_kernel(torch, L.ctree, L.model.covar_module, Z, Z, L.warp if use_kw else None)
        mj = hand_mean(torch, L, L.model.mean_module, Z, use_kw)
        cond2 = 0.0
        if L.m["site"] == "noise":
            s_tr, c1 = hand_noise(torch, L, L.X)
            s_te, c2 = hand_noise(torch, L, Xs)
            Str, Ste, cond2 = torch.diag_embed(s_tr), torch.diag_embed(s_te), max(c1, c2)
        elif L.lik_kind in FIXED_KINDS:
            # ExactPosterior.tla DocNoise: S = diag(stored) [+ second I], S* = diag(t) [+ second I] (call-time noise, any size)
            Str, Ste = torch.diag_embed(L.noise_tr), torch.diag_embed(noise_te)
            if L.lik_kind == "fixedlearn":
                s2 = L.lik.second_noise.detach()
                Str, Ste = Str + s2 * torch.eye(n, dtype=Z.dtype), Ste + s2 * torch.eye(Xs.shape[-2], dtype=Z.dtype)
        else:
            nz = L.lik.noise.detach()
            Str, Ste = nz * torch.eye(n, dtype=Z.dtype), nz * torch.eye(Xs.shape[-2], dtype=Z.dtype)
        wm, wc, wmc, cond = conditional(torch, Kj, mj, Str, Ste, L.y, n)
    return wm, wc, wmc, max(cond, cond2)


def compare(torch, got, want, rt=1e-7, at=1e-9):
    """first differing observable, or None"""
    mean, cov, var, mmean, mcov = got
    wm, wc, wmc = want
    for name, a, b, t in (("mean", mean, wm, at), ("covariance", cov, wc, at), ("variance", var, torch.diagonal(wc, dim1=-1, dim2=-2).clamp_min(0), at * 10),
                          ("likelihood-noise", mmean, wm, at), ("likelihood-noise", mcov, wmc, at)):
        if tuple(a.shape) != tuple(b.shape):
            return name, "shape %s instead of %s" % (list(a.shape), list(b.shape))
        ok, why = core.close(a, b, rt, t)
        if not ok:
            return name, why
    return None


def model_sig(m, lik_kind):
    return "ad-%s,kw-%s,%s" % (m["ad"], m["kw"], "hetero-noise-model" if m["site"] == "noise" else "covar-" + lik_kind)


def run_l4(torch, gpytorch, settings, c):
    m, p, hist, tree_name, lik_kind, seed = c["m"], c["p"], c["hist"], c["tree"], c["lik"], c["seed"]
    D = torch.float64
    torch.manual_seed(seed)
    res = dict(key=["L4", m, p, hist, tree_name, lik_kind], ok=True, nontrivial=True, case=c)
    desc = "%s kernel=%s path=%s history=%s(+closing prediction%s) seed=%d" % (model_sig(m, lik_kind), tree_name, p, "->".join(hist),
                                                                                " at the training inputs" if c.get("close_at_train") else "", seed)
    L = build_model(torch, gpytorch, m, tree_name, lik_kind, seed)
    steps = list(hist) + ["none"]            # the closing prediction under default settings
    done, npred = [], 0
    sigbase = "C01/L4/%s/%s" % (model_sig(m, lik_kind), p)
    for k, a in enumerate(steps):
        if a == "refresh":
            L.model.train()
            L.lik.train()
            L.model.eval()
            L.lik.eval()
            done.append(a)
            continue
        if a == "load-state":
            # other hyperparameter values for every parameter of the model (likelihood and noise model included), loaded while the model stays in
            # eval mode: the next prediction is the conditional under the NEW K, m, S (the hand-written conditional reads the live values)
            sd = {kk: v.clone() for kk, v in L.model.state_dict().items()}
            for kk, _ in L.model.named_parameters():
                sd[kk] = sd[kk] + 0.25 + 0.3 * torch.rand(sd[kk].shape, generator=L.g, dtype=sd[kk].dtype)
            ok, got = core.guarded(lambda: L.model.load_state_dict(sd))
            if not ok:
                res.update(ok=False, sig="%s/after:%s/%s/raises" % (sigbase, "+".join(done) or "nothing", a), detail="%s: %s raises: %s" % (desc, a, got))
                return res
            done.append(a)
            continue
        if a in ("set-targets", "set-data"):
            # new training data of the model (same size): the next prediction conditions on them
            y2 = torch.randn(L.n, generator=L.g, dtype=D)
            if a == "set-targets":
                ok, got = core.guarded(lambda: L.model.set_train_data(targets=y2, strict=False))
            else:
                X2 = torch.rand(L.n, D_COLS, generator=L.g, dtype=D) * 2 - 1
                ok, got = core.guarded(lambda: L.model.set_train_data(inputs=X2, targets=y2, strict=False))
                L.X = X2
            L.y = y2
            if not ok:
                res.update(ok=False, sig="%s/after:%s/%s/raises" % (sigbase, "+".join(done) or "nothing", a), detail="%s: %s raises: %s" % (desc, a, got))
                return res
            done.append(a)
            continue
        ns = 2 + (k + seed) % 3
        Xs = torch.rand(ns, D_COLS, generator=L.g, dtype=D) * 2 - 1
        if k == len(steps) - 1 and c.get("close_at_train"):
            Xs, ns = L.X.clone(), L.n        # "at any test inputs": the training inputs themselves (ExactGP warns under debug; the answer is the same conditional)
        noise_te = (0.35 + 0.25 * torch.rand(ns, generator=L.g, dtype=D)) if (lik_kind in FIXED_KINDS and m["site"] == "covar") else None
        wm, wc, wmc, cond = hand_conditional(torch, L, Xs, noise_te)
        if cond > 1e4:
            res.update(nontrivial=npred >= 2, n=1 if npred else 0)
            return res
        call_kw = dict(warp=L.warp, shift=L.shift) if (m["kw"] == "call" and m["site"] == "covar") else {}

        def go():
            with torch.no_grad(), ExitStack() as st:
                for cm in path_contexts(settings, p) + switch_contexts(settings, a):
                    st.enter_context(cm)
                post = L.model(Xs, **call_kw)
                mean, cov, var = post.mean.clone(), post.covariance_matrix.clone(), post.variance.clone()
                if m["site"] == "noise":
                    marg = L.lik(post, Xs)
                elif noise_te is not None:
                    marg = L.lik(post, noise=noise_te)
                else:
                    marg = L.lik(post)
                return mean, cov, var, marg.mean.clone(), marg.covariance_matrix.clone()
        ok, got = core.guarded(go)
        where = "after:%s/predict:%s" % ("+".join(done) or "nothing", a)
        if not ok:
            res.update(ok=False, sig="%s/%s/raises" % (sigbase, where), detail="%s: prediction #%d raises: %s" % (desc, npred + 1, got))
            return res
        bad = compare(torch, got, (wm, wc, wmc))
        if bad:
            res.update(ok=False, sig="%s/%s/%s" % (sigbase, where, bad[0]),
                       detail="%s: prediction #%d (%s) differs from the hand-written Gaussian conditional of the declared prior: %s %s" % (desc, npred + 1, a, bad[0], bad[1]))
            return res
        npred += 1
        done.append(a)
    if seed % 97 == 0:
        res["sample"] = dict(case=desc)
    res["npred"] = npred
    return res
