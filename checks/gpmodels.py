"""Real model families used by the history-based checks (C03, C04, C16, C18): builders, data, operations."""
import math

import torch

import gpytorch
from gpytorch.distributions import MultivariateNormal, MultitaskMultivariateNormal

D = torch.float64


def data(seed, n=6, d=1, m=3, tasks=0):
    g = torch.Generator().manual_seed(seed)
    x = torch.rand(n, d, generator=g, dtype=D) * 2 - 1
    xs = torch.rand(m, d, generator=g, dtype=D) * 2 - 1
    if tasks:
        y = torch.stack([torch.sin(3 * x.sum(-1) + a) for a in range(tasks)], -1) + 0.1 * torch.randn(n, tasks, generator=g, dtype=D)
    else:
        y = torch.sin(3 * x.sum(-1)) + 0.1 * torch.randn(n, generator=g, dtype=D)
    return x, y, xs


class ExactModel(gpytorch.models.ExactGP):
    def __init__(self, x, y, lik, family, d=1):
        super().__init__(x, y, lik)
        self.family = family
        if family == "mtask":
            self.mean_module = gpytorch.means.MultitaskMean(gpytorch.means.ConstantMean(), num_tasks=2)
            self.covar_module = gpytorch.kernels.MultitaskKernel(gpytorch.kernels.RBFKernel(), num_tasks=2, rank=1)
            return
        self.mean_module = gpytorch.means.ConstantMean()
        base = gpytorch.kernels.ScaleKernel(gpytorch.kernels.RBFKernel(ard_num_dims=d))
        if family == "exact":
            self.covar_module = base
        elif family == "sgpr":
            z = torch.linspace(-0.9, 0.9, 4, dtype=D).unsqueeze(-1).repeat(1, d)
            self.covar_module = gpytorch.kernels.InducingPointKernel(base, inducing_points=z, likelihood=lik)
        elif family == "kiss":
            self.covar_module = gpytorch.kernels.ScaleKernel(
                gpytorch.kernels.GridInterpolationKernel(gpytorch.kernels.RBFKernel(), grid_size=12, num_dims=d, grid_bounds=[(-1.5, 1.5)] * d))
        else:
            raise ValueError(family)

    def forward(self, x):
        m, k = self.mean_module(x), self.covar_module(x)
        if self.family == "mtask":
            return MultitaskMultivariateNormal(m, k)
        return MultivariateNormal(m, k)


class SVGPModel(gpytorch.models.ApproximateGP):
    def __init__(self, family, d=1):
        z = torch.linspace(-0.9, 0.9, 4, dtype=D).unsqueeze(-1).repeat(1, d)
        if family.endswith("mf"):
            vd = gpytorch.variational.MeanFieldVariationalDistribution(4)
        else:
            vd = gpytorch.variational.CholeskyVariationalDistribution(4)
        if family.startswith("usvgp"):
            vs = gpytorch.variational.UnwhitenedVariationalStrategy(self, z, vd, learn_inducing_locations=True)
        else:
            vs = gpytorch.variational.VariationalStrategy(self, z, vd, learn_inducing_locations=True)
        super().__init__(vs)
        self.family = family
        self.mean_module = gpytorch.means.ConstantMean()
        self.covar_module = gpytorch.kernels.ScaleKernel(gpytorch.kernels.RBFKernel(ard_num_dims=d))

    def forward(self, x):
        return MultivariateNormal(self.mean_module(x), self.covar_module(x))


EXACT_FAMILIES = ("exact", "sgpr", "kiss", "mtask")
VAR_FAMILIES = ("svgp", "svgpmf", "usvgp")


def spec_family(family):
    """family of GPCache.tla that models this real family"""
    if family in ("exact", "mtask"):
        return "exact"
    if family in ("sgpr", "kiss"):
        return family
    return "svgp"


def build(family, x, y, d=1):
    """fresh model + likelihood in float64 with deterministic, non-default hyperparameters"""
    if family in EXACT_FAMILIES:
        if family == "mtask":
            lik = gpytorch.likelihoods.MultitaskGaussianLikelihood(num_tasks=2)
        else:
            lik = gpytorch.likelihoods.GaussianLikelihood()
        model = ExactModel(x, y, lik, family, d)
    else:
        lik = gpytorch.likelihoods.GaussianLikelihood()
        model = SVGPModel(family, d)
    model = model.to(D)
    lik = lik.to(D)
    with torch.no_grad():
        lik.noise = 0.2 if family != "mtask" else 0.2
        for name, mod in model.named_modules():
            if isinstance(mod, gpytorch.kernels.RBFKernel):
                mod.lengthscale = 0.7
            if isinstance(mod, gpytorch.kernels.ScaleKernel):
                mod.outputscale = 1.3
    return model, lik


def objective(model, lik, family, n):
    if family in EXACT_FAMILIES:
        return gpytorch.mlls.ExactMarginalLogLikelihood(lik, model)
    return gpytorch.mlls.VariationalELBO(lik, model, num_data=n)


def perturbed_state(model, lik, seed, scale=0.3):
    """a different, valid parameter set of the same architecture (for load_state_dict)"""
    g = torch.Generator().manual_seed(seed)
    sd = {}
    for k, v in model.state_dict().items():
        if v.dtype.is_floating_point and "grid" not in k:
            sd[k] = v.clone() + scale * (torch.rand(v.shape, generator=g, dtype=v.dtype) - 0.5)
        else:
            sd[k] = v.clone()
    return sd


def clone_fresh(model, lik, family, x, y, d=1):
    """A freshly constructed model of the same architecture holding the same parameters and data."""
    fm, fl = build(family, x, y, d)
    fm.load_state_dict({k: v.clone() for k, v in model.state_dict().items()})
    fm.eval()
    fl.eval()
    return fm, fl


def dist_tensors(out, skip_var=False):
    mean = out.mean.detach().clone()
    if skip_var:
        return mean, None
    cov = out.covariance_matrix.detach().clone()
    return mean, cov
