"""C11 - MultitaskMultivariateNormal: one joint distribution regardless of layout, constructor or index.
Spec: MTMVN.tla (+ PyIndex.tla), MTLayout.tla, MTCtor.tla (constructors: checks/c11_ctor.py)."""
import itertools
import os

from harness import core, tlc

LEVEL = "model_checking"
PID = "C11"

FAMILIES = ["int_int", "int_slice", "slice_int", "slice_slice", "one", "lists", "mixed"]
KINDS = ("int", "slice", "list")   # MTMVN.tla Kinds: the index kinds of an event dimension


def write_mc(workdir, name, N, T, batch, inter, variant, family, steps):
    os.makedirs(workdir, exist_ok=True)
    mod = "MC_MTMVN_" + name
    with open(os.path.join(workdir, mod + ".tla"), "w") as f:
        f.write("---- MODULE %s ----\nEXTENDS MTMVN\nBatchDef == <<%s>>\n====\n" % (mod, ", ".join(str(b) for b in batch)))
    cfg = os.path.join(workdir, mod + ".cfg")
    tlc.write_cfg(cfg, spec="Spec", constants={"N": N, "T": T, "Batch": "<- BatchDef", "Interleaved": bool(inter), "Variant": variant,
                                               "IdxFamily": family, "MaxSteps": steps},
                  invariants=["Consistent"], properties=["MeanIsIndexedMean"])
    return os.path.join(workdir, mod + ".tla"), cfg


# ---------------------------------------------------------------------------------------------
NT_ = [6]


def g(u, v):
    """unique symmetric integer 'covariance' of variables u, v; variables of different batch elements are
    independent (the covariance of a batched distribution says nothing else)"""
    if u // NT_[0] != v // NT_[0]:
        return 0.0
    lo, hi = (u, v) if u <= v else (v, u)
    return 1.0 + lo * 128 + hi + (100000.0 if u == v else 0.0)


def build(torch, N, T, batch, inter):
    from gpytorch.distributions import MultitaskMultivariateNormal
    nb = 1
    for b in batch:
        nb *= b
    nt = N * T
    mean = (torch.arange(nb * nt, dtype=torch.float64) + 100).reshape(*batch, N, T)
    C = torch.zeros(nb, nt, nt, dtype=torch.float64)
    for b in range(nb):
        order = []
        if inter:
            for i in range(N):
                for a in range(T):
                    order.append(b * nt + i * T + a)
        else:
            for a in range(T):
                for i in range(N):
                    order.append(b * nt + i * T + a)
        for p, u in enumerate(order):
            for q, v in enumerate(order):
                C[b, p, q] = g(u, v)
    C = C.reshape(*batch, nt, nt)
    return MultitaskMultivariateNormal(mean, C, interleaved=inter)


def py_index(torch, idx):
    out = []
    for it in idx:
        k = it["k"]
        if k == "int":
            out.append(int(it["v"]))
        elif k == "slice":
            out.append(slice(*[None if x == 99 else int(x) for x in (it["a"], it["b"], it["s"])]))
        elif k == "ell":
            out.append(Ellipsis)
        elif k == "list":
            out.append(torch.tensor([int(x) for x in it["v"]], dtype=torch.long))
    return tuple(out) if len(out) != 1 else (out[0] if os.environ.get("VERIF_C11_BARE", "1") == "1" else tuple(out))


def show_index(idx):
    parts = []
    for it in idx:
        k = it["k"]
        if k == "int":
            parts.append(str(it["v"]))
        elif k == "slice":
            a, b, s = ["" if x == 99 else str(x) for x in (it["a"], it["b"], it["s"])]
            parts.append("%s:%s" % (a, b) + (":" + s if s else ""))
        elif k == "ell":
            parts.append("...")
        else:
            parts.append("tensor(%s)" % list(it["v"]))
    return "[" + ", ".join(parts) + "]"


def kinds(idx, nbatch=0):
    """cell name of an index expression; the first `nbatch` items address batch dimensions and are marked "b." so that a
    batch index tensor and an event index tensor never share a cell"""
    out = []
    for pos, it in enumerate(idx):
        k = it["k"]
        if k == "ell":
            nbatch = 0
        if k == "list":
            k = "tensor" + ("(neg)" if any(x < 0 for x in it["v"]) else "")
        if k == "slice":
            k = "slice" if (it["a"], it["b"], it["s"]) != (99, 99, 99) else ":"
        out.append(("b." if pos < nbatch else "") + k)
    return "x".join(out)


def _has_neg(it):
    if it["k"] == "int":
        return it["v"] < 0
    if it["k"] == "list":
        return any(x < 0 for x in it["v"])
    return any(x != 99 and x < 0 for x in (it["a"], it["b"]))


def expected_cov(torch, r, labels):
    """RepOK as a projection: the covariance the result must carry, from its mean's labels and its own layout."""
    from gpytorch.distributions import MultitaskMultivariateNormal
    lab = labels
    if isinstance(r, MultitaskMultivariateNormal):
        inter = r._interleaved
        bshape = lab.shape[:-2]
        n, t = lab.shape[-2:]
        if lab.numel() == 0:
            return torch.zeros(*bshape, n * t, n * t, dtype=torch.float64)
        flat = lab.reshape(-1, n, t)
        rows = flat.reshape(-1, n * t) if inter else flat.transpose(-1, -2).reshape(-1, n * t)
    else:
        if lab.dim() == 0:
            return torch.tensor(g(int(lab) - 100, int(lab) - 100), dtype=torch.float64)
        bshape = lab.shape[:-1]
        if lab.numel() == 0:
            return torch.zeros(*bshape, lab.shape[-1], lab.shape[-1], dtype=torch.float64)
        rows = lab.reshape(-1, lab.shape[-1])
    m = rows.shape[-1]
    out = torch.zeros(rows.shape[0], m, m, dtype=torch.float64)
    for b in range(rows.shape[0]):
        for p in range(m):
            for q in range(m):
                out[b, p, q] = g(int(rows[b, p]) - 100, int(rows[b, q]) - 100)
    return out.reshape(*bshape, m, m)


def _worker(item):
    torch = core.setup_torch()
    N, T, batch, inter = item["N"], item["T"], tuple(item["batch"]), item["inter"]
    NT_[0] = N * T
    out = []
    for chain in item["chains"]:
        d = build(torch, N, T, batch, inter)
        lab = d.mean.clone()
        desc = "n=%d t=%d batch=%s %s d%s" % (N, T, list(batch), "interleaved" if inter else "non-interleaved", "".join(show_index(s["idx"]) for s in chain))
        key = [N, T, list(batch), inter, [s["idx"] for s in chain]]
        res = dict(key=key, ok=True, nontrivial=not chain[-1]["err"] and len(chain[-1]["labels"]) < N * T * max(1, len(batch) and batch[0]),
                   sample=dict(case=desc, expect_shape=list(chain[-1]["shape"]), expect_labels=list(chain[-1]["labels"])[:12]))
        cur = d
        for k, step in enumerate(chain):
            idx = py_index(torch, step["idx"])
            lay = "interleaved" if getattr(cur, "_interleaved", True) else "non-interleaved"
            cell = "C11/getitem/%s/%s" % (lay if hasattr(cur, "_interleaved") else "mvn",
                                          kinds(step["idx"], lab.dim() - 2 if hasattr(cur, "_interleaved") else 0))
            # oracle-side self check: the spec's Python semantics against torch indexing of the label tensor
            if hasattr(cur, "_interleaved") and not any(it["k"] == "ell" for it in step["idx"]) and len(step["idx"]) == lab.dim() - 1:
                oidx = (idx if isinstance(idx, tuple) else (idx,)) + (slice(None),)
            else:
                oidx = idx
            try:
                olab = lab[oidx]
                oerr = False
            except (IndexError, TypeError, RuntimeError):
                olab, oerr = None, True
            if oerr != bool(step["err"]) or (not oerr and (list(olab.shape) != list(step["shape"]) or [int(x) for x in olab.reshape(-1)] != list(step["labels"]))):
                return [dict(machinery="PyIndex.tla disagrees with torch indexing on %s step %d: spec err=%s shape=%s, torch err=%s shape=%s" % (
                    desc, k, step["err"], list(step["shape"]), oerr, None if oerr else list(olab.shape)))]
            ok, r = core.guarded(lambda: cur[idx])
            if step["err"]:
                if ok:
                    res.update(ok=False, sig=cell + "/accepts-invalid-index", detail="%s: indexing the mean raises but d[idx] returned %s" % (desc, type(r).__name__))
                break
            if not ok:
                res.update(ok=False, sig=cell + "/raises", detail="%s: mean[idx] is valid (shape %s) but d[idx] raised %s" % (desc, list(step["shape"]), r))
                break
            ok2, info = core.guarded(lambda: (r.mean, r.covariance_matrix))
            if not ok2:
                res.update(ok=False, sig=cell + "/raises", detail="%s: result cannot be evaluated: %s" % (desc, info))
                break
            m, cov = info
            if list(m.shape) != list(olab.shape) or not torch.equal(m.double(), olab):
                res.update(ok=False, sig=cell + "/mean", detail="%s: mean has shape %s values %s, expected mean[idx] shape %s values %s" % (
                    desc, list(m.shape), m.reshape(-1)[:8].tolist(), list(olab.shape), olab.reshape(-1)[:8].tolist()))
                break
            want = expected_cov(torch, r, olab)
            if list(cov.shape) != list(want.shape):
                res.update(ok=False, sig=cell + "/cov-shape", detail="%s: covariance has shape %s for a mean of shape %s (%s); expected %s" % (
                    desc, list(cov.shape), list(m.shape), type(r).__name__, list(want.shape)))
                break
            if want.numel() and float((cov.double() - want).abs().max()) > 0.25:  # entries are distinct integers
                bad = ((cov.double() - want).abs() > 0.25).nonzero()[0].tolist()
                res.update(ok=False, sig=cell + "/cov-entries", detail="%s: covariance entry %s is %s; the selected (point, task) pairs have covariance %s" % (
                    desc, bad, float(cov[tuple(bad)]), float(want[tuple(bad)])))
                break
            cur, lab = r, olab
        if not res["ok"]:
            res["case"] = dict(N=N, T=T, batch=list(batch), inter=inter, chain=chain)
        out.append(res)
    return out


def configs(thorough):
    shapes = [(3, 2), (2, 3)] + ([(3, 3), (1, 2), (2, 1)] if thorough else [])
    for (N, T), inter in itertools.product(shapes, (True, False)):
        yield dict(N=N, T=T, batch=(), inter=inter, family="all", steps=1)
        yield dict(N=N, T=T, batch=(), inter=inter, family="small", steps=2 if not thorough else 3)
        if N * T <= 6:
            # quick: the small family and every pairing of index kinds for the two event dimensions behind every batch item
            yield dict(N=N, T=T, batch=(2,), inter=inter, family="all" if thorough else "small_pairs", steps=1)


def run(ck):
    thorough = ck.tier == "thorough"
    core.setup_torch()
    ck.rule = ("cases = every index expression (ints incl. out of range, slices with start/stop in -(n+2)..n+2 or None and step None/1/2/3, "
               "ellipsis, index tensors incl. negative entries, batch items) of the enumerated families on every (n, t, batch, layout) - the families "
               "contain every pairing of index kinds {int, slice, index tensor} for the two event dimensions incl. an index tensor paired with a "
               "plain (negative) int, in both layouts, unbatched and behind every batch item (int, negative int, slices, and an index tensor in the batch position in front of int / slice event items) - plus chains d[i][j]; non-trivial = valid index selecting a proper subset; distinct = distinct (shape, layout, index chain)")
    ck.assumptions = ["covariances are dense tensors with unique integer entries (exact comparison)", "index tensors are 1-d LongTensors (bool masks, 0-d / 2-d index tensors and Python lists are not accepted by __getitem__ and are outside the alphabet)",
                      "steps are positive (torch rejects negative steps)",
                      "an index tensor in a batch position is combined with int / slice event items only: zipped with an event index tensor it selects "
                      "(point, task) pairs of different batch members, for which the property states no joint covariance"]
    ck.exhaustive = True
    wd = os.path.join(tlc.BUILD, PID)
    jobs, meta = [], []
    for c in configs(thorough):
        name = "%dx%d_b%s_%s_%s" % (c["N"], c["T"], "".join(map(str, c["batch"])) or "0", "il" if c["inter"] else "ni", c["family"])
        mod, cfg = write_mc(os.path.join(wd, "mc"), name, c["N"], c["T"], c["batch"], c["inter"], "fixed", c["family"], c["steps"])
        jobs.append(((mod, cfg), dict(name=PID + "/run_" + name, timeout=1800, dump=True, check=False, workers=4, heap="4g")))
        meta.append((c, name, False))
    # the arithmetic of the pinned commit, as a prediction (documents what the repaired formulas fixed)
    for fam in ("int_slice", "slice_int", "lists", "mixed"):
        mod, cfg = write_mc(os.path.join(wd, "mc"), "pinned_" + fam, 3, 2, (), True, "pinned", fam, 1)
        jobs.append(((mod, cfg), dict(name=PID + "/pinned_" + fam, timeout=600, check=False, workers=2)))
        meta.append((dict(family=fam), "pinned-variant " + fam, True))
    results = tlc.run_many(jobs, parallel=4)
    items, preds = [], {}
    pairings = {}      # (layout, batched, point kind, task kind, negative int/entry involved) -> valid generated cases
    for (c, name, pinned), res in zip(meta, results):
        ck.add_tlc(res, name)
        if pinned:
            preds[c["family"]] = (res.violation or {}).get("name")
            continue
        if res.violation is not None:
            ck.model_drift("MTMVN.tla (model of the current code) violates %s on %s" % (res.violation["name"], name))
        elif res.rc != 0:
            raise tlc.TLCError("TLC failed on %s:\n%s" % (name, res.stdout[-1500:]))
        ck.require_coverage(res, ["Next"])
        chains = []
        for st in res.states():
            h = st["hist"]
            if len(h) == 0:
                continue
            chains.append([dict(idx=[dict(it) for it in s["idx"]], err=s["err"], shape=list(s["shape"]), labels=list(s["labels"])) for s in h])
        # a chain that is a proper prefix of another is replayed as part of it
        longer = set()
        for ch in chains:
            if len(ch) > 1:
                longer.add(core.digest([s["idx"] for s in ch[:-1]]))
        chains = [ch for ch in chains if len(ch) > 1 or core.digest([s["idx"] for s in ch]) not in longer]
        ck.section("gen", configs=1, chains=len(chains))
        rank = len(c["batch"]) + 2
        for ch in chains:
            idx0 = ch[0]["idx"]
            if len(idx0) == rank and not ch[0]["err"] and all(it["k"] in KINDS for it in idx0[-2:]):
                kp = (c["inter"], bool(c["batch"]), idx0[-2]["k"], idx0[-1]["k"], _has_neg(idx0[-2]) or _has_neg(idx0[-1]))
                pairings[kp] = pairings.get(kp, 0) + 1
        for i in range(0, len(chains), 150):
            items.append(dict(N=c["N"], T=c["T"], batch=list(c["batch"]), inter=c["inter"], chains=chains[i:i + 150]))
    ck.extra["pinned_variant_predictions"] = preds
    # the alphabet must contain every pairing of index kinds for the two event dimensions, in both layouts, without and
    # with batch items in front, with and without a negative int / negative tensor entry (MTMVN.tla PairingsCovered)
    missing = [kp for kp in itertools.product((True, False), (False, True), KINDS, KINDS, (False, True)) if not pairings.get(kp)]
    if missing:
        ck.vacuous("index pairings never generated as a valid case (layout, batched, point kind, task kind, negative): %s" % missing[:6])
    ck.section("pairings", cells=len(pairings), valid_cases=sum(pairings.values()))
    ck.extra["pairing_cases"] = {"%s/%s/%sx%s%s" % ("il" if k[0] else "ni", "batched" if k[1] else "plain", k[2], k[3], "/neg" if k[4] else ""): v
                                 for k, v in sorted(pairings.items())}
    results = core.pmap(_worker, items, chunksize=1)
    ck.absorb(results)
    from checks import c11_layout, c11_ctor
    c11_layout.run(ck)
    c11_ctor.run(ck)
    ck.rule += ("; constructors (MTCtor.tla) = from_batch_mvn on every batch shape of rank 1-4 (all shapes over 1..3 up to rank 3, all-equal and pairwise "
                "distinct sizes at rank 4) x every task_dim in -(rank+1)..rank, from_repeated_mvn on batch rank 0-3, from_independent_mvns with equal and "
                "broadcast batch shapes; compared per batch member (mean labels exact, covariance, log_prob)")
    ck.assumptions.append("a task_dim that names no batch dimension (task_dim = rank or < -rank) must raise: the constructor has no denotation for it")


def replay(rep):
    core.setup_torch()
    case = rep["case"]
    if "ctor_case" in case:
        from checks import c11_ctor
        return c11_ctor.replay(rep)
    if "chain" not in case:
        from checks import c11_layout
        return c11_layout.replay(rep)
    res = _worker(dict(N=case["N"], T=case["T"], batch=case["batch"], inter=case["inter"], chains=[case["chain"]]))
    for r in res:
        if r.get("machinery"):
            print("MACHINERY-FAILURE", r["machinery"])
            return 2
        if not r["ok"]:
            print("VIOLATION property=C11 replay=- :: %s :: %s" % (r["sig"], r["detail"]))
            return 1
    print("replay passed")
    return 0
