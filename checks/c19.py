"""C19 - hand-written derivatives are the true derivatives.
Spec: Grad.tla (EXTENDS Kernels: branch lattice of the backward passes, fast/generic cell pairs, LogNormalCDF masks on a rational
grid, exact natural -> expectation gradient maps and (dk/dl)/k ratios).
Replay: (a) RBFCovariance / MaternCovariance vs autograd of the same forward in plain torch ops, (b) fast vs generic kernel path:
values and hyperparameter gradients, (c) log_normal_cdf backward vs finite differences of its forward and vs phi/Phi, (d) natural /
tril-natural distributions: delivered gradient = gradient w.r.t. the expectation parameters, (e) gradients of exact-GP predictions
w.r.t. test inputs vs finite differences, (f) the CIQ natural-gradient Function, (g) KernelCalls.tla: the call-configuration lattice of the two-path kernels
(diag, last_dim_is_batch, x2 None / equal / different, requires_grad of either input, trace_mode, shared / ARD / batched lengthscale, sizes incl. kernel batch = d = n, GEOMETRY of the
points: unit / rows shared between two different tensors (r = 0 exactly, also on diag=True cross-covariances) / far offsets 1e3..1e5 with more than 25 rows, against the closed form on the centred points):
values and the gradient of EVERY parameter under every forcing against autograd of the documented formula, (h) BackwardOps.tla: forward -> backward^k through ONE
graph for every hand-written Function (directly and through the public object): every pass = upstream . dF(x), = the same pass through a fresh graph, context
untouched; Jacobian rows, (i) WHO REQUIRES GRAD: every non-empty subset of the tensor inputs of every hand-written Function (BackwardOps.tla: BWNeedsOK; via Function.apply and
via the public object; nat / ciq cells, exact instances), every subset of {x1, x2} in every call cell (KernelCalls.tla: KCWants) and k(x, Z) inside SGPR: each input that requires grad is
delivered a gradient (None only where the derivative is zero) equal to autograd of the reference / the expectation-parameter gradient.  Replay code of (g), (h): checks/c19_multi.py.  Level "other"."""
import math
import os
import random
from fractions import Fraction

from harness import core, tlc
from checks.c04 import tla

LEVEL = "other"
PID = "C19"
NU = {"matern05": 0.5, "matern15": 1.5, "matern25": 2.5}
CDF_RTOL = 1e-7
IND_RTOL = {"rbf": 1e-6, "matern25": 1e-6, "matern15": 1e-5}     # SGPR marginal log likelihood: autograd vs 4th-order central differences (h = 1e-3); measured 2e-11 / 4e-11 / 2e-9 over 150 seeds;
#                          nu = 3/2 has a discontinuous third derivative at r = 0; nu = 1/2 is not differentiable there (not in the lattice)
CIQ_RTOL = 1e-4            # _NgdInterpTerms solves with linear_operator's linear_cg: mostly 1e-15, but up to 5e-6 on some 3 x 3 systems whatever the tolerance setting


def cdf_tols(z, br):
    """(backward vs derivative of the forward, backward vs phi/Phi), relative.  For z < -1 both passes use the rational erfcx approximation whose
    value error is up to 2e-3 near z = -1 (C13); measured on the unchanged tree: 6.9e-3 / 1.9e-3 at z -> -1, 1.9e-5 / 8.9e-6 at -2.5, 9e-9 / 6e-9 at -5"""
    if br != "small":
        return CDF_RTOL, CDF_RTOL
    if z >= -2.5:
        return 1e-2, 2e-3
    if z >= -5:
        return 1e-4, 1e-4
    return 1e-7, 1e-7


# the call-configuration lattice (KernelCalls.tla) and the histories of the backward machine (BackwardOps.tla), per tier
KC_BATCH = {"quick": [(0, 0), (2, 0), (3, 0), (2, 2), (3, 3), (0, 2)], "thorough": [(0, 0), (2, 0), (3, 0), (2, 2), (3, 3), (0, 2), (0, 3)]}
KC_DIMS = [1, 2, 3]
KC_MODES = ["same", "clone", "eqn", "gt", "lt"]
KC_WRAPS = ["plain", "scale"]
KC_FORCES = ["none", "x1grad", "x2grad", "x12grad", "trace"]       # every subset of {x1, x2} requiring grad, and trace_mode
KC_GEOMS = ["unit", "coin", "far"]                                 # geometry of the input points (KernelCalls.tla): shared rows of two different tensors; far offset with > 25 rows
KC_GEO_BATCH = {"quick": [(0, 0), (2, 2)], "thorough": [(0, 0), (2, 2), (0, 2)]}
KC_OFFSETS = [3, 4, 5]                                             # x = 10^e + u
BW_MAX = 3
BW_UP = {"quick": ["ones", "randA"], "thorough": ["ones", "randA", "randB", "unit"]}
# the histories of the cases in which a PROPER / other subset of the inputs requires grad (MachRG = "other")
BW_MAX_RG = 2
BW_UP_RG = {"quick": ["randA"], "thorough": ["ones", "randA"]}
ALL_FNS = ["rbfcov", "materncov", "lncdf", "nat2muvar", "trilnat2muvar", "ngdinterp"]


def tset(vals):
    return "{%s}" % ", ".join(tla(list(v)) if isinstance(v, tuple) else tla(v) for v in vals)


def write_mc(workdir, name, part, instances=(), inv=(), tier="quick", impure=(), fns=None, machrg="base", shortcut=(), bwmax=BW_MAX, ups=None):
    os.makedirs(workdir, exist_ok=True)
    mod = "MC_Grad_" + name
    with open(os.path.join(workdir, mod + ".tla"), "w") as f:
        f.write("---- MODULE %s ----\nEXTENDS Grad\nInstDef == {%s}\n" % (mod, ",\n  ".join(tla(i) for i in instances)))
        f.write("KCDimsDef == %s\nKCBatchDef == %s\nKCModesDef == %s\nKCWrapsDef == %s\nKCForcesDef == %s\n" % (
            tset(KC_DIMS), tset(KC_BATCH[tier]), tset(KC_MODES), tset(KC_WRAPS), tset(KC_FORCES)))
        f.write("KCGeomsDef == %s\nKCGeoBatchDef == %s\nKCOffsetsDef == %s\n" % (tset(KC_GEOMS), tset(KC_GEO_BATCH[tier]), tla(list(KC_OFFSETS))))
        f.write("BWUpDef == %s\nBWImpureDef == %s\nMachShortcutDef == %s\n" % (tset(ups if ups is not None else BW_UP[tier]), tset(tuple(i) for i in impure), tset(tuple(i) for i in shortcut)))
        f.write("MachFnsDef == %s\n====\n" % tset(fns if fns is not None else ALL_FNS))
    cfg = os.path.join(workdir, mod + ".cfg")
    tlc.write_cfg(cfg, spec="GSpec", invariants=list(inv),
                  constants={"Part": part, "Instances": "<- InstDef", "KCDims": "<- KCDimsDef", "KCBatch": "<- KCBatchDef", "KCModes": "<- KCModesDef", "KCWraps": "<- KCWrapsDef",
                             "KCForces": "<- KCForcesDef", "KCGeoms": "<- KCGeomsDef", "KCGeoBatch": "<- KCGeoBatchDef", "KCOffsets": "<- KCOffsetsDef", "BWMaxBwd": bwmax, "BWUpstreams": "<- BWUpDef", "BWImpure": "<- BWImpureDef", "MachFns": "<- MachFnsDef",
                             "MachRG": machrg, "MachShortcut": "<- MachShortcutDef"})
    return os.path.join(workdir, mod + ".tla"), cfg


def fr(p):
    return Fraction(int(p[0]), int(p[1]))


def gen_instances(rnd, thorough):
    out = []
    for t in range(60 if thorough else 24):
        n = 1 + t % 3
        Cm = [[(rnd.randint(1, 2) if i == j else (rnd.randint(-1, 1) if j < i else 0)) for j in range(n)] for i in range(n)]
        GS = [[0] * n for _ in range(n)]
        for i in range(n):
            for j in range(i + 1):
                GS[i][j] = GS[j][i] = rnd.randint(-2, 2)
        out.append(dict(kind="nat" if t % 2 == 0 else "tril", Cm=Cm, t1=[rnd.randint(-2, 2) for _ in range(n)], gmu=[rnd.randint(-2, 2) for _ in range(n)], GS=GS,
                        train=("both", "vec", "mat")[(t // 6) % 3]))       # t mod 6 runs over kind x size: every combination gets every training subset
    for t in range(48 if thorough else 16):
        fn = ("rbf", "matern05", "matern15", "matern25")[t % 4]
        out.append(dict(kind="covr", fn=fn, T1=[rnd.randint(0, 3) for _ in range(3)], T2=[rnd.randint(0, 3) for _ in range(2)], l=list(rnd.choice([(1, 1), (3, 2), (2, 1), (1, 2), (5, 2)]))))
    rnd.shuffle(out)
    for k, i in enumerate(out):
        i["id"] = k
    return out


# ---------------------------------------------------------------------------------------------
def _worker(item):
    torch = core.setup_torch()
    import gpytorch  # noqa
    from checks import c05
    c05._install_spies()
    out = []
    for c in item["cases"]:
        from checks import c19_multi as cm
        fn = dict(cov=run_cov, covr=run_covr, path=run_path, ard=run_path, cdf=run_cdf, nat=run_nat, natx=run_natx, ciq=run_ciq, pred=run_pred, ind=run_ind, call=cm.run_call, mach=cm.run_mach)[c["kind"]]
        r = fn(torch, gpytorch, c)
        out.extend(r if isinstance(r, list) else [r])
    return out


def _pairsq(a, b):
    return ((a.unsqueeze(-2) - b.unsqueeze(-3)) ** 2).sum(-1)


def _matern_poly(nu, s):
    return 1 if nu == 0.5 else (1 + s) if nu == 1.5 else (1 + s + s * s / 3)


def run_cov(torch, gpytorch, c):
    """(a) the hand-written Function against autograd of the same forward in plain torch ops; arbitrary upstream gradient"""
    from gpytorch.functions import MaternCovariance, RBFCovariance
    from checks.c05_ref import U
    D = torch.float64
    cell = c["cell"]
    fn, d = cell["fn"], cell["d"]
    bs = {"none": [], "b2": [2], "b23": [2, 3]}[cell["batch"]]
    g = torch.Generator().manual_seed(c["seed"])
    x1, x2 = U(g, -1, 1, *bs, 4, d), U(g, -1, 1, *bs, 3, d)
    if cell["coincident"]:                           # r = 0 entries
        x2[..., 0, :] = x1[..., 1, :]
        x2[..., 2, :] = x1[..., 3, :]
    ls0 = U(g, 0.5, 1.5, *bs, 1, 1)
    G = torch.ones(*bs, 4, 3, dtype=D) if cell["upstream"] == "ones" else torch.randn(*bs, 4, 3, generator=g, dtype=D)
    desc = "%s d=%d batch=%s coincident=%s upstream=%s seed=%d" % (fn, d, bs, cell["coincident"], cell["upstream"], c["seed"])
    res = dict(key=["cov", cell], ok=True, nontrivial=True, case=c)
    sig = "C19/cov/%s/%s" % (fn, "r=0" if cell["coincident"] else "r>0")

    def hand():
        ls = ls0.clone().requires_grad_(True)
        if fn == "rbf":
            out = RBFCovariance.apply(x1, x2, ls, _pairsq)
        else:
            out = MaternCovariance.apply(x1, x2, ls, NU[fn], lambda a, b: _pairsq(a, b).sqrt())
        gr, = torch.autograd.grad((out * G).sum(), ls)
        return out.detach(), gr
    ok, got = core.guarded(hand)
    if not ok:
        res.update(ok=False, sig=sig + "/raises", detail="%s: %s" % (desc, got))
        return res
    lp = ls0.clone().requires_grad_(True)
    r2 = _pairsq(x1, x2)
    if fn == "rbf":
        ref = torch.exp(-0.5 * r2 / lp ** 2)
    else:
        s = math.sqrt(2 * NU[fn]) * r2.sqrt() / lp          # r does not depend on the lengthscale: differentiable in l also at r = 0
        ref = _matern_poly(NU[fn], s) * torch.exp(-s)
    gref, = torch.autograd.grad((ref * G).sum(), lp)
    ok, why = core.close(got[0], ref.detach(), 1e-12, 1e-14)
    if not ok:
        res.update(ok=False, sig=sig + "/value", detail="%s: forward differs from the plain-torch forward: %s" % (desc, why))
        return res
    ok, why = core.close(got[1], gref, 1e-7, 1e-10)
    if not ok:
        res.update(ok=False, sig=sig + "/lengthscale-grad", detail="%s: hand-written d/d lengthscale differs from autograd of the same forward: %s" % (desc, why))
    if c["seed"] % 31 == 0:
        res["sample"] = dict(case=desc, formula=c["exp"], grad=[float(v) for v in gref.reshape(-1)[:2]])
    return res


def run_covr(torch, gpytorch, c):
    """TLC's exact (dk/dl)/k on geometries with rational scaled distances"""
    from gpytorch.functions import MaternCovariance, RBFCovariance
    D = torch.float64
    inst, exp = c["inst"], c["exp"]
    fn = inst["fn"]
    w = {"rbf": [1.0], "matern05": [1.0], "matern15": [1.0, 1.0, 1.0], "matern25": [1.0, 2.0]}[fn]      # |w|^2 = 2 nu
    x1 = torch.tensor(inst["T1"], dtype=D).unsqueeze(-1) * torch.tensor(w, dtype=D)
    x2 = torch.tensor(inst["T2"], dtype=D).unsqueeze(-1) * torch.tensor(w, dtype=D)
    desc = "%s points %s x %s along %s lengthscale=%s" % (fn, inst["T1"], inst["T2"], w, fr(inst["l"]))
    res = dict(key=["covr", inst], ok=True, nontrivial=True, case=c)
    want = torch.tensor([[float(fr(v)) for v in row] for row in exp["ratio"]], dtype=D)

    def hand():
        ls = torch.tensor([[float(fr(inst["l"]))]], dtype=D, requires_grad=True)
        if fn == "rbf":
            out = RBFCovariance.apply(x1, x2, ls, _pairsq)
        else:
            out = MaternCovariance.apply(x1, x2, ls, NU[fn], lambda a, b: _pairsq(a, b).sqrt())
        rat = torch.zeros_like(out)
        for i in range(out.shape[0]):
            for j in range(out.shape[1]):
                gr, = torch.autograd.grad(out[i, j], ls, retain_graph=True)
                rat[i, j] = gr.reshape(()) / out[i, j].detach()
        return rat.detach()
    ok, got = core.guarded(hand)
    if not ok:
        res.update(ok=False, sig="C19/cov/%s/exact/raises" % fn, detail="%s: %s" % (desc, got))
        return res
    ok, why = core.close(got, want, 1e-9, 1e-12)
    if not ok:
        res.update(ok=False, sig="C19/cov/%s/exact/ratio" % fn, detail="%s: (dk/dl)/k differs from the exact rational value (TLC): %s" % (desc, why))
    if inst["id"] % 8 == 0:
        res["sample"] = dict(exact_instance=desc, ratio=[[str(fr(v)) for v in row] for row in exp["ratio"]])
    return res


def _bind_params(tree, kernel):
    """the tree with its parameters replaced by the kernel's own (differentiable) parameter properties"""
    if tree["t"] == "leaf":
        P = dict(tree["P"])
        P["ls"] = kernel.lengthscale
        return dict(tree, P=P)
    return dict(tree, a=_bind_params(tree["a"], kernel.base_kernel), s=kernel.outputscale)


def run_path(torch, gpytorch, c):
    """(b) fast vs generic branch of the same kernel: values and hyperparameter gradients; both against autograd of the documented formula"""
    from checks import c05, c05_ref as R
    D = torch.float64
    gc = c["cell"]
    cell = dict(gc["cell"])
    forced = gc.get("force")
    g = torch.Generator().manual_seed(c["seed"])
    tree, d_in = R.cell_tree(cell, g)
    xb = [2] if cell["batch"] != "none" else []
    n1, n2 = c05.NS[cell["mode"]]
    x1 = R.sample_inputs(cell["fam"], d_in, xb, n1, g)
    x2 = R.sample_inputs(cell["fam"], d_in, xb, n2, g) if cell["mode"] == "gt" else None
    kernel = R.build_tree(gpytorch.kernels, tree)
    params = [p for _, p in kernel.named_parameters()]
    names = [n for n, _ in kernel.named_parameters()]
    desc = c05.cell_desc(cell) + (" vs forced by %s" % forced if forced else " (generic branch only)") + " seed=%d" % c["seed"]
    res = dict(key=[c["kind"], cell, forced], ok=True, nontrivial=True, case=c)
    sig = "C19/path/%s/%s-%s%s" % (cell["fam"], cell["comp"], cell["mode"], "-ard" if cell["ard"] else "")
    G = [None]
    GX = []
    with torch.no_grad():           # exp(-r) (nu = 1/2) is not differentiable in the inputs at r = 0: those entries carry no weight in the input-gradient pass
        xx2 = x1 if x2 is None else x2
        coincident_free = ((x1.unsqueeze(-2) - xx2.unsqueeze(-3)).abs().sum(-1) != 0).to(D) if cell["fam"] == "matern05" else torch.ones((), dtype=D)

    def ev(force):
        for s in c05._SPIES:
            s.n = 0
        a = x1.clone().requires_grad_(True) if force == "x1grad" else x1
        from contextlib import ExitStack
        with ExitStack() as st:
            if force == "trace":
                st.enter_context(gpytorch.settings.trace_mode(True))
            Kd = (kernel(a) if x2 is None else kernel(a, x2)).to_dense()
        if G[0] is None:
            G[0] = torch.randn(Kd.shape, generator=g, dtype=D)
            G.append(torch.randn(Kd.shape, generator=g, dtype=D) * coincident_free)
        if force == "x1grad":           # the input that requires grad is delivered a gradient too (first pass through the graph)
            GX.append(torch.autograd.grad((Kd * G[1]).sum(), [a], allow_unused=True, retain_graph=True)[0])
        grads = torch.autograd.grad((Kd * G[0]).sum(), params, allow_unused=True)
        return Kd.detach(), [torch.zeros_like(p) if gr is None else gr for p, gr in zip(params, grads)], any(s.n > 0 for s in c05._SPIES)
    runs = {}
    for lab, force in ((("fast", "none"), ("forced", forced)) if forced else (("generic", "none"),)):
        ok, got = core.guarded(ev, force)
        if not ok:
            res.update(ok=False, sig=sig + "/raises", detail="%s: %s branch: %s" % (desc, lab, got))
            return res
        runs[lab] = got
        want_fast = lab == "fast"
        if got[2] != want_fast:
            res["drift"] = "Grad.tla predicts the %s branch for %s, the code %s the hand-written Function" % ("fast" if want_fast else "generic", desc, "called" if got[2] else "did not call")
    # autograd of the documented formula through the kernel's own parameter transforms
    bound = _bind_params(tree, kernel)
    want = R.ref_tree(bound, x1, x1 if x2 is None else x2)
    gw = torch.autograd.grad((want * G[0]).sum(), params, allow_unused=True)
    gw = [torch.zeros_like(p) if gr is None else gr for p, gr in zip(params, gw)]
    def vclose(a, b):
        """values: 1e-9; coincident points of the exponential kernel (kink at r = 0, sqrt of a rounded squared distance ~ 1e-8): 1e-7 on the diagonal"""
        if cell["fam"] == "matern05" and x2 is None:
            dm = torch.eye(a.shape[-1], dtype=torch.bool)
            ok, why = core.close(a.masked_fill(dm, 0.0), b.masked_fill(dm, 0.0), 1e-9, 1e-12)
            return (ok, why) if not ok else core.close(a.masked_fill(~dm, 0.0), b.masked_fill(~dm, 0.0), 1e-7, 1e-12)
        return core.close(a, b, 1e-9, 1e-12)
    # nu = 1/2 with x1 = x2: the n coincident entries are off by ~1e-8 each (see vclose) and enter every gradient sum with weight |G_ii|
    kink_atol = 3e-7 * float(G[0].abs().sum()) if (cell["fam"] == "matern05" and x2 is None) else 0.0
    for lab, (Kd, grads, _) in runs.items():
        ok, why = vclose(Kd, want.detach())
        if not ok:
            res.update(ok=False, sig=sig + "/value-vs-formula", detail="%s: %s branch value differs from the documented formula: %s" % (desc, lab, why))
            return res
        for n, a, b in zip(names, grads, gw):
            ok, why = core.close(a, b, 1e-7, 1e-10 + kink_atol)
            if not ok:
                res.update(ok=False, sig=sig + "/grad-vs-formula/" + n.split(".")[-1], detail="%s: %s branch gradient of %s differs from autograd of the documented formula: %s" % (desc, lab, n, why))
                return res
    if forced == "x1grad":
        # x1 requires grad (x2, if given, does not): the gradient delivered for it must exist and be the derivative of the documented formula
        ax = x1.clone().requires_grad_(True)
        wantx, = torch.autograd.grad((R.ref_tree(bound, ax, ax if x2 is None else x2) * G[1]).sum(), [ax])
        if (not GX or GX[0] is None) and float(wantx.abs().max()) > 1e-10:
            res.update(ok=False, sig=sig + "/input-grad-missing/x1", detail="%s: x1 requires grad and NO gradient (None) is delivered for it; the documented formula has max |d/dx1| = %.3g" % (desc, float(wantx.abs().max())))
            return res
        ok, why = core.close(GX[0] if (GX and GX[0] is not None) else torch.zeros_like(wantx), wantx, 1e-7, 1e-10)
        if not ok:
            res.update(ok=False, sig=sig + "/input-grad-vs-formula/x1", detail="%s: gradient delivered for x1 differs from autograd of the documented formula: %s" % (desc, why))
            return res
    if forced:
        ok, why = vclose(runs["fast"][0], runs["forced"][0])
        if not ok:
            res.update(ok=False, sig=sig + "/fast-vs-generic/value", detail="%s: values of the two branches differ: %s" % (desc, why))
            return res
        gt = 1e-7 if (cell["fam"] == "matern05" and x2 is None) else 1e-9       # the coincident entries above enter the gradient sums
        for n, a, b in zip(names, runs["fast"][1], runs["forced"][1]):
            ok, why = core.close(a, b, gt, 1e-12 + kink_atol)
            if not ok:
                res.update(ok=False, sig=sig + "/fast-vs-generic/grad-" + n.split(".")[-1], detail="%s: gradient of %s differs between the two branches: %s" % (desc, n, why))
                return res
    return res


# ---- log normal cdf --------------------------------------------------------------------------------------------------
def _branch(z):
    return "near_zero" if z * z < 0.04 else "small" if z < -1 else "ordinary"


def run_cdf(torch, gpytorch, c):
    """(c) backward = derivative of what forward computes (finite differences inside one branch) and = phi/Phi"""
    import mpmath
    from gpytorch.functions import log_normal_cdf
    D = torch.float64
    mpmath.mp.dps = 40
    out = []
    zs = [n / 20.0 for n, _ in c["pts"]]
    z = torch.tensor(zs, dtype=D, requires_grad=True)
    g = torch.Generator().manual_seed(c["seed"])
    # ONE graph, three passes (BackwardOps.tla: grad(ones) -> grad(random) -> grad(ones)); the comparisons below use the LAST pass
    up = torch.randn(len(zs), generator=g, dtype=D)

    def three():
        out_ = log_normal_cdf(z)
        g1 = torch.autograd.grad(out_.sum(), z, retain_graph=True)[0]
        g2 = torch.autograd.grad(out_, z, grad_outputs=up, retain_graph=True)[0]
        g3 = torch.autograd.grad(out_.sum(), z, retain_graph=True)[0]
        return g1, g2, g3
    ok, got = core.guarded(three)
    if not ok:
        return dict(key=["cdf", c["pts"]], ok=False, sig="C19/log_normal_cdf/raises", detail="z=%s: %s" % (zs, got), case=c)
    grad = got[2]
    ok2, got2 = True, got[1]
    ok3, why3 = core.close(got[0], got[2], 1e-13, 0.0)
    if not ok3:
        k3 = int((got[0] - got[2]).abs().argmax())
        return dict(key=["cdf", c["pts"]], ok=False, nontrivial=True, sig="C19/log_normal_cdf/%s/later-pass" % _branch(zs[k3]), case=c,
                    detail="z=%s: the third backward pass through one graph delivers %.12g, the first %.12g (same upstream)" % (zs[k3], float(got[2][k3]), float(got[0][k3])))
    h = 1e-3
    for k, (n, exp) in enumerate(c["pts"]):
        zk = zs[k]
        res = dict(key=["cdf", n], ok=True, nontrivial=True, case=dict(c, pts=[[n, exp]]))
        br = exp["fwd"]
        if _branch(zk) != br:
            return dict(machinery="C19: Grad.tla classifies z=%s as %s, the harness as %s" % (zk, br, _branch(zk)))
        sig = "C19/log_normal_cdf/%s" % br
        rt, rt_true = cdf_tols(zk, br)
        gk = float(grad[k])
        if not ok2 or abs(float(got2[k]) - float(up[k]) * gk) > 1e-12 * max(1.0, abs(gk)):
            res.update(ok=False, sig=sig + "/upstream", detail="z=%s: backward does not scale with the upstream gradient" % zk)
            out.append(res)
            continue
        # finite differences of the forward, stencil inside the branch of z
        offs = None
        for cand in ((-2, -1, 1, 2), (1, 2, 3, 4), (-4, -3, -2, -1)):
            if all(_branch(zk + o * h) == br for o in cand):
                offs = cand
                break
        if offs is not None:
            with torch.no_grad():
                f = log_normal_cdf(torch.tensor([zk] + [zk + o * h for o in offs], dtype=D)).tolist()
            if offs == (-2, -1, 1, 2):
                fd = (8 * (f[3] - f[2]) - (f[4] - f[1])) / (12 * h)
            elif offs == (1, 2, 3, 4):
                fd = (-25 * f[0] + 48 * f[1] - 36 * f[2] + 16 * f[3] - 3 * f[4]) / (12 * h)
            else:
                fd = (25 * f[0] - 48 * f[4] + 36 * f[3] - 16 * f[2] + 3 * f[1]) / (12 * h)
            noise = 50 * 2.2e-16 * max(1.0, abs(f[0])) / h
            if abs(gk - fd) > rt * abs(fd) + noise + 1e-10:
                res.update(ok=False, sig=sig + "/backward-vs-forward", detail="z=%s (%s branch): backward %.12g, finite differences of the forward %.12g" % (zk, br, gk, fd))
                out.append(res)
                continue
        zz = mpmath.mpf(zk)
        true = float(mpmath.npdf(zz) / mpmath.ncdf(zz))
        if abs(gk - true) > rt_true * abs(true) + 1e-12:
            res.update(ok=False, sig=sig + "/backward-vs-phi-over-Phi", detail="z=%s (%s branch): backward %.12g, phi/Phi %.12g" % (zk, br, gk, true))
        if n % 80 == 0:
            res["sample"] = dict(z=zk, branch=br, backward=gk, phi_over_Phi=true)
        out.append(res)
    return out


# ---- natural parameterisations ---------------------------------------------------------------------------------------
def _loss(torch, kind, mean, cov, A, B, w):
    """a scalar function of (mean, covariance), symmetric in the covariance; batch entries summed"""
    M = mean.shape[-1]
    if kind == "linear":
        return ((w * mean).sum(-1) + (B * cov).sum((-1, -2))).sum()
    if kind == "kl":            # KL(q || N(0, I))
        return (0.5 * (cov.diagonal(dim1=-1, dim2=-2).sum(-1) + (mean * mean).sum(-1) - M - torch.logdet(cov))).sum()
    quad = (mean.unsqueeze(-2) @ A @ mean.unsqueeze(-1)).squeeze(-1).squeeze(-1)
    return (quad * torch.logdet(cov) + (B * (cov @ cov)).sum((-1, -2)) + (w * mean).sum(-1) ** 2).sum()


def _lower_with_CtC(torch, P):
    """lower triangular C (positive diagonal) with C^T C = P"""
    Lp = torch.linalg.cholesky(P.flip(-1, -2))
    return Lp.transpose(-1, -2).flip(-1, -2)


def run_nat(torch, gpytorch, c):
    """(d) the gradient that reaches natural_vec / natural_mat is the gradient w.r.t. the expectation parameters (mu, Sigma + mu mu^T)"""
    from checks.c05_ref import U
    D = torch.float64
    cell = c["cell"]
    M, bs = cell["M"], ([2] if cell["batch"] == "b2" else [])
    g = torch.Generator().manual_seed(c["seed"])
    Cm = torch.tril(U(g, -0.6, 0.6, *bs, M, M), -1) + torch.diag_embed(U(g, 0.7, 1.6, *bs, M))
    t1 = U(g, -1.5, 1.5, *bs, M)
    A0 = U(g, -1, 1, *bs, M, M)
    A = A0 @ A0.transpose(-1, -2) + torch.eye(M, dtype=D)
    B0 = U(g, -1, 1, *bs, M, M)
    B = 0.5 * (B0 + B0.transpose(-1, -2))
    w = U(g, -1, 1, *bs, M)
    second = "natural_mat" if cell["dist"] == "natural" else "natural_tril_mat"
    wants = c["exp"]["wants"] if isinstance(c.get("exp"), dict) else ["natural_vec", second]
    if sorted(wants) != sorted({"both": ["natural_vec", second], "vec": ["natural_vec"], "mat": [second]}[cell.get("train", "both")]):
        return dict(machinery="C19: Grad.tla lets %s train for train=%s" % (wants, cell.get("train")))
    if any(v != "u . dF/d input" for v in c["exp"]["delivers"].values()) if isinstance(c.get("exp"), dict) else False:
        return dict(machinery="C19: Grad.tla does not expect the complete derivative for every input that trains: %s" % c["exp"])
    desc = "%s M=%d batch=%s loss=%s%s seed=%d" % (cell["dist"], M, bs, cell["loss"], "" if len(wants) == 2 else " only %s requires grad" % wants[0], c["seed"])
    res = dict(key=["nat", cell], ok=True, nontrivial=M >= 2, case=c)
    sig = "C19/%s/%s" % (cell["dist"], cell["loss"])

    def hand():
        if cell["dist"] == "natural":
            vd = gpytorch.variational.NaturalVariationalDistribution(M, batch_shape=torch.Size(bs)).to(D)
            vd.natural_vec.data.copy_(t1)
            vd.natural_mat.data.copy_(-0.5 * Cm @ Cm.transpose(-1, -2))
            mat = vd.natural_mat
        else:
            vd = gpytorch.variational.TrilNaturalVariationalDistribution(M, batch_shape=torch.Size(bs)).to(D)
            vd.natural_vec.data.copy_(t1)
            vd.natural_tril_mat.data.copy_(Cm)
            mat = vd.natural_tril_mat
        vd.natural_vec.requires_grad_("natural_vec" in wants)            # a parameter that does not train is frozen
        mat.requires_grad_(second in wants)
        q = vd()
        mean, cov = q.mean, q.covariance_matrix
        _loss(torch, cell["loss"], mean, cov, A, B, w).backward()
        return mean.detach(), cov.detach(), None if vd.natural_vec.grad is None else vd.natural_vec.grad.clone(), None if mat.grad is None else mat.grad.clone()
    ok, got = core.guarded(hand)
    if not ok:
        res.update(ok=False, sig=sig + "/raises", detail="%s: %s" % (desc, got))
        return res
    mean, cov, g1, g2 = got
    for n, gv in (("natural_vec", g1), (second, g2)):
        if (gv is None) != (n not in wants):
            res.update(ok=False, sig=sig + "/%s-grad-%s" % (n, "missing" if gv is None else "for-frozen"), detail="%s: %s" % (desc, "no gradient reaches %s although it requires grad" % n if gv is None else "%s is frozen and received a .grad" % n))
            return res
    prec = Cm @ Cm.transpose(-1, -2) if cell["dist"] == "natural" else Cm.transpose(-1, -2) @ Cm
    S = torch.linalg.inv(prec)
    mu = (S @ t1.unsqueeze(-1)).squeeze(-1)
    for lab, a, b in (("mean", mean, mu), ("covariance", cov, S)):
        ok, why = core.close(a, b, 1e-9, 1e-12)
        if not ok:
            res.update(ok=False, sig=sig + "/forward-" + lab, detail="%s: %s of q differs from (-2 theta2)^-1 [theta1]: %s" % (desc, lab, why))
            return res
    e1 = mu.clone().requires_grad_(True)
    e2 = (S + mu.unsqueeze(-1) @ mu.unsqueeze(-2)).clone().requires_grad_(True)
    r1, r2 = torch.autograd.grad(_loss(torch, cell["loss"], e1, e2 - e1.unsqueeze(-1) @ e1.unsqueeze(-2), A, B, w), (e1, e2))
    r2 = 0.5 * (r2 + r2.transpose(-1, -2))
    if g1 is not None:
        ok, why = core.close(g1, r1, 1e-7, 1e-10)
        if not ok:
            res.update(ok=False, sig=sig + "/natural_vec-grad", detail="%s: gradient delivered to natural_vec is not d loss / d eta1 (eta1 = mu): %s" % (desc, why))
            return res
    if g2 is None:
        pass
    elif cell["dist"] == "natural":
        ok, why = core.close(g2, r2, 1e-7, 1e-10)
        if not ok:
            res.update(ok=False, sig=sig + "/natural_mat-grad", detail="%s: gradient delivered to natural_mat is not d loss / d eta2 (eta2 = Sigma + mu mu^T): %s" % (desc, why))
    else:
        # the tangent of the factor C (C^T C = -2 theta2) along d theta2 = d loss / d eta2: lower triangular solution of dC^T C + C^T dC = -2 G
        lhs = g2.transpose(-1, -2) @ Cm + Cm.transpose(-1, -2) @ g2
        ok, why = core.close(lhs, -2 * r2, 1e-7, 1e-10)
        low = bool((torch.triu(g2, 1).abs() <= 1e-12).all())
        if not (ok and low):
            res.update(ok=False, sig=sig + "/natural_tril_mat-grad", detail="%s: gradient delivered to natural_tril_mat is not the tangent of C along the natural gradient: %s%s" % (desc, why, "" if low else " (not lower triangular)"))
    if c["seed"] % 13 == 0:
        res["sample"] = dict(case=desc, d_loss_d_eta1=[float(v) for v in r1.reshape(-1)[:3]])
    return res


def run_natx(torch, gpytorch, c):
    """TLC's exact instances through the real variational distributions"""
    D = torch.float64
    inst, exp = c["inst"], c["exp"]
    M = len(inst["t1"])
    Cm = torch.tensor(inst["Cm"], dtype=D)
    t1, gmu, GS = torch.tensor(inst["t1"], dtype=D), torch.tensor(inst["gmu"], dtype=D), torch.tensor(inst["GS"], dtype=D)
    tril = inst["kind"] == "tril"
    desc = "%s C=%s natural_vec=%s loss = %s.mu + <%s, Sigma> train=%s" % ("tril" if tril else "natural", inst["Cm"], inst["t1"], inst["gmu"], inst["GS"], inst["train"])
    res = dict(key=["natx", inst], ok=True, nontrivial=M >= 2, case=c)
    sig = "C19/%s/exact" % ("tril" if tril else "natural")

    def vec(v):
        return torch.tensor([float(fr(x)) for x in v], dtype=D)

    def mat(m):
        return torch.tensor([[float(fr(x)) for x in row] for row in m], dtype=D)

    def hand():
        if tril:
            vd = gpytorch.variational.TrilNaturalVariationalDistribution(M).to(D)
            vd.natural_tril_mat.data.copy_(Cm)
            p2 = vd.natural_tril_mat
        else:
            vd = gpytorch.variational.NaturalVariationalDistribution(M).to(D)
            vd.natural_mat.data.copy_(-0.5 * Cm @ Cm.T)
            p2 = vd.natural_mat
        vd.natural_vec.data.copy_(t1)
        vd.natural_vec.requires_grad_("vec" in exp["wants"])
        p2.requires_grad_("mat" in exp["wants"])
        q = vd()
        mean, cov = q.mean, q.covariance_matrix
        ((gmu * mean).sum() + (GS * cov).sum()).backward()
        return mean.detach(), cov.detach(), None if vd.natural_vec.grad is None else vd.natural_vec.grad.clone(), None if p2.grad is None else p2.grad.clone()
    ok, got = core.guarded(hand)
    if not ok:
        res.update(ok=False, sig=sig + "/raises", detail="%s: %s" % (desc, got))
        return res
    if not exp["wants"]:
        return dict(machinery="C19: exact instance %s lets nothing train" % inst["id"])
    for n, gv in (("vec", got[2]), ("mat", got[3])):
        if n in exp["wants"] and gv is None:
            res.update(ok=False, sig=sig + "/%s-grad-missing" % ("natural_vec" if n == "vec" else "natural_tril_mat" if tril else "natural_mat"), detail="%s: no gradient reaches the parameter although it requires grad (train=%s)" % (desc, inst["train"]))
            return res
    checks = [("mean", got[0], vec(exp["mu"])), ("covariance", got[1], mat(exp["S"]))]
    if "vec" in exp["wants"]:
        checks.append(("natural_vec-grad", got[2], vec(exp["g1"])))
    if "mat" in exp["wants"]:
        checks.append(("natural_tril_mat-grad", got[3], mat(exp["gtril"])) if tril else ("natural_mat-grad", got[3], mat(exp["g2"])))
    for lab, a, b in checks:
        ok, why = core.close(a, b, 1e-9, 1e-11)
        if not ok:
            res.update(ok=False, sig=sig + "/" + lab, detail="%s: %s differs from the exact value computed by TLC: %s" % (desc, lab, why))
            return res
    if inst["id"] % 6 == 0:
        res["sample"] = dict(exact_instance=desc, d_loss_d_eta1=[str(fr(x)) for x in exp["g1"]])
    return res


def run_ciq(torch, gpytorch, c):
    """(f) _NgdInterpTerms: gradients w.r.t. the interpolation term and w.r.t. the expectation parameters"""
    from gpytorch.variational.ciq_variational_strategy import _NgdInterpTerms
    from checks.c05_ref import U
    D = torch.float64
    cell = c["cell"]
    M, bs, n = cell["M"], ([2] if cell["batch"] == "b2" else []), 4
    g = torch.Generator().manual_seed(c["seed"])
    Cm = torch.tril(U(g, -0.5, 0.5, *bs, M, M), -1) + torch.diag_embed(U(g, 0.8, 1.5, *bs, M))
    prec = Cm @ Cm.transpose(-1, -2)
    t1 = U(g, -1, 1, *bs, M)
    it0 = U(g, -1, 1, *bs, M, n)
    gm, gv, gk = U(g, -1, 1, *bs, n), U(g, -1, 1, *bs, n), U(g, 0.5, 1.5, *bs)
    names = ("interp_term", "natural_vec", "natural_mat")
    wants = [n for n in names if n in cell.get("rg", names)]
    if isinstance(c.get("exp"), dict) and (sorted(c["exp"]["wants"]) != sorted(wants) or any(v != "u . dF/d input" for v in c["exp"]["delivers"].values())):
        return dict(machinery="C19: Grad.tla expectation %s does not match rg=%s" % (c["exp"], wants))
    desc = "M=%d batch=%s requires_grad=%s seed=%d" % (M, bs, wants, c["seed"])
    res = dict(key=["ciq", cell], ok=True, nontrivial=True, case=c)
    sig = "C19/ciq"

    def hand():
        it = it0.clone().requires_grad_("interp_term" in wants)
        nv = t1.clone().requires_grad_("natural_vec" in wants)
        nm = (-0.5 * prec).clone().requires_grad_("natural_mat" in wants)
        with gpytorch.settings.cg_tolerance(1e-14), gpytorch.settings.eval_cg_tolerance(1e-14), gpytorch.settings.max_cg_iterations(200):
            mean, var, kl = _NgdInterpTerms.apply(it, nv, nm)
            tot = (gm * mean).sum() + (gv * var).sum() + (gk * kl).sum()
            grads = dict(zip(wants, torch.autograd.grad(tot, [t for n, t in zip(names, (it, nv, nm)) if n in wants], allow_unused=True)))
        return mean.detach(), var.detach(), grads
    ok, got = core.guarded(hand)
    if not ok:
        res.update(ok=False, sig=sig + "/raises", detail="%s: %s" % (desc, got))
        return res
    S = torch.linalg.inv(prec)
    mu = (S @ t1.unsqueeze(-1)).squeeze(-1)
    it = it0.clone().requires_grad_(True)
    e1 = mu.clone().requires_grad_(True)
    e2 = (S + mu.unsqueeze(-1) @ mu.unsqueeze(-2)).clone().requires_grad_(True)
    Sg = e2 - e1.unsqueeze(-1) @ e1.unsqueeze(-2)
    mean = (it.transpose(-1, -2) @ e1.unsqueeze(-1)).squeeze(-1)
    var = (it * (Sg @ it)).sum(-2)
    kl = 0.5 * (-torch.logdet(Sg) + Sg.diagonal(dim1=-1, dim2=-2).sum(-1) + (e1 * e1).sum(-1) - M)
    ok, why = core.close(got[0], mean.detach(), CIQ_RTOL, 1e-9)
    ok2, why2 = core.close(got[1], var.detach(), CIQ_RTOL, 1e-9)
    if not (ok and ok2):
        res.update(ok=False, sig=sig + "/forward", detail="%s: interpolated mean / variance differ from k^T m, k^T S k: %s %s" % (desc, why, why2))
        return res
    r = torch.autograd.grad((gm * mean).sum() + (gv * var).sum() + (gk * kl).sum(), (it, e1, e2))
    r = (r[0], r[1], 0.5 * (r[2] + r[2].transpose(-1, -2)))
    for lab, b in zip(("interp_term", "natural_vec (d/d eta1)", "natural_mat (d/d eta2)"), r):
        if lab.split(" ")[0] not in wants:
            continue
        a = got[2][lab.split(" ")[0]]
        if a is None:
            res.update(ok=False, sig=sig + "/grad-missing-" + lab.split(" ")[0], detail="%s: no gradient (None) is delivered for %s although it requires grad" % (desc, lab))
            return res
        ok, why = core.close(a, b, CIQ_RTOL, 1e-9)
        if not ok:
            res.update(ok=False, sig=sig + "/grad-" + lab.split(" ")[0], detail="%s: gradient w.r.t. %s: %s" % (desc, lab, why))
            return res
    return res


def run_pred(torch, gpytorch, c):
    """(e) d (posterior mean | variance) / d test inputs vs central finite differences"""
    from checks.c05_ref import U
    D = torch.float64
    cell = c["cell"]
    K = gpytorch.kernels
    g = torch.Generator().manual_seed(c["seed"])
    n, d, ns = 8, 2, 3
    X, y, Xs = U(g, -1, 1, n, d), torch.randn(n, generator=g, dtype=D), U(g, -0.9, 0.9, ns, d)
    ard = cell["kern"].endswith("_ard")
    base = cell["kern"].split("_")[0]
    kw = {"ard_num_dims": d} if ard else {}
    desc = "%s fast_pred_var=%s d %s / d x* seed=%d" % (cell["kern"], cell["fpv"], cell["what"], c["seed"])
    res = dict(key=["pred", cell], ok=True, nontrivial=True, case=c)
    sig = "C19/pred/%s/%s/%s" % (cell["kern"], "fast_pred_var" if cell["fpv"] else "exact", cell["what"])

    class Mdl(gpytorch.models.ExactGP):
        def __init__(s_, x, yy, l):
            super().__init__(x, yy, l)
            s_.mean_module = gpytorch.means.ConstantMean()
            s_.covar_module = K.ScaleKernel(K.RBFKernel(**kw) if base == "rbf" else K.MaternKernel(nu={"matern15": 1.5, "matern25": 2.5}[base], **kw))

        def forward(s_, x):
            return gpytorch.distributions.MultivariateNormal(s_.mean_module(x), s_.covar_module(x))

    def make():
        lik = gpytorch.likelihoods.GaussianLikelihood().to(D)
        m = Mdl(X, y, lik).to(D)
        lik.noise = torch.tensor([0.15], dtype=D)
        m.covar_module.outputscale = torch.tensor(1.3, dtype=D)
        m.covar_module.base_kernel.lengthscale = torch.tensor([[0.7, 1.1]] if ard else [[0.8]], dtype=D)
        m.mean_module.constant = torch.tensor(0.3, dtype=D)
        m.eval()
        lik.eval()
        return m

    def value(m, xs):
        with gpytorch.settings.fast_pred_var(cell["fpv"]):
            post = m(xs)
            return post.mean if cell["what"] == "mean" else post.variance

    def hand():
        m = make()
        xs = Xs.clone().requires_grad_(True)
        out = value(m, xs)
        wv = torch.linspace(0.5, 1.5, ns, dtype=D)
        gr, = torch.autograd.grad((out * wv).sum(), xs)
        h = 1e-4
        fd = torch.zeros_like(Xs)
        m2 = make()
        with torch.no_grad():
            for i in range(ns):
                for k in range(d):
                    vals = []
                    for o in (-2, -1, 1, 2):
                        xp = Xs.clone()
                        xp[i, k] += o * h
                        vals.append(float((value(m2, xp) * wv).sum()))
                    fd[i, k] = (8 * (vals[2] - vals[1]) - (vals[3] - vals[0])) / (12 * h)
        return gr, fd
    ok, got = core.guarded(hand)
    if not ok:
        res.update(ok=False, sig=sig + "/raises", detail="%s: %s" % (desc, got))
        return res
    ok, why = core.close(got[0], got[1], 1e-6, 1e-9)
    if not ok:
        res.update(ok=False, sig=sig + "/grad", detail="%s: autograd gradient differs from finite differences: %s" % (desc, why))
    return res


def run_ind(torch, gpytorch, c):
    """SGPR: InducingPointKernel evaluates base_kernel(x, Z) (and base_kernel(Z)) with ONLY the inducing points Z requiring grad;
    d (marginal log likelihood) / d Z against 4th-order central differences of the same objective"""
    from checks.c05_ref import U
    D = torch.float64
    cell = c["cell"]
    K = gpytorch.kernels
    g = torch.Generator().manual_seed(c["seed"])
    n, d, m = 12, 2, 3
    X = U(g, -1, 1, n, d)
    y = torch.sin(2.0 * X[:, 0]) + 0.5 * X[:, 1] + 0.1 * torch.randn(n, generator=g, dtype=D)
    Z0 = torch.tensor([[-0.6, -0.5], [0.5, -0.4], [0.0, 0.6]], dtype=D) + U(g, -0.15, 0.15, m, d)      # well separated: K_ZZ well conditioned, finite differences accurate
    ard = cell["kern"].endswith("_ard")
    fam = cell["kern"].split("_")[0]
    kw = {"ard_num_dims": d} if ard else {}
    desc = "SGPR over %s%s, d mll / d inducing_points seed=%d" % (cell["kern"], " in ScaleKernel" if cell["wrap"] == "scale" else "", c["seed"])
    res = dict(key=["ind", cell], ok=True, nontrivial=True, case=c)
    sig = "C19/ind/%s/%s" % (cell["kern"], cell["wrap"])

    class Mdl(gpytorch.models.ExactGP):
        def __init__(s_, Z, lik):
            super().__init__(X, y, lik)
            s_.mean_module = gpytorch.means.ZeroMean()
            base = K.RBFKernel(**kw) if fam == "rbf" else K.MaternKernel(nu=NU[fam], **kw)
            s_.base = base
            inner = K.ScaleKernel(base) if cell["wrap"] == "scale" else base
            s_.covar_module = K.InducingPointKernel(inner, inducing_points=Z.clone(), likelihood=lik)

        def forward(s_, x):
            return gpytorch.distributions.MultivariateNormal(s_.mean_module(x), s_.covar_module(x))

    def mll_of(Z, grad):
        lik = gpytorch.likelihoods.GaussianLikelihood().to(D)
        mdl = Mdl(Z, lik).to(D)
        lik.noise = torch.tensor([0.2], dtype=D)
        mdl.base.lengthscale = torch.tensor([[0.7, 1.1]] if ard else [[0.8]], dtype=D)
        if cell["wrap"] == "scale":
            mdl.covar_module.base_kernel.outputscale = torch.tensor(1.3, dtype=D)
        mdl.train()
        lik.train()
        with gpytorch.settings.cholesky_jitter(double_value=1e-8):
            val = gpytorch.mlls.ExactMarginalLogLikelihood(lik, mdl)(mdl(X), y)
            if not grad:
                return float(val)
            gz, = torch.autograd.grad(val, [mdl.covar_module.inducing_points], allow_unused=True)
        return gz

    def hand():
        gz = mll_of(Z0, True)
        h = 1e-3
        fd = torch.zeros_like(Z0)
        with torch.no_grad():
            for i in range(m):
                for k in range(d):
                    vals = []
                    for o in (-2, -1, 1, 2):
                        Zp = Z0.clone()
                        Zp[i, k] += o * h
                        vals.append(mll_of(Zp, False))
                    fd[i, k] = (8 * (vals[2] - vals[1]) - (vals[3] - vals[0])) / (12 * h)
        return gz, fd
    ok, got = core.guarded(hand)
    if not ok:
        res.update(ok=False, sig=sig + "/raises", detail="%s: %s" % (desc, got))
        return res
    if got[0] is None:
        res.update(ok=False, sig=sig + "/grad-missing", detail="%s: no gradient reaches the inducing points" % desc)
        return res
    ok, why = core.close(got[0], got[1], IND_RTOL[fam], 1e-8)
    if not ok:
        res.update(ok=False, sig=sig + "/grad", detail="%s: autograd gradient differs from finite differences: %s" % (desc, why))
    return res


# ---------------------------------------------------------------------------------------------
def _plain(v):
    if isinstance(v, dict):
        return {k: _plain(x) for k, x in v.items()}
    if isinstance(v, (tuple, list)):
        return [_plain(x) for x in v]
    if isinstance(v, (set, frozenset)):
        return sorted(_plain(x) for x in v)
    if isinstance(v, bool) or isinstance(v, int):
        return v
    return str(v)


def run(ck):
    import collections
    thorough = ck.tier == "thorough"
    core.setup_torch()
    rnd = random.Random(ck.seed)
    ck.rule = ("cells = the branch lattice of Grad.tla: covariance Function x nu x coincident points x batch x upstream; every fast cell of the kernel lattice paired with a forcing of the "
               "generic branch; LogNormalCDF grid z = n/20 in [-12, 8] + far tail with the forward/backward masks; natural / tril-natural x size x batch x loss; CIQ; prediction gradients; "
               "call-configuration lattice of KernelCalls.tla (every valid cell x every forcing; geometry of the points: unit / shared rows of two tensors / far offset 1e3..1e5 with > 25 rows); every maximal history (<= 3 passes; upstream gradients x grad / accumulate / release, "
               "Jacobian rows) of the backward machine of BackwardOps.tla x Function x route x input class; the same machine (<= 2 passes) x every other non-empty subset of the inputs "
               "requiring grad (refused calls of the bare covariance Functions included); nat / ciq cells x training subset; every call cell x every subset of {x1, x2} requiring grad; SGPR cells; "
               "exact = rational instances evaluated by TLC; non-trivial = a cell with r = 0 entries / batch / random upstream, a forced pair, every grid point, M >= 2, every call cell, "
               "a history with >= 2 passes")
    ck.assumptions = [
        "level 'other': gradients are compared on seeded float64 inputs; exhaustive only over the branch lattice; exact only on the rational instances",
        "(a) 1e-7 relative on d/d lengthscale; the reference forward takes r from the inputs and divides by the lengthscale (identical function, differentiable in l also at r = 0)",
        "(b) fast vs generic: 1e-9 on values (1e-7 on k(x, x) of the exponential kernel nu = 1/2, whose generic branch takes the root of a rounded squared distance; its gradients then at 1e-7 when x1 = x2) and on the gradients of every raw hyperparameter; both against autograd of the documented formula at 1e-7; ARD with more than one lengthscale has "
        "only the generic branch and is compared with the formula only",
        "(c) log_normal_cdf: backward vs 4th-order finite differences (h = 1e-3) of the float64 forward inside one branch and vs phi/Phi (mpmath, 40 digits): 1e-7 relative for z >= -1 and "
        "for z < -5; for -2.5 <= z < -1 forward and backward both use the rational erfcx approximation (value error up to 2e-3, C13): backward vs derivative of the forward 1e-2 "
        "(measured 6.9e-3 at z -> -1), backward vs phi/Phi 2e-3 (the accuracy C13 states); 1e-4 for -5 <= z < -2.5",
        "(d) the gradient w.r.t. eta2 is taken w.r.t. the symmetric matrix (symmetrised); for the tril parameterisation the delivered gradient is the tangent dC of the factor C (C^T C = -2 theta2) "
        "along d theta2 = d loss / d eta2, characterised by dC^T C + C^T dC = -2 G with dC lower triangular",
        "(e) 1e-6 relative against 4th-order central differences (h = 1e-4), test points distinct from the training points",
        "(g) call-configuration lattice: one seeded instance per cell (two in the thorough tier), lengthscales / outputscales pairwise distinct over batch and dimensions; values 1e-9, "
        "gradients of raw_lengthscale and raw_outputscale 1e-7 against autograd of the documented formula (r = 0 entries constant in every parameter), forcing none vs every other forcing 1e-9; "
        "the nu = 1/2 exception of (b) applies when x1 equals x2; every library hyperparameter gradient is taken as the SECOND pass through its graph; the FIRST pass (another random upstream) "
        "delivers the gradients of the input tensors that require grad, compared at 1e-7 with autograd of the documented formula; which branch ran is observed with a spy on the Function "
        "(a mismatch with KernelCalls.tla is MODEL-DRIFT)",
        "(g) geometry of the inputs (KernelCalls.tla: geom): 'coin' = two different tensors sharing rows (r = 0 exactly on a diagonal and an off-diagonal position; one pair agreeing in the first coordinate "
        "only: r = 0 in one per-dimension kernel of last_dim_is_batch), on every call form with two tensors incl. diag=True: every gradient finite and equal to the reference, whose r = 0 entries are "
        "constant in every parameter and input (zero sub-gradient; nu = 1/2 input gradients carry no weight there); 'far' = points 10^e + u, e in {3, 4, 5} (every combination of the other fields meets every e "
        "as d runs over 1..3), u a jittered grid per coordinate (gaps >= 1 / (n1 + n2)), 27-29 rows on a side: values 1e-11 (+ 1e-12) against the closed form on the CENTRED points u (x - 10^e is exact), "
        "plus the first-order effect of the rounding of the points handed in (u_r |x| / l per scaled coordinate, u_r = 2^-53; granted x 2: 4 u_r 10^e / l_min on values, 8 u_r 10^e / l_min^2 sum|upstream| on "
        "gradients) - LINEAR in 10^e / l: RBF divides by the lengthscale before sq_dist centres and uses this allowance (measured 1.5 u_r 10^e / l), the Matern paths centre first (measured 2e-14); "
        "an un-centred quadratic expansion (error u_r (10^e / l)^2) is 10^e / l times outside; geometries other than 'unit' only for plain kernels and the batch pairs %r; shared rows are not combined with "
        "> 25 rows (torch.cdist then returns sqrt(rounding) ~ 1e-8 instead of 0: the kink of nu = 1/2)" % (KC_GEO_BATCH[ck.tier],),
        "(i) requires-grad subsets: a gradient of None is accepted for an input that requires grad exactly when the reference derivative is zero (diag of k(x, x)); exp(-r) (nu = 1/2) is not differentiable "
        "in the inputs at r = 0: upstream gradients of input-gradient passes carry no weight on coincident entries there; for nu = 3/2, 5/2 the coincident entries are stationary points (reference: safe root); "
        "the bare covariance Functions may refuse (raise) a call in which x1 or x2 requires grad - a call they accept must deliver the complete derivative to every input; a frozen parameter is "
        "requires_grad_(False) on the public object and a constant tensor for Function.apply; SGPR: d mll / d inducing points against 4th-order central differences (h = 1e-3) at 1e-6 "
        "(1e-5 for nu = 3/2), inducing points well separated, nu = 1/2 not in the SGPR lattice (kinks)",
        "(h) backward machine: per pass (i) the delivered vector-Jacobian product against the derivative of the forward at the tolerances of (a), (c), (d), (f), (ii) against the same upstream "
        "through a fresh graph at 1e-12, (iii) saved tensors and tensor attributes of the context bit-identical to their state after the forward, (iv) the upstream tensors untouched; a pass "
        "recovered from an accumulated .grad is granted the rounding of the subtraction; upstream gradients of outputs that are lower triangular by construction are masked to the triangle",
        "(f) _NgdInterpTerms is called directly (M <= 3, CG tolerance 1e-14) and compared at 1e-4 only: its solves go through linear_operator's linear_cg, which returns 1e-15 accurate "
        "solutions on most and 5e-6 accurate solutions on some of these 3 x 3 systems irrespective of the tolerance settings - not a tight check, a wrong factor or sign is what it detects; its forward returns kl = 0 by design, the gradient it delivers for the kl output is compared with "
        "the gradient of the documented KL(q(u) || p(u)) w.r.t. the expectation parameters; the CIQ root K^-1/2 itself (contour integral quadrature) is not exercised",
    ]
    wd = os.path.join(tlc.BUILD, PID)
    insts = gen_instances(rnd, thorough)
    jobs = []
    half = len(insts) // 2
    tw = max(1, min(4, core.NPROC // 3))
    for name, part, ii, inv in (("gcells", "gcells", (), ["GCellsOK"]), ("gexactA", "gexact", insts[:half], ["GExactOK"]), ("gexactB", "gexact", insts[half:], ["GExactOK"])):
        mod, cfg = write_mc(wd, name, part, ii, inv)
        jobs.append(((mod, cfg), dict(name=PID + "/" + name, dump=True, check=False, workers=tw, timeout=1500, coverage=False)))
    # the call-configuration lattice and the backward machine (thorough: the machine partitioned by Function to keep every dump small)
    mod, cfg = write_mc(wd, "gcalls", "gcalls", (), ["GCallsOK"], tier=ck.tier)
    jobs.append(((mod, cfg), dict(name=PID + "/gcalls", dump=True, check=False, workers=tw, timeout=1500, coverage=False)))
    mparts = [["rbfcov", "materncov"], ["lncdf", "ngdinterp"], ["nat2muvar"], ["trilnat2muvar"]] if thorough else [["rbfcov", "materncov", "lncdf", "nat2muvar", "trilnat2muvar", "ngdinterp"]]
    for k, fns in enumerate(mparts):
        mod, cfg = write_mc(wd, "gmachine%d" % k, "gmachine", (), ["GMachineOK"], tier=ck.tier, fns=fns)
        jobs.append(((mod, cfg), dict(name=PID + "/gmachine%d" % k, dump=True, check=False, workers=tw, timeout=1500, coverage=False)))
    # the same machine with every OTHER non-empty subset of the inputs requiring grad (a frozen parameter, exactly one of two tensors, x1 / x2 of the covariance Functions)
    rgparts = [["rbfcov", "materncov"], ["nat2muvar", "trilnat2muvar", "ngdinterp"]] if thorough else [ALL_FNS]
    for k, fns in enumerate(rgparts):
        mod, cfg = write_mc(wd, "gneeds%d" % k, "gmachine", (), ["GMachineOK"], tier=ck.tier, fns=fns, machrg="other", bwmax=BW_MAX_RG, ups=BW_UP_RG[ck.tier])
        jobs.append(((mod, cfg), dict(name=PID + "/gneeds%d" % k, dump=True, check=False, workers=tw, timeout=1500, coverage=False)))
    # vacuity guard of the requires-grad dimension: a backward that skips the chain of an input that needs no gradient (and with it a term of ANOTHER input's
    # gradient) must be found, and only by a case in which a proper subset of the inputs requires grad
    short = [("trilnat2muvar", "natural_vec", "natural_tril_mat")]
    mod, cfg = write_mc(wd, "gshortA", "gmachine", (), ["GMachineNeedsOK"], tier=ck.tier, fns=["trilnat2muvar"], machrg="other", bwmax=1, ups=["randA"], shortcut=short)
    jobs.append(((mod, cfg), dict(name=PID + "/gshortA", dump=False, check=False, workers=1, timeout=600, coverage=False)))
    mod, cfg = write_mc(wd, "gshortB", "gmachine", (), ["GMachineNeedsOK"], tier=ck.tier, fns=["trilnat2muvar"], machrg="base", bwmax=1, ups=["randA"], shortcut=short)
    jobs.append(((mod, cfg), dict(name=PID + "/gshortB", dump=False, check=False, workers=1, timeout=600, coverage=False)))
    # vacuity guard of the histories: a backward that writes to one context entry must be found, and only by a history with two passes
    mod, cfg = write_mc(wd, "gimpure", "gmachine", (), ["GMachineDerivOK"], tier=ck.tier, fns=["lncdf"], impure=[("lncdf", "denominator")])
    jobs.append(((mod, cfg), dict(name=PID + "/gimpure", dump=False, check=False, workers=1, timeout=600, coverage=False)))
    rs = tlc.run_many(jobs, parallel=4)
    r_imp = rs.pop()
    r_shB, r_shA = rs.pop(), rs.pop()
    ck.add_tlc(r_shA, "Grad backward machine, tril-natural backward skipping the Cholesky chain when natural_tril_mat needs no gradient, proper subsets (must violate)")
    ck.add_tlc(r_shB, "the same with every input requiring grad (must not violate)")
    import re
    rg_bad = [sorted(x.strip().strip('"') for x in m_.group(1).split(",")) for m_ in re.finditer(r"violated by the initial state:.*?rg \|-> \{([^}]*)\}", r_shA.stdout or "", re.S)]
    if not r_shA.violation or r_shA.violation["name"] != "GMachineNeedsOK" or ["natural_vec"] not in rg_bad or r_shB.violation or r_shB.rc != 0:
        ck.vacuous("the backward machine does not distinguish a backward that short-circuits on needs_input_grad (proper subsets: %r at rg=%r; all inputs: %r)" % (
            (r_shA.violation or {}).get("name"), rg_bad, (r_shB.violation or {}).get("name")))
    r_needs = [rs.pop() for _ in rgparts][::-1]
    ck.add_tlc(r_imp, "Grad backward machine with an in-place write on ctx.denominator (must violate)")
    passes = max([len(st.get("out", {}).get("m", {}).get("hist", ())) for _, st in (r_imp.violation or {}).get("trace", [])] or [0])
    if not r_imp.violation or r_imp.violation["name"] != "GMachineDerivOK" or passes < 2:
        ck.vacuous("the backward machine does not distinguish an impure backward (violation %r, passes in the counterexample %d)" % ((r_imp.violation or {}).get("name"), passes))
    n_m = len(mparts)
    r_calls, r_mach = rs[3], rs[4:4 + n_m]
    for lab, r in zip(("branch lattice", "exact rational instances A", "exact rational instances B", "call-configuration lattice") + tuple("backward machine %d" % k for k in range(n_m))
                      + tuple("backward machine, other subsets of the inputs requiring grad %d" % k for k in range(len(r_needs))), rs + r_needs):
        ck.add_tlc(r, "Grad " + lab)
        if r.violation:
            ck.model_drift("Grad.tla (%s) violates %s" % (lab, r.violation["name"]))
            raise tlc.TLCError("Grad.tla: invariant %s violated (%s); the generated cases are incomplete" % (r.violation["name"], lab))
        elif r.rc != 0:
            raise tlc.TLCError("TLC failed on Grad %s:\n%s" % (lab, r.stdout[-1500:]))
    cells = [(_plain(st["c"]), _plain(st["out"])) for st in rs[0].states()]
    cells.sort(key=lambda c: repr(sorted(c[0].items())))
    kinds = collections.Counter(c["kind"] for c, _ in cells)
    for k in ("cov", "path", "ard", "cdf", "nat", "ciq", "pred", "ind"):
        if not kinds.get(k):
            ck.vacuous("no %s cells in the branch lattice" % k)
    for b in ("near_zero", "small", "ordinary"):
        if not any(c["kind"] == "cdf" and o["fwd"] == b for c, o in cells):
            ck.vacuous("no grid point in the %s branch of LogNormalCDF" % b)
    byid = {i["id"]: i for i in insts}
    cases = []
    for r in rs[1:3]:
        for st in r.states():
            inst = byid[st["c"]["id"]]
            cases.append(dict(kind="covr" if inst["kind"] == "covr" else "natx", inst=inst, exp=_plain(st["out"])))
    if len(cases) != len(insts):
        ck.vacuous("TLC evaluated %d of %d rational instances" % (len(cases), len(insts)))
    # ---- call-configuration lattice: one case per cell, evaluated under every forcing
    calls = [(_plain(st["c"]), _plain(st["out"])) for st in r_calls.states()]
    calls.sort(key=lambda c: repr(sorted(c[0].items())))
    n_fast = sum(1 for _, o in calls if o["paths"]["none"] == "fast")
    n_unsound = sum(1 for _, o in calls if not o["sound"])
    if not calls or not n_fast or not n_unsound or not any(c["ldb"] and c["kb"] == c["d"] for c, _ in calls):
        ck.vacuous("call-configuration lattice: %d cells, %d on the fast branch, %d the Function must not see" % (len(calls), n_fast, n_unsound))
    # the geometry dimension: shared rows of two different tensors on every call form incl. diag=True; far offsets above the cdist threshold on fast and generic cells
    geo_n = collections.Counter(c["geom"] for c, _ in calls)
    n_coin_diag = sum(1 for c, o in calls if c["geom"] == "coin" and c["diag"] and any(p[0] == p[1] for p in o["geo"]["pairs"]))
    n_far_cdist = sum(1 for c, o in calls if c["geom"] == "far" and o["geo"]["helper"] == "cdist" and o["geo"]["quad"] in (True, "True", "TRUE") and o["paths"]["none"] == "fast" and max(int(o["geo"]["n1"]), int(o["geo"]["n2"])) > 25)
    offs = sorted({int(o["geo"]["off"]) for c, o in calls if c["geom"] == "far"})
    if not geo_n["coin"] or not n_coin_diag or not n_far_cdist or offs != sorted(KC_OFFSETS) or any(c["geom"] == "coin" and c["mode"] in ("same", "clone") for c, _ in calls):
        ck.vacuous("call-configuration lattice, geometry: %r cells, %d diag=True cells with a shared row on the diagonal, %d far fast cells through the expansion of torch.cdist, offsets %r" % (
            dict(geo_n), n_coin_diag, n_far_cdist, offs))
    n_one = sum(1 for c, o in calls for f, w in o["wants"].items() if len(w) == 1 and c["mode"] != "same" and o["paths"]["none"] == "fast")
    if not n_one or not any(w == ["x1", "x2"] for _, o in calls for w in o["wants"].values()):
        ck.vacuous("call-configuration lattice: no fast cell evaluated with exactly one of two different input tensors requiring grad / none with both")
    for k, (cell, exp) in enumerate(calls):
        for sd in range(2 if thorough else 1):
            cases.append(dict(kind="call", cell=cell, exp=exp, seed=(ck.seed * 6151 + k) * 4 + sd))
    # ---- backward machine: every maximal history
    n_hist = collections.Counter()
    n_rg = collections.Counter()
    rg_seen = collections.defaultdict(set)
    k = 0
    for r, bwmax, other in [(r, BW_MAX, False) for r in r_mach] + [(r, BW_MAX_RG, True) for r in r_needs]:
        for st in r.states():
            m = _plain(st["out"]["m"])
            needs = _plain(st["out"]["needs"])
            cell = _plain(st["c"])
            if needs["refused"] in (True, "True"):
                if m["phase"] != "refused":
                    continue                    # the built state of a call the forward refuses
                k += 1
                n_rg["refused"] += 1
                rg_seen[cell["fn"]].add(tuple(cell["rg"]))
                cases.append(dict(kind="mach", cell=cell, hist=[], refused=True, seed=(ck.seed * 3571 + k) * 2))
                continue
            if any(v != "u . dF/d input" for v in needs["grads"].values()) or sorted(needs["grads"]) != sorted(cell["rg"]):
                raise core.Machinery("C19: the unchanged model does not deliver the complete derivative to every input that requires grad: %s %s" % (cell, needs))
            hist = m["hist"] if isinstance(m["hist"], list) else []
            if not hist or (m["phase"] == "recorded" and m["alive"] in (True, "True") and len(hist) < bwmax):
                continue
            if any(v not in (0, "0") for h in hist for v in h["saw"].values()):
                raise core.Machinery("C19: a history of the unchanged model reads a modified context")
            k += 1
            if other:
                n_rg["histories"] += 1
                n_rg["histories_" + needs["route"]] += 1
                rg_seen[cell["fn"]].add(tuple(cell["rg"]))
            else:
                n_hist[cell["fn"]] += 1
            cases.append(dict(kind="mach", cell=cell, hist=[dict(u=h["u"], how=h["how"]) for h in hist], seed=(ck.seed * 3571 + k) * 2))
    for fn in ALL_FNS:
        if not n_hist[fn]:
            ck.vacuous("backward machine: no history for %s" % fn)
        n_sub = {"lncdf": 0, "nat2muvar": 2, "trilnat2muvar": 2}.get(fn, 6)
        if len(rg_seen[fn]) != n_sub:
            ck.vacuous("backward machine: %d other subsets of the inputs of %s requiring grad, expected %d" % (len(rg_seen[fn]), fn, n_sub))
    if not n_rg["refused"] or not n_rg["histories_autograd"] or not n_rg["histories_function"]:
        ck.vacuous("backward machine, other subsets: %r" % dict(n_rg))
    seeds = 8 if thorough else 1
    pts = sorted((c["zn"], o) for c, o in cells if c["kind"] == "cdf")
    for i in range(0, len(pts), 20):
        cases.append(dict(kind="cdf", pts=[[n, o] for n, o in pts[i:i + 20]], seed=ck.seed * 100 + i))
    k = 0
    for cell, exp in cells:
        if cell["kind"] == "cdf":
            continue
        for s in range(seeds * (2 if cell["kind"] in ("nat", "ciq", "cov") else 1)):
            k += 1
            cases.append(dict(kind=cell["kind"], cell=cell, exp=exp, seed=(ck.seed * 7919 + k) * 8 + s))
    rnd.shuffle(cases)
    items = [dict(cases=cases[i:i + 6]) for i in range(0, len(cases), 6)]
    results = core.pmap(_worker, items, chunksize=1)
    ck.absorb(results)
    sigs = collections.Counter(r["sig"] for r in results if not r.get("ok", True) and not r.get("machinery"))
    ck.extra["failing_signature_counts"] = dict(sorted(sigs.items()))
    ck.exhaustive = False
    ck.section("lattice", **{k + "_cells": v for k, v in kinds.items()})
    ck.section("calls", cells=len(calls), default_branch_fast=n_fast, configurations_the_function_must_not_see=n_unsound, **{"geometry_" + k: v for k, v in geo_n.items()},
               diag_cells_with_a_shared_row_on_the_diagonal=n_coin_diag, far_fast_cells_through_the_expansion_of_cdist=n_far_cdist, far_offset_exponents=offs,
               evaluations_incl_forcings=sum(len(o["paths"]) for _, o in calls))
    ck.section("requires_grad", other_subsets={fn: sorted("+".join(t) for t in v) for fn, v in rg_seen.items()}, passes_per_graph_max=BW_MAX_RG, upstreams=BW_UP_RG[ck.tier],
               calls_with_exactly_one_of_two_tensors_requiring_grad_on_fast_cells=n_one, **dict(n_rg))
    ck.section("machine", maximal_histories=sum(n_hist.values()), passes_per_graph_max=BW_MAX, upstreams=BW_UP[ck.tier], **{"histories_" + k: v for k, v in n_hist.items()})
    ck.section("exact", rational_instances=len(insts), **{k: sum(1 for i in insts if i["kind"] == k) for k in ("nat", "tril", "covr")})
    ck.extra["trusted_base"] = ["torch.autograd on plain torch ops (reference gradients)", "float64 finite differences (4th order)", "mpmath (phi/Phi)", "checks/c05_ref.py (documented kernel formulas)",
                                "TLC + Rational.tla / LinAlg.tla", "bit comparison of the autograd context (grad_fn.saved_tensors, tensor attributes)"]


def replay(rep):
    core.setup_torch()
    res = _worker(dict(cases=[rep["case"]]))
    bad = [r for r in res if not r.get("ok", True) or r.get("machinery")]
    for r in bad:
        print("VIOLATION property=C19 replay=- :: %s :: %s" % (r.get("sig"), r.get("detail", r.get("machinery"))))
    if not bad:
        print("replay passed")
    return 1 if bad else 0
